#!/usr/bin/env python3
"""Generates MANIFEST.json from the table below (kept in one place so that the manifest
always validates and lists every property either under checks or under not_applicable)."""
import json, sys

ALL = ["C%02d" % i for i in range(1, 31)]

# id -> (engine, category, technique, level text, level note, design ref)
CHECKS = {
 "C02": ("txlab", "exploration",
         "exhaustive witness enumeration through btcd script engine + differential template interpreter",
         "Every witness stack of length <=3 (quick; <=4 thorough, plus boundary sequences at length 4 in quick) over a 12-item labelled alphabet, times 10 sequences x 2 tx versions x {1008,10080,60}, is executed against the script bytes and P2WSH program the real code builds; acceptance is compared with the semantic three-way oracle and the canonical witnesses must be accepted. Held = no accepted stack outside the three ways on what was enumerated.",
         "btcd txscript as consensus reference; Elements rules for these opcodes equal Bitcoin's (template interpreter agrees with btcd on all Bitcoin cases of the same run); sampled only for stacks of length 5-6.",
         "DESIGN.md C02"),
}

NOT_YET = "monitor not built yet in this round; see DESIGN.md section 7 for the build order"

def main():
    checks = []
    for pid in ALL:
        if pid not in CHECKS:
            continue
        eng, cat, tech, text, note, ref = CHECKS[pid]
        checks.append({
            "property_id": pid,
            "quick_cmd": "./check %s quick" % pid,
            "thorough_cmd": "./check %s thorough" % pid,
            "evidence_file": "/verif/evidence/%s.json" % pid,
            "replay_cmd_template": "./check %s quick --replay {path}" % pid,
            "engine": eng,
            "level_claimed": {"category": cat, "text": text, "design_ref": ref},
            "level_note": note,
            "technique": tech,
        })
    na = [{"property_id": p, "reason": NA.get(p, NOT_YET)} for p in ALL if p not in CHECKS]
    m = {
        "version": 1,
        "setup_cmd": "./setup.sh",
        "hooks": {
            "guard": "verif",
            "enable": "go test -tags verif (the harness module /verif/harness replaces github.com/elementsproject/peerswap by /repo)",
            "baseline_off_cmd": "cd /repo && GOFLAGS=-mod=mod GOPROXY=off GOSUMDB=off go test -vet=off -count=1 -timeout 25m ./...",
            "source_commits": HOOK_COMMITS,
            "add_only": True,
        },
        "engines": ENGINES,
        "checks": checks,
        "not_applicable": na,
        "notes": "Runtime monitoring of the real code under simulated, hostile and fault-injected workloads; see DESIGN.md. Known findings: known_findings.jsonl.",
    }
    json.dump(m, open("/verif/MANIFEST.json", "w"), indent=1)
    print("checks:", len(checks), "not_applicable:", len(na))

NA = {}
HOOK_COMMITS = ["979c0a1", "95de7f2"]
ENGINES = [
 {"name": "world-det", "path": "harness/sim + harness/props", "kind_free_text": "deterministic simulated world around real swap services (chains, Lightning ledger, wallets, bus, virtual timers, crash injection at the node boundary) with online/offline monitors", "serves_properties": []},
 {"name": "world-real", "path": "harness/sim + harness/props (race build)", "kind_free_text": "real watchers/retransmitters with concurrent stimuli under the Go race detector and goroutine-dump lock-cycle analysis", "serves_properties": []},
 {"name": "txlab", "path": "harness/ref/tmpl + harness/props", "kind_free_text": "script/transaction laboratory: btcd script engine, independent template interpreter, Liquid confidential transactions", "serves_properties": ["C02"]},
 {"name": "model-at-runtime", "path": "harness/props", "kind_free_text": "model-based operation sequences against real components with a reference model as oracle (porcupine for concurrent histories)", "serves_properties": []},
]

if __name__ == "__main__":
    main()
