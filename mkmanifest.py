#!/usr/bin/env python3
"""Generates MANIFEST.json from the table below (kept in one place so that the manifest
always validates and lists every property either under checks or under not_applicable)."""
import json, sys

ALL = ["C%02d" % i for i in range(1, 31)]

# id -> (engine, category, technique, level text, level note, design ref)
CHECKS = {
 "C01": ("world-det", "exploration", "online trace monitor at the payment crossing over generated malicious-maker histories (real validators, real state machine, simulated chain/Lightning ground truth)",
         "Each history drives the real taker state machine (swap-out sender or swap-in receiver) with the real Bitcoin/Liquid validators against a scripted maker applying one deviation (amount, asset incl. forged disclosure, blinding, keys, hash, CSV, output position, duplicates, depth/reorg, invoice amount/hash/CLTV, announcement order); at every RebalancePayment crossing the oracle checks depth, output (reference script builder, committed value/asset known to the adversary), invoice and channel against ground truth. Held = no payment outside these conditions in the histories run; honest variants must reach the payment.",
         "reference watcher reports confirmations truthfully (real watchers are C20); simulated Lightning node decodes invoices; Liquid blinding through real go-elements/secp256k1-zkp.",
         "DESIGN.md C01"),
 "C02": ("txlab", "exploration",
         "exhaustive witness enumeration through btcd script engine + differential template interpreter",
         "Every witness stack of length <=3 (quick; <=4 thorough, plus boundary sequences at length 4 in quick) over a 12-item labelled alphabet, times 10 sequences x 2 tx versions x {1008,10080,60}, is executed against the script bytes and P2WSH program the real code builds; acceptance is compared with the semantic three-way oracle and the canonical witnesses must be accepted. Held = no accepted stack outside the three ways on what was enumerated.",
         "btcd txscript as consensus reference; Elements rules for these opcodes equal Bitcoin's (template interpreter agrees with btcd on all Bitcoin cases of the same run); sampled only for stacks of length 5-6.",
         "DESIGN.md C02"),
 "C03": ("world-det", "exploration", "consensus execution + output/fee/ownership oracle on every spending transaction leaving real nodes in simulated swaps",
         "Real two-node swaps are driven to each ending (preimage, cooperative, CSV, CSV one block early) on both chains with random wallet funding layouts; each spend handed to the chain simulator is executed under consensus rules (btcd engine; template interpreter + Elements sighash + range/surjection proofs for Liquid), BIP68, and checked for single input = swap output, single own-wallet output, fee-only deduction, exact CSV sequence.",
         "Bitcoin wallet adapter is a harness mirror of clightning_wallet.go over the real onchain.BitcoinOnChain helpers (the real CLN/LND RPC adapters are not executed); Liquid runs the real LiquidOnChain over a simulated elementsd wallet.",
         "DESIGN.md C03"),
 "C08": ("world-det", "exploration", "online monitor at the opening_tx_broadcasted send crossing against the transaction the wallet really broadcast",
         "For each real two-node swap (both chains, both maker roles, random funding layouts: 1-5 inputs, swap output at index 0-3, fee output first/last) every outgoing opening_tx_broadcasted copy is compared with ground truth: tx id, index of the output carrying the reference script for the announced invoice hash, invoice amount/expiry/final CLTV, blinding key (go-elements unblinding) and byte-identity of retransmitted copies.",
         "Bitcoin wallet adapter is the harness mirror of the CLN adapter; simulated Lightning invoices.",
         "DESIGN.md C08"),
 "C11": ("world-det", "exploration", "reference admission predicate (math/big) vs replies of a real node to generated requests under generated configurations",
         "Generated (policy file, chains enabled, balances, premium rates, channel balances) x (request fields incl. extreme/malformed values) are delivered to a real node with file-backed policy and real premium settings; agreement => admit and not admit => cancel and no agreement are asserted on every reply; the agreement premium is compared with the exact rate arithmetic.",
         "balances are what the simulated Lightning node/wallet report; one request per channel so that C10 does not interfere.",
         "DESIGN.md C11"),
 "C13": ("world-det", "fault_enumeration", "crash-point enumeration with an ordered replay oracle over committed records, outgoing messages and payments",
         "Both Liquid taker roles are killed at every store write / service call (before and after the effect), restarted through Start+RecoverSwaps and continued; the oracle replays the ordered log: anchor committed (independent bbolt read) before the pubkey-bearing message leaves, never changed afterwards in any incarnation, no payment without anchor; plus height-lookup-failure and moving-tip histories.",
         "process crashes (kill), not power loss; committed = independent read transaction after the write.",
         "DESIGN.md C13"),
 "C14": ("model-at-runtime", "exploration", "round-trip monitor: real store write -> reopen -> fresh store read, compared field by field with the in-memory swap; byte idempotence",
         "Every record written in 18 real world scenarios (all four roles, every state of the four tables) is compared after reopening with a deep copy of the in-memory machine taken at the write crossing; 10^4 (quick) generated SwapStateMachine values with extreme/empty/long fields are round-tripped through create and update paths.",
         "LastErr is compared through LastErrString as the record format intends; LastMessage (never assigned by the code) is excluded.",
         "DESIGN.md C14"),
 "C15": ("world-det", "fault_enumeration", "crash-point enumeration (before/after effect at every boundary crossing) with offline exactly-once oracles over the recorded history",
         "All four roles x both chains: the victim is killed at each of its boundary crossings in both flavours, restarted via Start+RecoverSwaps, the peer continues; oracle: <=1 funding tx accepted by the chain, <=1 settled payment per (payer, hash), no pay crossing after a committed SwapCanceled, re-sent request/agreement byte-identical, no panic during recovery.",
         "second completion of one invoice is ultimately prevented by the Lightning node's de-duplication, which the ledger models; crash = kill (no torn writes).",
         "DESIGN.md C15"),
 "C25": ("model-at-runtime", "exploration", "model-based operation sequences against the real file-backed policy with live/fresh-from-file/reload comparison after every op",
         "640 (quick) seeded op sequences (<=40 ops: add/remove allowlist and suspicious, disable/enable, reload, restart, invalid pubkeys) over 8 pre-existing file classes incl. no trailing newline and spaces around '='; after every op the live answers, a fresh CreateFromFile and ReloadFile must equal the reference model and rejected ops must change neither answers nor file bytes.",
         "reference model parses the documented key=value format; list order is not compared.",
         "DESIGN.md C25"),
 "C27": ("model-at-runtime", "exploration", "math/big arithmetic oracle, persistent-map model incl. reopen, porcupine linearizability of concurrent rate operations, advertised-rate comparison on captured poll payloads",
         "Compute is compared with trunc(amount*rate/1e6) over boundary x random amounts/rates; 300 set/get/delete/reopen sequences against a model map; 30 concurrent rounds (8 goroutines) checked with porcupine; 1440 poll payloads sent by the real PeerSync are compared with Setting.GetRate for that peer.",
         "results that do not fit the int64 return type are outside the oracle's domain.",
         "DESIGN.md C27"),
 "C28": ("model-at-runtime", "exploration", "model-based step sequences against the real PeerSync over a fake Lightning port, incl. inbound polls injected while a poll round is in flight",
         "600 (quick) sequences of inbound poll/request_poll (versions 0/6/7/8, invalid payloads), connect/disconnect, PollAllPeers/ForcePollAllPeers, cleanup sweep, reopen and back-dated timestamps; oracle = reference model of capability (last accepted poll, lower version not accepted), reload identity, cleanup only for expired and disconnected peers, request_poll at most once between disconnects, compatibility <=> stored version 7.",
         "time.Now cannot be hooked: clock advance is emulated by back-dating stored timestamps; 'allowed again after the interval' is not observable.",
         "DESIGN.md C28"),
 "C29": ("model-at-runtime", "exploration", "exhaustive (state x stored-version class) single-record stores plus random mixtures through the real SafeUpgrade with before/after snapshots",
         "All 58 (table, state) pairs x 14 stored-version values (absent/current/older/newer/junk), with and without restart, plus 1500 mixtures of 0-6 harvested records: with any non-terminal swap and a version that would have to be replaced SafeUpgrade must fail and leave version and swap bytes unchanged; otherwise the version becomes current and swap bytes are unchanged.",
         "'startup fails' is demanded only when the stored version differs from the current one (see DESIGN corrections).",
         "DESIGN.md C29"),
 "C30": ("model-at-runtime", "exploration", "reference parser / exact-rational fee oracle / order-law checks on generated estimator answers and version strings",
         "~10^5 cases: DetermineFeeFloor vs reference parser, GetFee vs floor and fallback rules (1 sat tolerance), GBitcoindEstimator over a fake backend, CompareVersionStrings vs math/big lexicographic reference plus reflexivity/totality/transitivity/antisymmetry on triples.",
         "estimator answers bounded by btcutil.MaxSatoshi, version components for the fee floor below 2^31.",
         "DESIGN.md C30"),
}

NOT_YET = "monitor not built yet in this round; see DESIGN.md section 7 for the build order"

def main():
    checks = []
    for pid in ALL:
        if pid not in CHECKS:
            continue
        eng, cat, tech, text, note, ref = CHECKS[pid]
        checks.append({
            "property_id": pid,
            "quick_cmd": "./check %s quick" % pid,
            "thorough_cmd": "./check %s thorough" % pid,
            "evidence_file": "/verif/evidence/%s.json" % pid,
            "replay_cmd_template": "./check %s quick --replay {path}" % pid,
            "engine": eng,
            "level_claimed": {"category": cat, "text": text, "design_ref": ref},
            "level_note": note,
            "technique": tech,
        })
    na = [{"property_id": p, "reason": NA.get(p, NOT_YET)} for p in ALL if p not in CHECKS]
    m = {
        "version": 1,
        "setup_cmd": "./setup.sh",
        "hooks": {
            "guard": "verif",
            "enable": "go test -tags verif (the harness module /verif/harness replaces github.com/elementsproject/peerswap by /repo)",
            "baseline_off_cmd": "cd /repo && GOFLAGS=-mod=mod GOPROXY=off GOSUMDB=off go test -vet=off -count=1 -timeout 25m ./...",
            "source_commits": HOOK_COMMITS,
            "add_only": True,
        },
        "engines": ENGINES,
        "checks": checks,
        "not_applicable": na,
        "notes": "Runtime monitoring of the real code under simulated, hostile and fault-injected workloads; see DESIGN.md. Known findings: known_findings.jsonl.",
    }
    json.dump(m, open("/verif/MANIFEST.json", "w"), indent=1)
    print("checks:", len(checks), "not_applicable:", len(na))

NA = {}
HOOK_COMMITS = ["979c0a1", "95de7f2", "9fafd20"]
ENGINES = [
 {"name": "world-det", "path": "harness/sim + harness/props", "kind_free_text": "deterministic simulated world around real swap services (chains, Lightning ledger, wallets, bus, virtual timers, crash injection at the node boundary) with online/offline monitors", "serves_properties": ["C01","C03","C08","C11","C13","C15"]},
 {"name": "world-real", "path": "harness/sim + harness/props (race build)", "kind_free_text": "real watchers/retransmitters with concurrent stimuli under the Go race detector and goroutine-dump lock-cycle analysis", "serves_properties": []},
 {"name": "txlab", "path": "harness/ref/tmpl + harness/props", "kind_free_text": "script/transaction laboratory: btcd script engine, independent template interpreter, Liquid confidential transactions", "serves_properties": ["C02"]},
 {"name": "model-at-runtime", "path": "harness/props", "kind_free_text": "model-based operation sequences against real components with a reference model as oracle (porcupine for concurrent histories)", "serves_properties": ["C14","C25","C27","C28","C29","C30"]},
]

if __name__ == "__main__":
    main()
