#!/usr/bin/env python3
"""Generates MANIFEST.json from the table below (kept in one place so that the manifest
always validates and lists every property either under checks or under not_applicable)."""
import json, sys

ALL = ["C%02d" % i for i in range(1, 31)]

# id -> (engine, category, technique, level text, level note, design ref)
CHECKS = {
 "C01": ("world-det", "exploration", "online trace monitor at the payment crossing over generated malicious-maker histories (real validators, real state machine, simulated chain/Lightning ground truth)",
         "Each history drives the real taker state machine (swap-out sender or swap-in receiver) with the real Bitcoin/Liquid validators against a scripted maker applying one deviation (amount, asset incl. forged disclosure, blinding, keys, hash, CSV, output position, duplicates, depth/reorg, invoice amount/hash/CLTV, announcement order); at every RebalancePayment crossing the oracle checks depth, output (reference script builder, committed value/asset known to the adversary), invoice and channel against ground truth. Held = no payment outside these conditions in the histories run; honest variants must reach the payment.",
         "reference watcher reports confirmations truthfully (real watchers are C20); simulated Lightning node decodes invoices; Liquid blinding through real go-elements/secp256k1-zkp.",
         "DESIGN.md C01"),
 "C02": ("txlab", "exploration",
         "exhaustive witness enumeration through btcd script engine + differential template interpreter",
         "Every witness stack of length <=3 (quick; <=4 thorough, plus boundary sequences at length 4 in quick) over a 12-item labelled alphabet, times 10 sequences x 2 tx versions x {1008,10080,60}, is executed against the script bytes and P2WSH program the real code builds; acceptance is compared with the semantic three-way oracle and the canonical witnesses must be accepted. Held = no accepted stack outside the three ways on what was enumerated.",
         "btcd txscript as consensus reference; Elements rules for these opcodes equal Bitcoin's (template interpreter agrees with btcd on all Bitcoin cases of the same run); sampled only for stacks of length 5-6.",
         "DESIGN.md C02"),
 "C03": ("world-det", "exploration", "consensus execution + output/fee/ownership oracle on every spending transaction leaving real nodes in simulated swaps",
         "Real two-node swaps are driven to each ending (preimage, cooperative, CSV, CSV one block early) on both chains with random wallet funding layouts; each spend handed to the chain simulator is executed under consensus rules (btcd engine; template interpreter + Elements sighash + range/surjection proofs for Liquid), BIP68, and checked for single input = swap output, single own-wallet output, fee-only deduction, exact CSV sequence.",
         "Bitcoin wallet adapter is a harness mirror of clightning_wallet.go over the real onchain.BitcoinOnChain helpers (the real CLN/LND RPC adapters are not executed); Liquid runs the real LiquidOnChain over a simulated elementsd wallet.",
         "DESIGN.md C03"),
 "C04": ('world-det', 'exploration', 'online oracle at every RebalancePayment crossing under scheduler-controlled Liquid tips + exhaustive grid through both real route builders',
         'Real Liquid taker state machines (both roles) against a scripted maker: blocks before the announcement, delayed confirmation, tip moving between retries, failing first attempts, restarts, a backend reporting a tip below the anchor, heights offset to just below 2^32, invoice CLTV 0..40/negative/2^31 and planted protocol-6 records; every payment attempt must find a committed anchor with anchor <= reported tip < anchor+60, invoice CLTV <= 29 and maxTotalCLTVDelta 32; legacy swaps must create no payment. The builders (CLN route / LND request, via the verif exports) are swept exhaustively over final CLTV [-2,600]+extremes x limit {0,32}.',
         'tip = height the simulated backend last reported to the node before the attempt (a block arriving between lookup and payment is not judged); LND BlockPadding = 3.',
         'DESIGN.md C04'),
 "C05": ('world-det', 'exploration', 'online oracle at every RebalancePayment crossing with exact integers; permitted HTLC delta read from the requests the real builders produce',
         'Real Bitcoin taker state machines against a scripted maker that confirms its opening tx as early as it can (h_conf - start in -2..+3, incl. before the taker start for swap-out) and announces late; systematic corner grid (payment at start+499..506, invoice CLTV 499..505) plus random histories with delayed notifications, blocks between retries and restarts. Oracle: now + permitted(f) < h_conf + 1008 for CLN (f+1) and LND (f+3). The thin margin band of the unchanged tree is listed in known_findings.jsonl with its analytic slack bound; any slack beyond the bound is a new violation.',
         'h_conf from the chain ground truth; now = height last reported to the node.',
         'DESIGN.md C05'),
 "C06": ('world-det', 'fault_enumeration', 'scripted payment-outcome sequences x timers x claim failures x crash-point enumeration with an online oracle at every outgoing coop_close against the Lightning ground truth',
         'Both taker roles, both chains, CLN-like and LND-like Lightning personalities: attempt outcomes {settle, fail, error-while-pending then settled/failed/never, error-although-settled}, negotiation timer fired after the payment or late, claim broadcast failing 0/3/25 times, peer cancel after payment, and a kill at every boundary crossing of the payment/claim phase followed by Start+RecoverSwaps. At every coop_close leaving the taker no attempt of any incarnation may be pending or settled; a settled payment must end in a preimage claim accepted by the chain.',
         'error-while-pending models an RPC/stream failure with the HTLC in flight; RecoverClaimPayment blocks while in flight (waitsendpay / TrackPaymentV2).',
         'DESIGN.md C06'),
 "C07": ('world-det', 'fault_enumeration', 'crash-point enumeration over both maker roles plus scripted hostile takers x injected faults, judged against chain ground truth and committed records, with a drain past the CSV',
         '(i) both maker roles x both chains killed at every boundary crossing (before/after, with and without the peer dying too), restarted and drained past the CSV; (ii) scripted takers (silence, cancel, invalid message, coop_close with wrong/malformed/short/zero/third-party keys, cancel then coop_close, coop_close after CSV) x faults (height lookup failing after the wallet broadcast, refund broadcast failing 5x, announcement send failing) x swap output at index 0-2. Oracle: the committed record names the broadcast tx and the index of its swap output; terminal only if paid or the own spend was accepted; refund on chain after the drain.',
         'reference watcher watches the announced (txid, vout) like the real RPC watcher; the crash window between wallet broadcast and the next store write is a listed known finding.',
         'DESIGN.md C07'),
 "C09": ('world-det', 'exploration', 'before/after snapshot oracle (all persisted records as bytes + active-swap object identity) around single adversarial deliveries at seed-chosen points of honest runs',
         '2600 (quick) histories: a real node holding a finished swap and a live swap stopped after 0-8 queue steps/0-4 blocks (all roles, both chains, optionally in the restart window) receives one well-formed message of each of the 7 types from the counterparty or a third party with the id of the live / finished / an unknown swap; unless the message is from the counterparty and its event is in the table row of the current state, the record must be byte-identical, the machine the same object in the same state, other swaps untouched, and a request reusing a known id must be answered with cancel.',
         'state tables read through the verif export; one delivery per history.',
         'DESIGN.md C09'),
 "C10": ('world-det', 'exploration', 'step-wise invariant over persisted swaps grouped by normalised channel id + porcupine linearizability check of concurrent channel acquisition (race build)',
         '300 (quick) seeded sequences of local SwapIn/SwapOut, incoming requests (both channel-id spellings), cancel, restart and requests in the restart window, with the <=1-per-channel invariant and the busy=>cancel rule checked after every step; 40 concurrent rounds (6-11 goroutines, 1-2 channels) through the real entry points checked with porcupine against a per-channel test-and-set model under the race detector.',
         'a refusal on a free channel is not judged; the restart-window admission is a listed known finding.',
         'DESIGN.md C10'),
 "C12": ('world-det', 'exploration', 'math/big bounds checked at every money-moving crossing of a real initiator against a scripted responder choosing extreme premiums and fee invoices',
         '500 (quick) histories: swap-out initiator (fee invoice <= 3x own estimate and channel can carry amount+fee; claim invoice = (amount+premium)*1000 with premium <= limit) and swap-in initiator (funded swap output = amount+premium, premium <= limit, invoice = amount*1000) with premiums in {-2^63, -amount-1, -amount, -1, 0, limit, limit+-1, 2^63-1}, fee invoices {0, est, 3est, 3est+1, huge}, fee estimates {normal,0,1,error}, limit rates up to +-1e6 ppm, amounts up to 2^63/1000, rich and normal wallets; plus the responder-premium clause on the C11 workload.',
         'Liquid output value read by unblinding with the announced blinding key.',
         'DESIGN.md C12'),
 "C16": ('world-det', 'fault_enumeration', 'prefix enumeration (peer dies at every boundary crossing, optional crash before or inside the drain) followed by a bounded drain procedure counted in logical steps',
         '4 roles x 2 chains x {happy, payment failing, claim broadcast failing}: the peer dies at every (quick: every 2nd/3rd) crossing of the node, optionally with a kill of the node before the cut or inside the drain; the drain = <=6 rounds of {advance the virtual clock 11 min, resolve pending HTLCs, heal services, mine past payment windows and CSV, restart}. Verdict: every swap terminal and the active-swap map empty. The crash-after-own-spend family is listed as known findings.',
         'bounded restatement of liveness; fairness = the drain script.',
         'DESIGN.md C16'),
 "C17": ('world-det', 'fault_enumeration', 'virtual-clock histories with a restart after every crossing of the negotiation phase (exhaustive small grid)',
         'Requester (swap-in and swap-out) never answered, and swap-out responder whose fee invoice is never paid, on both chains, with a restart after crossing 0..14; the virtual clock advances exactly 10 minutes; the committed state must be SwapCanceled and a cancel must have been sent.',
         'timeouts observed through the verif timeout hook (virtual clock).',
         'DESIGN.md C17'),
 "C21": ('world-det', 'exploration', 'strict decode of every sent message against the protocol numbering, codec round trip of generated values, snapshot oracle around junk deliveries',
         'Every message sent in a mix of two-node histories must carry an odd type in 42069..42085 whose payload strictly decodes into the message of that number and re-encodes to the same JSON value; 4000 (quick) generated extreme values go through Marshal -> hex type string -> type lookup -> Unmarshal; 7500 junk deliveries (foreign/odd type strings, null/tiny/truncated/mutated/oversized payloads) to nodes with live swaps must change no record, no active swap, send nothing and not panic.',
         'junk = non-peerswap type, oversized, null, or not JSON-decodable into the message of its type; decodable-but-invalid requests are C11 (cancel).',
         'DESIGN.md C21'),
 "C23": ('world-det', 'exploration', "passive scan of all outgoing payloads for the sender's secrets in six encodings over a mix of histories incl. crash/restart histories",
         "Both nodes of ~60 mixed histories (happy, coop after failed payment, CSV, cancel, failing claim) and of the 400-point crash sweep: swap private keys (from committed records), claim/fee preimages of own invoices and wallet blinding keys are searched in raw, hex, HEX, base64, base64url and reversed-hex form in every sent payload; only the taker's own key as privkey of its coop_close is allowed.",
         'Bitcoin wallet keys never enter the process (simulated lightningd wallet); logs are not scanned.',
         'DESIGN.md C23'),
 "C24": ('txlab', 'exploration', 'sweep of the real CLN route builder and LND payment-request builder through verif exports + channel check on every payment crossing of world runs',
         '12000 (quick) generated (invoice destination/amount/CLTV, channel id spelling, limit) inputs: CLN route = exactly one hop over the swap channel (x spelling) to the invoice payee for the invoice amount; LND request = exactly that channel, MaxParts 1, the invoice itself, no amount/destination override, refused for a foreign destination; all fee/claim payments of 40 two-node swaps name the swap channel.',
         'sendpay / SendPaymentV2 themselves are not executed (no fake CLN/LND server): the objects handed to them are checked.',
         'DESIGN.md C24'),
 "C26": ('world-det', 'exploration', 'follow-up probes (policy file, fresh policy, requests, local initiations, real PeerSync over a fake Lightning port with a control peer) after real CSV refunds, before and after a restart',
         'Both maker roles x both chains x taker {silent, cancel, wrong-key coop_close} end in ClaimedCsv on a real node; then the policy file line, a fresh policy, 4 requests from the peer (cancel, no agreement), 2 local initiations (error, no request sent) and a real PeerSync (no message to the peer, no stored capability; control peer does get both) are checked, twice.',
         "PeerSync instantiated by the harness with the node's policy and premium objects as the mains do.",
         'DESIGN.md C26'),
 "C08": ("world-det", "exploration", "online monitor at the opening_tx_broadcasted send crossing against the transaction the wallet really broadcast",
         "For each real two-node swap (both chains, both maker roles, random funding layouts: 1-5 inputs, swap output at index 0-3, fee output first/last) every outgoing opening_tx_broadcasted copy is compared with ground truth: tx id, index of the output carrying the reference script for the announced invoice hash, invoice amount/expiry/final CLTV, blinding key (go-elements unblinding) and byte-identity of retransmitted copies.",
         "Bitcoin wallet adapter is the harness mirror of the CLN adapter; simulated Lightning invoices.",
         "DESIGN.md C08"),
 "C11": ("world-det", "exploration", "reference admission predicate (math/big) vs replies of a real node to generated requests under generated configurations",
         "Generated (policy file, chains enabled, balances, premium rates, channel balances) x (request fields incl. extreme/malformed values) are delivered to a real node with file-backed policy and real premium settings; agreement => admit and not admit => cancel and no agreement are asserted on every reply; the agreement premium is compared with the exact rate arithmetic.",
         "balances are what the simulated Lightning node/wallet report; one request per channel so that C10 does not interfere.",
         "DESIGN.md C11"),
 "C13": ("world-det", "fault_enumeration", "crash-point enumeration with an ordered replay oracle over committed records, outgoing messages and payments",
         "Both Liquid taker roles are killed at every store write / service call (before and after the effect), restarted through Start+RecoverSwaps and continued; the oracle replays the ordered log: anchor committed (independent bbolt read) before the pubkey-bearing message leaves, never changed afterwards in any incarnation, no payment without anchor; plus height-lookup-failure and moving-tip histories.",
         "process crashes (kill), not power loss; committed = independent read transaction after the write.",
         "DESIGN.md C13"),
 "C14": ("model-at-runtime", "exploration", "round-trip monitor: real store write -> reopen -> fresh store read, compared field by field with the in-memory swap; byte idempotence",
         "Every record written in 18 real world scenarios (all four roles, every state of the four tables) is compared after reopening with a deep copy of the in-memory machine taken at the write crossing; 10^4 (quick) generated SwapStateMachine values with extreme/empty/long fields are round-tripped through create and update paths.",
         "LastErr is compared through LastErrString as the record format intends; LastMessage (never assigned by the code) is excluded.",
         "DESIGN.md C14"),
 "C15": ("world-det", "fault_enumeration", "crash-point enumeration (before/after effect at every boundary crossing) with offline exactly-once oracles over the recorded history",
         "All four roles x both chains: the victim is killed at each of its boundary crossings in both flavours, restarted via Start+RecoverSwaps, the peer continues; oracle: <=1 funding tx accepted by the chain, <=1 settled payment per (payer, hash), no pay crossing after a committed SwapCanceled, re-sent request/agreement byte-identical, no panic during recovery.",
         "second completion of one invoice is ultimately prevented by the Lightning node's de-duplication, which the ledger models; crash = kill (no torn writes).",
         "DESIGN.md C15"),
 "C25": ("model-at-runtime", "exploration", "model-based operation sequences against the real file-backed policy with live/fresh-from-file/reload comparison after every op",
         "640 (quick) seeded op sequences (<=40 ops: add/remove allowlist and suspicious, disable/enable, reload, restart, invalid pubkeys) over 8 pre-existing file classes incl. no trailing newline and spaces around '='; after every op the live answers, a fresh CreateFromFile and ReloadFile must equal the reference model and rejected ops must change neither answers nor file bytes.",
         "reference model parses the documented key=value format; list order is not compared.",
         "DESIGN.md C25"),
 "C27": ("model-at-runtime", "exploration", "math/big arithmetic oracle, persistent-map model incl. reopen, porcupine linearizability of concurrent rate operations, advertised-rate comparison on captured poll payloads",
         "Compute is compared with trunc(amount*rate/1e6) over boundary x random amounts/rates; 300 set/get/delete/reopen sequences against a model map; 30 concurrent rounds (8 goroutines) checked with porcupine; 1440 poll payloads sent by the real PeerSync are compared with Setting.GetRate for that peer.",
         "results that do not fit the int64 return type are outside the oracle's domain.",
         "DESIGN.md C27"),
 "C28": ("model-at-runtime", "exploration", "model-based step sequences against the real PeerSync over a fake Lightning port, incl. inbound polls injected while a poll round is in flight",
         "600 (quick) sequences of inbound poll/request_poll (versions 0/6/7/8, invalid payloads), connect/disconnect, PollAllPeers/ForcePollAllPeers, cleanup sweep, reopen and back-dated timestamps; oracle = reference model of capability (last accepted poll, lower version not accepted), reload identity, cleanup only for expired and disconnected peers, request_poll at most once between disconnects, compatibility <=> stored version 7.",
         "time.Now cannot be hooked: clock advance is emulated by back-dating stored timestamps; 'allowed again after the interval' is not observable.",
         "DESIGN.md C28"),
 "C29": ("model-at-runtime", "exploration", "exhaustive (state x stored-version class) single-record stores plus random mixtures through the real SafeUpgrade with before/after snapshots",
         "All 58 (table, state) pairs x 14 stored-version values (absent/current/older/newer/junk), with and without restart, plus 1500 mixtures of 0-6 harvested records: with any non-terminal swap and a version that would have to be replaced SafeUpgrade must fail and leave version and swap bytes unchanged; otherwise the version becomes current and swap bytes are unchanged.",
         "'startup fails' is demanded only when the stored version differs from the current one (see DESIGN corrections).",
         "DESIGN.md C29"),
 "C30": ("model-at-runtime", "exploration", "reference parser / exact-rational fee oracle / order-law checks on generated estimator answers and version strings",
         "~10^5 cases: DetermineFeeFloor vs reference parser, GetFee vs floor and fallback rules (1 sat tolerance), GBitcoindEstimator over a fake backend, CompareVersionStrings vs math/big lexicographic reference plus reflexivity/totality/transitivity/antisymmetry on triples.",
         "estimator answers bounded by btcutil.MaxSatoshi, version components for the fee floor below 2^31.",
         "DESIGN.md C30"),
}

CHECKS.update({
 "C18": ("world-real", "exploration", "real watchers behind real state machines; goroutine-dump lock-cycle analysis (two dumps one second apart must show the same cycle) plus bounded-progress oracle for the refund",
         "Real makers of both roles on both chains with the real rpc watcher / LWK Electrum watcher; grid of CSV state {not yet, exactly matured, long matured} x stimulus {cancel, invalid message, coop_close with wrong key} x {with, without concurrent block notifications and reader calls}. A call that does not return is a violation only when both dumps show the same self-deadlock (one SwapStateMachine.SendEvent twice on a goroutine blocked in Mutex.Lock) or a swap-mutex/watcher-lock ABBA pair; otherwise inconclusive. After the stimulus the refund must happen once the CSV matured.",
         "simulated services answer instantly, so a goroutine blocked in Mutex.Lock for more than a second is not waiting for the environment; the LND chain-notifier watcher is not exercised.",
         "DESIGN.md C18"),
 "C19": ("world-real", "exploration", "Go race detector (go test -race, GORACE log_path, halt_on_error=0) over concurrent worlds with real watchers, retransmitters, RPC-style readers, policy/premium edits, restarts with messages in flight; reports parsed, attributed and de-duplicated by innermost peerswap frame pair",
         "30 (quick) / 300 (thorough) worlds with two real nodes, 3 swaps, 3 concurrent delivery pumps and 5 background goroutines (blocks, readers, policy, premium, hostile messages/timers/ResendLastMessage) plus a restart with messages arriving before RecoverSwaps; the C10 concurrent channel acquisition runs in the same race build. Every DATA RACE report with a peerswap frame on both sides is a violation.",
         "reports whose racing accesses are both inside a third-party library's own state (go-secp256k1-zkp SharedContext cache) are counted separately and are not a verdict on peerswap state; reports involving only harness frames or verif hooks fail the check as broken.",
         "DESIGN.md C19"),
 "C20": ("world-real", "exploration", "real rpc and Electrum watchers over chain-version-stamped facades of the chain simulator; per-report oracle over the versions the watcher can have looked at",
         "Generated block histories (bursts, blocks/reorgs between the RPC calls of one observation pass, reorgs that unconfirm/re-confirm, stale bestblock, transient RPC errors, registration after the fact, window edges, never-broadcast tx, out-of-order headers, heights near 2^32, rejecting consumer). Every confirmation / CSV report must be true in some chain version among the watcher's recent answers; at most one accepted report per registration.",
         "the watcher can only have looked at chain versions spanned by its last 14 (rpc) / 6 (electrum) answers; wall-clock sleeps only give the polling watcher time to run.",
         "DESIGN.md C20"),
 "C22": ("world-real", "exploration", "real RedundantMessenger goroutines (5 ms retry through the verif hook) observed through a decorator of the real Manager; offline oracle over the recorded send log",
         "Real makers of both roles/chains announce the opening tx to a scripted taker; after a few retransmissions the history continues with {payment, cancel, good coop_close, wrong-key coop_close, invalid message, CSV maturity, restart} and runs >= 20 more retry intervals. Copies must be byte-identical, never more than one live retransmitter per swap, at most one copy after the first committed record in a non-waiting state.",
         "wall-clock time only decides how many copies are observed, never the verdict rule.",
         "DESIGN.md C22"),
})


# what the checks gained after the level texts above were written (second and third wave of seeded changes)
ADDENDA = {
 "C01": "Added: whole-node worlds with the REAL rpc / lnd / Electrum watchers under reorganisations below the required depth, and a taker killed inside its payment call with the confirming blocks reorganised away before the restart (depth judged on the chain as it is at the payment crossing).",
 "C02": "Added: whole-node worlds in which a real maker funds its opening output against takers whose agreement carries other protocol versions; the funded script must be the protocol-7 script of the chain.",
 "C03": "Added: real CLN and lnd wallet adapters over fakes in part of the Bitcoin worlds; Liquid fee estimation failing once the opening tx is out.",
 "C05": "Added: whole-node swap-out takers with the REAL rpc and lnd watchers against a maker that broadcasts at once and delays the taker's start by up to 1100 blocks (held fee payment); lnd GetInfo failing after the confirmation event. The start-anchored window found there is a known finding (formula signatures).",
 "C07": "Added: real rpc watcher with backend hiccups and reorganisations; scripted takers (cancel / unusable coop_close / silence) with the maker restarted while it waits for the CSV.",
 "C10": "Added: funded makers, recovery under wallet faults, transient store errors on the 2nd/3rd write of a starting swap.",
 "C11": "Added: wrap-around amounts, zero rates, wallets reporting testnet3/testnet4/mainnet/signet.",
 "C12": "Added: claim invoices with a sub-satoshi surplus; responder premium over a twelve-entry rate table incl. zero rates in front of non-zero ones and global-rate changes between requests of the same peer.",
 "C14": "Added: concurrent readers; cancel / coop_close hints longer than 256 bytes with multi-byte characters around byte 256.",
 "C15": "Added: redelivery, crashes inside the refund path, the maker's claim-invoice creation failing once (crash at every crossing).",
 "C16": "Added: scripted takers that answer the announcement once with something unusable and go silent, with and without a restart while the maker waits for the CSV.",
 "C17": "Added: the peer must be told whenever the request / agreement had been handed to the messenger (found and fixed 784803d); histories in which the counterparty sends, in the middle of the wait, a well-formed message of this swap that the waiting state does not accept (announcement, coop_close, the other swap type's agreement) and then stays silent.",
 "C18": "Added: a third verdict shape (goroutine inside SendEvent blocked in peerswap's own channel/lock), watcher-liveness probes with a control watcher, lost announcements, transient backend errors.",
 "C19": "Added: policy readers vs editors, swap churn, timers becoming due together with messages of the same swap, watcher component worlds (Electrum, bitcoind, elementsd, lnd).",
 "C20": "Added: the real lnd tx watcher as fourth backend; header bursts with a slow consumer; an older header right after a late registration.",
 "C22": "Added: unreachable peer, slow refund wallet, a stalled backend send while the taker cancels (interval 5 ms).",
 "C23": "Added: decimal byte-list encodings, failing funding/backends, one node in two swaps in opposite roles with its retransmitter running (also on a single-CPU process).",
 "C24": "Added: the channel the real lnd client resolves the swap's channel id to (own channel missing / short / present among others).",
 "C26": "Added: earlier-quarantined peers in unsorted order with an admission control, hand-edited policy files without a final line end, a crash at the quarantine write, a peer-sync store that already knows the peer.",
 "C27": "Added: the premium written into real agreements for every (asset, direction, layer).",
 "C29": "Added: a chain switched off in the configuration while a swap on it is active.",
}

NOT_YET = "monitor not built yet in this round; see DESIGN.md section 7 for the build order"

def main():
    checks = []
    for pid in ALL:
        if pid not in CHECKS:
            continue
        eng, cat, tech, text, note, ref = CHECKS[pid]
        if pid in ADDENDA:
            text = text + " " + ADDENDA[pid]
        checks.append({
            "property_id": pid,
            "quick_cmd": "./check %s quick" % pid,
            "thorough_cmd": "./check %s thorough" % pid,
            "evidence_file": "/verif/evidence/%s.json" % pid,
            "replay_cmd_template": "./check %s quick --replay {path}" % pid,
            "engine": eng,
            "level_claimed": {"category": cat, "text": text, "design_ref": ref},
            "level_note": note,
            "technique": tech,
        })
    na = [{"property_id": p, "reason": NA.get(p, NOT_YET)} for p in ALL if p not in CHECKS]
    m = {
        "version": 1,
        "setup_cmd": "./setup.sh",
        "hooks": {
            "guard": "verif",
            "enable": "go test -tags verif (the harness module /verif/harness replaces github.com/elementsproject/peerswap by /repo)",
            "baseline_off_cmd": "cd /repo && GOFLAGS=-mod=mod GOPROXY=off GOSUMDB=off go test -vet=off -count=1 -timeout 25m ./...",
            "source_commits": HOOK_COMMITS,
            "add_only": True,
        },
        "engines": ENGINES,
        "checks": checks,
        "not_applicable": na,
        "notes": "Runtime monitoring of the real code under simulated, hostile and fault-injected workloads; see DESIGN.md. Known findings: known_findings.jsonl.",
    }
    json.dump(m, open("/verif/MANIFEST.json", "w"), indent=1)
    print("checks:", len(checks), "not_applicable:", len(na))

NA = {}
HOOK_COMMITS = ["979c0a1", "95de7f2", "9fafd20", "2176eb6", "0dbd7aa", "76fa500", "bb0fe5d"]
ENGINES = [
 {"name": "world-det", "path": "harness/sim + harness/props", "kind_free_text": "deterministic simulated world around real swap services (chains, Lightning ledger, wallets, bus, virtual timers, crash injection at the node boundary) with online/offline monitors", "serves_properties": ["C01","C03","C04","C05","C06","C07","C08","C09","C10","C11","C12","C13","C15","C16","C17","C21","C23","C26"]},
 {"name": "world-real", "path": "harness/sim + harness/props (race build)", "kind_free_text": "real watchers/retransmitters with concurrent stimuli under the Go race detector and goroutine-dump lock-cycle analysis", "serves_properties": ["C18","C19","C20","C22"]},
 {"name": "txlab", "path": "harness/ref/tmpl + harness/props", "kind_free_text": "script/transaction laboratory: btcd script engine, independent template interpreter, Liquid confidential transactions", "serves_properties": ["C02","C24"]},
 {"name": "model-at-runtime", "path": "harness/props", "kind_free_text": "model-based operation sequences against real components with a reference model as oracle (porcupine for concurrent histories)", "serves_properties": ["C14","C25","C27","C28","C29","C30"]},
]

if __name__ == "__main__":
    main()
