#!/bin/bash
# Builds the harness once (plain and -race) so that later checks only relink what changed.
set -e
ROOT=$(cd "$(dirname "$0")" && pwd)
export GOFLAGS=-mod=mod GOPROXY=off GOSUMDB=off GOTOOLCHAIN=local CGO_ENABLED=1
cd "$ROOT/harness"
mkdir -p "$ROOT/.bin" "$ROOT/out" "$ROOT/evidence" "$ROOT/replays"
go test -c -tags verif -o "$ROOT/.bin/warm.test" ./props
go test -c -tags verif -race -o "$ROOT/.bin/warm-race.test" ./props
rm -f "$ROOT/.bin/warm.test" "$ROOT/.bin/warm-race.test"
echo setup ok
