#!/bin/bash
# ./sweep.sh [quick|thorough] [ids...]   — runs the registered checks one after another and prints one line each.
# VERIF_SEED is passed through. Not registered in MANIFEST.json; a convenience for silence sweeps.
TIER=${1:-quick}; shift
ROOT=$(cd "$(dirname "$0")" && pwd)
IDS=${*:-$(jq -r '.checks[].property_id' "$ROOT/MANIFEST.json")}
cd "$ROOT" || exit 2
bad=0
for id in $IDS; do
  t0=$(date +%s)
  out=$(./check "$id" "$TIER" 2>&1); rc=$?
  t1=$(date +%s)
  k=$(echo "$out" | grep -c '^KNOWN-FINDING')
  v=$(echo "$out" | grep -c '^VIOLATION')
  s=$(echo "$out" | grep '^SUMMARY' | sed 's/^SUMMARY property=[^ ]* //')
  echo "$id rc=$rc viol=$v known=$k $((t1-t0))s  $s"
  if [ $rc -ne 0 ]; then bad=1; echo "$out" | grep -E '^(VIOLATION|INCONCLUSIVE|BROKEN)' | head -5 | sed 's/^/    /'; fi
done
exit $bad
