package props

import (
	"bufio"
	"encoding/json"
	"fmt"
	"os"
	"path/filepath"
	"sort"
	"strconv"
	"strings"
	"sync"
	"testing"
	"time"

	pslog "github.com/elementsproject/peerswap/log"
	"github.com/elementsproject/peerswap/swap"
	"verifharness/sim"
)

// verifRoot is /verif unless VERIF_ROOT is set (vp run snapshots).
func verifRoot() string {
	if r := os.Getenv("VERIF_ROOT"); r != "" {
		return r
	}
	return "/verif"
}

// outRoot is where evidence and replay files go: the verif root, unless VERIF_OUTROOT redirects them
// (runs against a scratch copy of the repository with a seeded change must not overwrite real evidence).
func outRoot() string {
	if r := os.Getenv("VERIF_OUTROOT"); r != "" {
		return r
	}
	return verifRoot()
}

type quietLogger struct {
	mu   sync.Mutex
	ring []string
}

func (q *quietLogger) add(s string) {
	q.mu.Lock()
	if len(q.ring) > 400 {
		q.ring = q.ring[200:]
	}
	q.ring = append(q.ring, s)
	q.mu.Unlock()
}
func (q *quietLogger) Infof(f string, v ...any)  { q.add(fmt.Sprintf("[I] "+f, v...)) }
func (q *quietLogger) Debugf(f string, v ...any) { q.add(fmt.Sprintf("[D] "+f, v...)) }

var psLogger = &quietLogger{}

func init() {
	pslog.SetLogger(psLogger)
	// deterministic-world timing defaults; individual tests override
	swap.VerifSetSkipBackoff(true)
	swap.VerifSetPayTiming(60*time.Millisecond, 500*time.Microsecond)
	swap.VerifSetRetryDur(time.Hour)
}

// Finding is a line of known_findings.jsonl.
type Finding struct {
	Property  string `json:"property"`
	Signature string `json:"signature"`
	What      string `json:"what"`
	Fixed     string `json:"fixed,omitempty"`
}

func loadFindings() []Finding {
	f, err := os.Open(filepath.Join(verifRoot(), "known_findings.jsonl"))
	if err != nil {
		return nil
	}
	defer f.Close()
	var r []Finding
	sc := bufio.NewScanner(f)
	sc.Buffer(make([]byte, 1<<20), 1<<20)
	for sc.Scan() {
		line := strings.TrimSpace(sc.Text())
		if line == "" || strings.HasPrefix(line, "#") || strings.HasPrefix(line, "fixed:") {
			continue
		}
		var fd Finding
		if json.Unmarshal([]byte(line), &fd) == nil && fd.Fixed == "" {
			r = append(r, fd)
		}
	}
	return r
}

// Run collects what one check execution observed.
type Run struct {
	ID    string
	Level string
	Tier  string
	Seed  int64
	start time.Time

	mu          sync.Mutex
	Evaluations int
	distinct    map[string]int
	Rule        string
	Samples     []any
	Extra       map[string]any
	Assumptions []string
	Violations  []sim.Violation
	Inconcl     []string
	t           *testing.T
}

func newRun(t *testing.T, id, level string) *Run {
	seed, _ := strconv.ParseInt(os.Getenv("VERIF_SEED"), 10, 64)
	tier := os.Getenv("VERIF_TIER")
	if tier != "thorough" {
		tier = "quick"
	}
	return &Run{ID: id, Level: level, Tier: tier, Seed: seed, start: time.Now(), distinct: map[string]int{}, Extra: map[string]any{}, t: t}
}

func (r *Run) Thorough() bool { return r.Tier == "thorough" }

// N picks the case count for the tier.
func (r *Run) N(quick, thorough int) int {
	if r.Thorough() {
		return thorough
	}
	return quick
}

// Eval counts one executed case.
func (r *Run) Eval() {
	r.mu.Lock()
	r.Evaluations++
	r.mu.Unlock()
}

// Seen records a distinct non-trivial case class.
func (r *Run) Seen(key string) {
	r.mu.Lock()
	r.distinct[key]++
	r.mu.Unlock()
}

// Count increments an extra counter.
func (r *Run) Count(key string, d int) {
	r.mu.Lock()
	v, _ := r.Extra[key].(int)
	r.Extra[key] = v + d
	r.mu.Unlock()
}

// CountIn increments a counter inside a named map extra.
func (r *Run) CountIn(group, key string) {
	r.mu.Lock()
	m, _ := r.Extra[group].(map[string]int)
	if m == nil {
		m = map[string]int{}
		r.Extra[group] = m
	}
	m[key]++
	r.mu.Unlock()
}

// Sample keeps up to 6 samples.
func (r *Run) Sample(s any) {
	r.mu.Lock()
	if len(r.Samples) < 6 {
		r.Samples = append(r.Samples, s)
	}
	r.mu.Unlock()
}

// Violate records a violation (deduplicated by signature: first witness kept, count kept).
func (r *Run) Violate(rule, sig, detail string, trace []sim.Event) {
	r.mu.Lock()
	defer r.mu.Unlock()
	r.CountInLocked("violation_signatures", sig)
	for _, v := range r.Violations {
		if v.Signature == sig {
			return
		}
	}
	if len(trace) > 120 {
		trace = trace[len(trace)-120:]
	}
	r.Violations = append(r.Violations, sim.Violation{Property: r.ID, Rule: rule, Signature: sig, Detail: detail, Seed: r.Seed, Trace: trace})
}

func (r *Run) CountInLocked(group, key string) {
	m, _ := r.Extra[group].(map[string]int)
	if m == nil {
		m = map[string]int{}
		r.Extra[group] = m
	}
	m[key]++
}

// Inconclusive records a reason why the run cannot decide.
func (r *Run) Inconclusive(why string) {
	r.mu.Lock()
	r.Inconcl = append(r.Inconcl, why)
	r.mu.Unlock()
}

// Require marks the run inconclusive unless cond holds (minimum-observation thresholds).
func (r *Run) Require(cond bool, why string) {
	if !cond {
		r.Inconclusive(why)
	}
}

// Finish writes evidence, replay files and the verdict lines.
func (r *Run) Finish() {
	r.mu.Lock()
	defer r.mu.Unlock()
	root := outRoot()
	os.MkdirAll(filepath.Join(root, "evidence"), 0o755)
	os.MkdirAll(filepath.Join(root, "replays"), 0o755)
	known := loadFindings()
	unknown := 0
	var knownHit []string
	for i, v := range r.Violations {
		isKnown := false
		for _, k := range known {
			if k.Property == r.ID && k.Signature == v.Signature {
				isKnown = true
				fmt.Printf("KNOWN-FINDING: property=%s %s [%s]\n", r.ID, k.What, v.Signature)
				knownHit = append(knownHit, v.Signature)
				break
			}
		}
		if isKnown {
			continue
		}
		unknown++
		path := filepath.Join(root, "replays", fmt.Sprintf("%s-%d-%d.json", r.ID, r.Seed, i))
		b, _ := json.MarshalIndent(v, "", " ")
		os.WriteFile(path, b, 0o644)
		fmt.Printf("VIOLATION property=%s replay=%s\n", r.ID, path)
		fmt.Printf("  rule=%s signature=%s\n  %s\n", v.Rule, v.Signature, v.Detail)
	}
	// every listed finding of this property gets its line, also when this run's workload did not reproduce it
	for _, k := range known {
		if k.Property != r.ID {
			continue
		}
		hit := false
		for _, s := range knownHit {
			hit = hit || s == k.Signature
		}
		if !hit {
			fmt.Printf("KNOWN-FINDING: property=%s %s [%s] (listed; not reproduced by this run's workload)\n", r.ID, k.What, k.Signature)
		}
	}
	keys := make([]string, 0, len(r.distinct))
	for k := range r.distinct {
		keys = append(keys, k)
	}
	sort.Strings(keys)
	classes := map[string]int{}
	for i, k := range keys {
		if i >= 250 {
			break
		}
		classes[k] = r.distinct[k]
	}
	cov := map[string]any{
		"evaluations":         r.Evaluations,
		"distinct_nontrivial": len(r.distinct),
		"rule":                r.Rule,
		"samples":             r.Samples,
		"classes":             classes,
	}
	if len(keys) > 250 {
		cov["classes_truncated_to"] = 250
	}
	if len(r.Samples) == 0 {
		cov["samples"] = []any{"(no sample recorded)"}
	}
	for k, v := range r.Extra {
		cov[k] = v
	}
	if len(knownHit) > 0 {
		cov["known_findings_observed"] = knownHit
	}
	if len(r.Inconcl) > 0 {
		cov["inconclusive"] = r.Inconcl
	}
	ev := map[string]any{
		"property_id": r.ID,
		"tier":        r.Tier,
		"seed":        r.Seed,
		"level":       r.Level,
		"coverage":    cov,
		"assumptions": r.Assumptions,
		"wall_s":      time.Since(r.start).Seconds(),
		"violations":  unknown,
	}
	b, _ := json.MarshalIndent(ev, "", " ")
	if err := os.WriteFile(filepath.Join(root, "evidence", r.ID+".json"), b, 0o644); err != nil {
		fmt.Printf("BROKEN: cannot write evidence: %v\n", err)
	}
	for _, why := range r.Inconcl {
		fmt.Printf("INCONCLUSIVE property=%s %s\n", r.ID, why)
	}
	fmt.Printf("SUMMARY property=%s tier=%s seed=%d evaluations=%d distinct=%d violations=%d known=%d wall=%.1fs\n",
		r.ID, r.Tier, r.Seed, r.Evaluations, len(r.distinct), unknown, len(knownHit), time.Since(r.start).Seconds())
	if unknown > 0 {
		r.t.Fail()
	}
}

// traceOf returns the tail of a world's log for a witness.
func traceOf(w *sim.World) []sim.Event { return w.Tail(150) }

// parallelDo runs f(i) for i in [0,n) on up to p goroutines.
func parallelDo(n, p int, f func(i int)) {
	if p < 1 {
		p = 1
	}
	var wg sync.WaitGroup
	ch := make(chan int)
	for g := 0; g < p; g++ {
		wg.Add(1)
		go func() {
			defer wg.Done()
			for i := range ch {
				f(i)
			}
		}()
	}
	for i := 0; i < n; i++ {
		ch <- i
	}
	close(ch)
	wg.Wait()
}
