package props

import (
	"bytes"
	"encoding/json"
	"fmt"
	mrand "math/rand"
	"testing"
	"time"

	"github.com/btcsuite/btcd/btcec/v2"
	"github.com/btcsuite/btcd/btcutil"
	"github.com/elementsproject/peerswap/swap"
	"github.com/elementsproject/peerswap/txwatcher"

	"verifharness/ref"
	"verifharness/sim"
)

// c01Deviations lists what the malicious maker does wrong in one case ("" = nothing).
var c01Deviations = []string{
	"none", "none-swap-at-index-1", "none-extra-outputs", "none-announce-after-confirm", "none-duplicate-delivery",
	"amount-1", "amount+1", "amount-x1000", "amount-0",
	"keys-swapped", "foreign-taker-key", "foreign-maker-key",
	"script-other-hash", "csv-other", "csv-plus-1", "script-witness-v1", "script-witness-v16", "script-p2sh-wrapped",
	"dup-first-wrong-second-right", "dup-first-right-second-wrong",
	"unconfirmed", "one-conf", "reorged-out",
	"txid-unrelated", "txid-unknown",
	"invoice+1msat", "invoice-1msat", "invoice-x1000", "invoice-other-hash", "invoice-cltv-over",
	"second-announcement-bad-after-good", "second-announcement-good-after-bad", "announce-before-agreement",
	"no-swap-output",
}

var c01LiquidOnly = []string{
	"asset-attacker-consistent", "asset-forged-disclosure", "asset-explicit-other", "explicit-policy-asset",
	"blindkey-wrong", "blindkey-absent", "blinded-to-other-key",
	"explicit-amount-1", "explicit-amount+1", "explicit-amount-tiny",
}

type c01Case struct {
	chain string
	role  string // out-sender | in-receiver
	dev   string
}

// c01Expect is what was negotiated, as ground truth for the monitor.
type c01Expect struct {
	chain        string
	takerPub     []byte
	makerPub     []byte
	csv          uint32
	onchainSat   uint64
	claimMsat    uint64
	scid         string
	announcedTx  string // first announcement the node accepted
	gtByTx       map[string][]gtOut
	payCrossings int
	goodPays     int
}

func runC01Case(r *Run, seed int64, c c01Case) {
	w := sim.NewWorld(seed)
	defer w.Close()
	rng := mrand.New(mrand.NewSource(seed))
	node := w.AddNode("alice", sim.DefaultNodeConfig())
	mal := w.AddPeer("mallory")
	scid := "100x1x0"
	w.LN.OpenChannel(scid, node.ID, mal.ID, 5_000_000_000, 5_000_000_000)
	if err := node.Start(); err != nil {
		r.Inconclusive("node start: " + err.Error())
		return
	}
	chain := w.BTC
	if c.chain == "lbtc" {
		chain = w.LBTC
	}
	amount := uint64(500_000 + rng.Intn(1_000_000))
	makerKey, _ := btcec.NewPrivateKey()
	blindKey, _ := btcec.NewPrivateKey()
	exp := &c01Expect{chain: c.chain, makerPub: makerKey.PubKey().SerializeCompressed(), csv: ref.CSV(c.chain, 7), scid: scid, gtByTx: map[string][]gtOut{}}
	var swapID *swap.SwapId
	var premium int64
	asset, network := "", ""
	if c.chain == "lbtc" {
		asset = hx(sim.PolicyAsset())
	} else {
		network = sim.BtcParams.Name
	}

	// ---- online monitor -------------------------------------------------------------
	var validatorCalled bool
	w.Subscribe(func(e *sim.Event) {
		if e.Node != "alice" {
			return
		}
		switch e.Kind {
		case "validate":
			validatorCalled = true
		case "ln.pay.try":
			p := e.P.(sim.EvPay)
			if p.Op != "rebalance" {
				return
			}
			exp.payCrossings++
			var why []string
			inv := w.LN.InvoiceLocked(p.Payreq)
			if exp.takerPub == nil {
				why = append(why, "no negotiation finished")
			}
			tx := chain.TxLocked(exp.announcedTx)
			if tx == nil {
				why = append(why, "announced tx unknown to the chain")
			} else if tx.MaxDepth < ref.MinConfs(c.chain) {
				why = append(why, fmt.Sprintf("announced tx never had depth %d (max %d)", ref.MinConfs(c.chain), tx.MaxDepth))
			}
			if inv == nil {
				why = append(why, "unknown invoice")
			} else {
				if inv.Msat != exp.claimMsat {
					why = append(why, fmt.Sprintf("invoice amount %d != negotiated claim amount %d msat", inv.Msat, exp.claimMsat))
				}
				okOut := false
				want := refPk(exp.takerPub, exp.makerPub, unhex(inv.Hash), exp.csv)
				for _, o := range exp.gtByTx[exp.announcedTx] {
					if bytes.Equal(o.Script, want) && o.Value == exp.onchainSat && (c.chain == "btc" || bytes.Equal(o.Asset, policyAssetID())) {
						okOut = true
					}
				}
				if !okOut {
					why = append(why, "announced tx has no output paying the negotiated amount in the policy asset to the script of (maker, taker, invoice hash, csv)")
				}
			}
			if sim.NormScid(p.Scid) != sim.NormScid(exp.scid) {
				why = append(why, "payment over another channel: "+p.Scid)
			}
			if len(why) == 0 {
				exp.goodPays++
				return
			}
			r.Violate("pay-only-validated", fmt.Sprintf("C01|paid|%s|%s|%s", c.chain, c.role, c.dev),
				fmt.Sprintf("taker paid the claim invoice although: %v (case %+v seed %d)", why, c, seed), nil)
		}
	})

	// ---- negotiation ----------------------------------------------------------------
	if c.role == "out-sender" {
		sm, err, pt := node.SwapOut(mal.ID, c.chain, scid, amount, 100000)
		if err != nil || pt != "" {
			r.Inconclusive(fmt.Sprintf("swapout failed: %v %s", err, pt))
			return
		}
		swapID = sm.SwapId
		w.Run()
		m := mal.Take(ref.MsgSwapOutRequest)
		if m == nil {
			r.Inconclusive("no swap_out_request")
			return
		}
		var req swap.SwapOutRequestMessage
		json.Unmarshal(m.Payload, &req)
		exp.takerPub = unhex(req.Pubkey)
		premium = int64(rng.Intn(2000))
		exp.onchainSat = amount
		exp.claimMsat = uint64(int64(amount)+premium) * 1000
		feeInv := w.LN.NewInvoice(mal.ID, 300_000, "", swapID.String(), "fee", 2, 600, 0)
		if c.dev == "announce-before-agreement" {
			// handled below: the announcement goes out first
		} else {
			mal.Send("alice", ref.MsgSwapOutAgreement, &swap.SwapOutAgreementMessage{ProtocolVersion: 7, SwapId: swapID, Pubkey: hx(exp.makerPub), Payreq: feeInv.Payreq, Premium: premium})
			w.Run()
		}
		if c.dev == "announce-before-agreement" {
			// send the announcement first, then the agreement
			c01Announce(r, w, c, rng, chain, mal, exp, swapID, makerKey, blindKey, true)
			mal.Send("alice", ref.MsgSwapOutAgreement, &swap.SwapOutAgreementMessage{ProtocolVersion: 7, SwapId: swapID, Pubkey: hx(exp.makerPub), Payreq: feeInv.Payreq, Premium: premium})
			w.Run()
		}
	} else {
		swapID = swap.NewSwapId()
		mal.Send("alice", ref.MsgSwapInRequest, &swap.SwapInRequestMessage{ProtocolVersion: 7, SwapId: swapID, Network: network, Asset: asset, Scid: scid, Amount: amount, Pubkey: hx(exp.makerPub), PremiumLimit: 1_000_000})
		w.Run()
		m := mal.Take(ref.MsgSwapInAgreement)
		if m == nil {
			r.Inconclusive("no swap_in_agreement")
			return
		}
		var ag swap.SwapInAgreementMessage
		json.Unmarshal(m.Payload, &ag)
		exp.takerPub = unhex(ag.Pubkey)
		premium = ag.Premium
		exp.onchainSat = uint64(int64(amount) + premium)
		exp.claimMsat = amount * 1000
	}
	if c.dev != "announce-before-agreement" {
		c01Announce(r, w, c, rng, chain, mal, exp, swapID, makerKey, blindKey, false)
	}
	// let the chain advance well past the required depth and deliver everything
	blocks := 5
	if c.dev == "one-conf" {
		blocks = 1
	}
	for i := 0; i < blocks; i++ {
		chain.Mine(1)
		w.Run()
	}
	if c.dev == "none-duplicate-delivery" {
		w.Run()
	}
	r.Eval()
	paid := exp.payCrossings > 0
	r.Seen(fmt.Sprintf("%s/%s/%s/validator=%v/paid=%v", c.chain, c.role, c.dev, validatorCalled, paid))
	r.CountIn("pay_decisions", fmt.Sprintf("paid=%v", paid))
	if validatorCalled {
		r.Count("validator_invocations_cases", 1)
	}
	if len(c.dev) >= 4 && c.dev[:4] == "none" || c.dev == "explicit-policy-asset" {
		// honest-equivalent cases must lead to exactly the good payment (sanity of the workload)
		if exp.goodPays == 0 {
			r.CountIn("honest_case_not_paid", c.chain+"/"+c.role+"/"+c.dev)
		} else {
			r.Count("honest_paid", 1)
		}
	}
	r.Sample(map[string]any{"chain": c.chain, "role": c.role, "deviation": c.dev, "validator_invoked": validatorCalled, "paid": paid, "amount_sat": amount, "premium": premium})
}

// c01Announce builds the (possibly malicious) opening transaction, broadcasts it, confirms it as the
// deviation demands and sends opening_tx_broadcasted.
func c01Announce(r *Run, w *sim.World, c c01Case, rng *mrand.Rand, chain *sim.Chain, mal *sim.Peer, exp *c01Expect, swapID *swap.SwapId, makerKey, blindKey *btcec.PrivateKey, early bool) {
	liquid := c.chain == "lbtc"
	cltv := int64(503)
	expiry := uint64(86400)
	if liquid {
		cltv, expiry = 29, 3600
	}
	invMsat := exp.claimMsat
	switch c.dev {
	case "invoice+1msat":
		invMsat++
	case "invoice-1msat":
		invMsat--
	case "invoice-x1000":
		invMsat *= 1000
	case "invoice-cltv-over":
		if liquid {
			cltv = 30
		} else {
			cltv = 505
		}
	}
	inv := w.LN.NewInvoice(mal.ID, invMsat, "", swapID.String(), "claim", 1, expiry, cltv)
	scriptHash := unhex(inv.Hash)
	payreq := inv.Payreq
	if c.dev == "invoice-other-hash" || c.dev == "script-other-hash" {
		other := w.LN.NewInvoice(mal.ID, invMsat, "", swapID.String(), "claim", 1, expiry, cltv)
		if c.dev == "invoice-other-hash" {
			payreq = other.Payreq // script locks inv.Hash, invoice announced has another hash
		} else {
			scriptHash = unhex(other.Hash)
		}
	}
	taker, maker := exp.takerPub, exp.makerPub
	if taker == nil { // announcement before the agreement in swap-out: taker key known from the request
		taker = randBytes(33)
	}
	csv := exp.csv
	value := exp.onchainSat
	switch c.dev {
	case "amount-1":
		value--
	case "amount+1":
		value++
	case "amount-x1000":
		value *= 1000
	case "amount-0":
		value = 0
	case "explicit-amount-1":
		value--
	case "explicit-amount+1":
		value++
	case "explicit-amount-tiny":
		value = 1
	case "keys-swapped":
		taker, maker = maker, taker
	case "foreign-taker-key":
		k, _ := btcec.NewPrivateKey()
		taker = k.PubKey().SerializeCompressed()
	case "foreign-maker-key":
		k, _ := btcec.NewPrivateKey()
		maker = k.PubKey().SerializeCompressed()
	case "csv-other":
		if liquid {
			csv = 1008
		} else {
			csv = 10080
		}
		if rng.Intn(2) == 0 {
			csv = 60
		}
	case "csv-plus-1":
		csv++
	}
	good := outSpec{Script: refPk(taker, maker, scriptHash, csv), Value: value, BlindPub: blindKey.PubKey().SerializeCompressed()}
	switch c.dev {
	case "script-witness-v1":
		// the same 32-byte program under another witness version: not the swap's P2WSH output
		good.Script = append([]byte{0x51}, good.Script[1:]...)
	case "script-witness-v16":
		good.Script = append([]byte{0x60}, good.Script[1:]...)
	case "script-p2sh-wrapped":
		// P2SH wrapping the witness program (OP_HASH160 <hash160(program)> OP_EQUAL)
		h := btcutil.Hash160(good.Script)
		good.Script = append(append([]byte{0xa9, 0x14}, h...), 0x87)
	}
	change := func() outSpec {
		k, _ := btcec.NewPrivateKey()
		return outSpec{Script: p2wpkhScript(), Value: uint64(10_000 + rng.Intn(100_000)), BlindPub: k.PubKey().SerializeCompressed()}
	}
	announceBlind := hx(blindKey.Serialize())
	switch c.dev {
	case "asset-attacker-consistent":
		good.Asset = attackerAsset
	case "asset-forged-disclosure":
		good.Asset = attackerAsset
		good.RewindAsset = policyAssetID()
	case "asset-explicit-other":
		good.Asset = attackerAsset
		good.Explicit = true
	case "explicit-policy-asset", "explicit-amount-1", "explicit-amount+1", "explicit-amount-tiny":
		good.Explicit = true
	case "blindkey-wrong":
		k, _ := btcec.NewPrivateKey()
		announceBlind = hx(k.Serialize())
	case "blindkey-absent":
		announceBlind = ""
	case "blinded-to-other-key":
		k, _ := btcec.NewPrivateKey()
		good.BlindPub = k.PubKey().SerializeCompressed()
	}
	outs := []outSpec{good, change()}
	scriptOut := uint32(0)
	switch c.dev {
	case "none-swap-at-index-1":
		outs = []outSpec{change(), good}
		scriptOut = 1
	case "none-extra-outputs":
		outs = []outSpec{change(), change(), good, change()}
		scriptOut = 2
	case "dup-first-wrong-second-right":
		bad := good
		bad.Value = good.Value + 7
		outs = []outSpec{bad, good, change()}
		scriptOut = 1
	case "dup-first-right-second-wrong":
		bad := good
		bad.Value = good.Value + 7
		outs = []outSpec{good, bad, change()}
	case "no-swap-output":
		outs = []outSpec{change(), change()}
	}
	build := func(o []outSpec) (string, []gtOut) {
		if liquid {
			h, gt, err := buildLiquidTx(2, o)
			if err != nil {
				r.Inconclusive("cannot build liquid tx: " + err.Error())
			}
			return h, gt
		}
		return buildBtcTx(1+rng.Intn(3), o)
	}
	txHex, gt := build(outs)
	ct, err := chain.AddWalletTx(txHex, "mallory", "open")
	if err != nil {
		r.Inconclusive("chain rejected adversary tx: " + err.Error())
		return
	}
	exp.gtByTx[ct.ID] = gt
	announceID := ct.ID
	switch c.dev {
	case "txid-unrelated":
		oh, ogt := build([]outSpec{change(), change()})
		o, _ := chain.AddWalletTx(oh, "mallory", "raw")
		exp.gtByTx[o.ID] = ogt
		announceID = o.ID
	case "txid-unknown":
		announceID = hx(randBytes(32))
	}
	if c.dev == "none-announce-after-confirm" {
		chain.Mine(4)
	}
	msg := &swap.OpeningTxBroadcastedMessage{SwapId: swapID, Payreq: payreq, TxId: announceID, ScriptOut: scriptOut}
	if liquid {
		msg.BlindingKey = announceBlind
	}
	send := func(m *swap.OpeningTxBroadcastedMessage) {
		mal.Send("alice", ref.MsgOpeningTxBroadcast, m)
		w.Run()
	}
	switch c.dev {
	case "second-announcement-bad-after-good":
		exp.announcedTx = announceID
		send(msg)
		badHex, bgt := build([]outSpec{{Script: good.Script, Value: 1, BlindPub: good.BlindPub}, change()})
		bt, _ := chain.AddWalletTx(badHex, "mallory", "open")
		exp.gtByTx[bt.ID] = bgt
		m2 := *msg
		m2.TxId = bt.ID
		send(&m2)
	case "second-announcement-good-after-bad":
		badHex, bgt := build([]outSpec{{Script: good.Script, Value: 1, BlindPub: good.BlindPub}, change()})
		bt, _ := chain.AddWalletTx(badHex, "mallory", "open")
		exp.gtByTx[bt.ID] = bgt
		m2 := *msg
		m2.TxId = bt.ID
		exp.announcedTx = bt.ID
		send(&m2)
		send(msg)
	case "none-duplicate-delivery":
		exp.announcedTx = announceID
		send(msg)
		send(msg)
		send(msg)
	default:
		if !early || exp.announcedTx == "" {
			exp.announcedTx = announceID
		}
		send(msg)
	}
	switch c.dev {
	case "unconfirmed":
		chain.Unconfirmable(ct.ID)
	case "reorged-out":
		chain.Mine(1)
		w.Run()
		chain.Reorg(1, 0, false)
		chain.Unconfirmable(ct.ID)
		w.Run()
	}
}

func TestC01(t *testing.T) {
	r := newRun(t, "C01", "exploration")
	defer r.Finish()
	r.Rule = "one history per (chain, taker role, deviation of the malicious maker, repetition): real SwapService + real BitcoinOnChain/LiquidOnChain validators against a scripted maker; online oracle at every RebalancePayment crossing evaluates depth, output (script from the reference builder, committed value and asset known to the adversary), invoice amount/hash and channel against ground truth. distinct = (chain, role, deviation, validator invoked, paid)"
	r.Rule += " In addition whole-node worlds with the REAL confirmation watchers (rpc for Bitcoin/Liquid, lnd's for Bitcoin, Electrum for Liquid): an honest opening tx gets one confirmation, its block is reorganised away (below the required depth), the tx stays out for a while or for good; and: the taker is killed inside its payment call, the confirming blocks are reorganised away, the taker is restarted. Oracle: ground-truth depth of the announced tx on the best chain at every claim-payment crossing >= 3 / 2."
	r.Assumptions = []string{"the reference watcher reports confirmations only when true (the real watchers are C20's subject)", "Lightning node decodes invoices faithfully (simulated ledger)"}
	var cases []c01Case
	for _, ch := range []string{"btc", "lbtc"} {
		for _, role := range []string{"out-sender", "in-receiver"} {
			devs := append([]string{}, c01Deviations...)
			if ch == "lbtc" {
				devs = append(devs, c01LiquidOnly...)
			}
			for _, d := range devs {
				if d == "announce-before-agreement" && role == "in-receiver" {
					continue
				}
				cases = append(cases, c01Case{ch, role, d})
			}
		}
	}
	reps := r.N(2, 40)
	total := len(cases) * reps
	parallelDo(total, 12, func(i int) {
		c := cases[i%len(cases)]
		runC01Case(r, r.Seed*1_000_003+int64(i)+1, c)
	})
	// the depth clause with the real watchers in the loop (reorganisations below the required depth)
	txwatcher.VerifSetPolling(time.Millisecond, time.Millisecond)
	rc := c01RealCases()
	parallelDo(len(rc)*r.N(1, 6), 8, func(i int) { runC01Real(r, r.Seed*1_000_033+int64(i)+1, rc[i%len(rc)]) })
	rp, _ := r.Extra["real_watcher_histories_paid"].(int)
	r.Require(rp >= len(rc)/3, fmt.Sprintf("real-watcher histories paid only %d times: the real watchers do not reach the payment decision", rp))
	hp, _ := r.Extra["honest_paid"].(int)
	r.Require(hp >= 4*reps, fmt.Sprintf("honest cases paid only %d times: workload does not reach the payment decision", hp))
	vc, _ := r.Extra["validator_invocations_cases"].(int)
	r.Require(vc >= total/3, fmt.Sprintf("validator invoked in only %d of %d cases", vc, total))
}
