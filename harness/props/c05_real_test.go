package props

import (
	"encoding/json"
	"fmt"
	mrand "math/rand"
	"sync"
	"sync/atomic"
	"time"

	"github.com/btcsuite/btcd/btcec/v2"
	"github.com/elementsproject/peerswap/swap"

	"verifharness/ref"
	"verifharness/sim"
)

// c05Real: a Bitcoin swap-out taker whose confirmation watcher is the REAL one (rpc watcher, as CLN nodes use, or
// lnd's), against a maker that broadcasts the opening transaction as soon as it has the taker's key and then keeps
// the taker waiting: it holds the fee payment for `held` blocks (the taker's start anchor is read when that payment
// returns) and announces `annDelay` blocks after that.
type c05Real struct {
	watcher  string // rpc | lnd
	held     int    // blocks between the opening tx's confirmation and the taker's start
	annDelay int    // blocks between the taker's start and the announcement
	cltv     int64
	fail     int  // the first n claim payments fail ...
	mine     int  // ... and this many blocks arrive before the next attempt
	restart  bool // the taker is restarted after the announcement, before the confirmation is reported
	infoFail bool // lnd: the height lookup that follows the confirmation event fails once
}

func runC05Real(r *Run, seed int64, c c05Real) {
	rng := mrand.New(mrand.NewSource(seed))
	_ = rng
	w := sim.NewWorld(seed)
	defer w.Close()
	node := w.AddNode("alice", sim.DefaultNodeConfig())
	mal := w.AddPeer("mallory")
	scid := "100x1x0"
	w.LN.OpenChannel(scid, node.ID, mal.ID, 5_000_000_000, 5_000_000_000)
	rn := &realNode{n: node, useLnd: c.watcher == "lnd"}
	defer rn.stop()
	if err := rn.start(false); err != nil {
		r.Inconclusive("start: " + err.Error())
		return
	}
	chain := w.BTC
	var confSeen, infoFailed atomic.Bool
	armInfoFail := func() {
		if !c.infoFail || rn.lndChain == nil {
			return
		}
		rn.lndChain.Hook = func(call string) error {
			switch call {
			case "confevent":
				confSeen.Store(true)
			case "getinfo":
				if confSeen.Load() && infoFailed.CompareAndSwap(false, true) {
					return fmt.Errorf("injected: lnd GetInfo unavailable")
				}
			}
			return nil
		}
	}
	armInfoFail()
	var mu sync.Mutex
	var attempts []sim.EvPay
	var told []uint32
	var lastHeight uint32
	var failed atomic.Int32
	var blocksDue atomic.Int32
	var confirmed atomic.Bool
	w.LN.Script = func(payer string, inv *sim.Invoice, n int) sim.Outcome {
		if inv.Type == 1 && int(failed.Load()) < c.fail {
			failed.Add(1)
			blocksDue.Store(int32(c.mine))
			return sim.OutFail
		}
		return sim.OutSettle
	}
	node.OnCrossing = func(k int64, op string) {
		// blocks that arrived during the pause after a failed attempt are there at the next height lookup
		if op == "btc.height" && confirmed.Load() {
			if n := blocksDue.Swap(0); n > 0 {
				chain.Mine(int(n))
			}
		}
	}
	amount := uint64(500_000)
	sm, err, _ := node.SwapOut(mal.ID, "btc", scid, amount, 100000)
	if err != nil || sm == nil {
		r.Inconclusive("swap-out not started")
		return
	}
	id := sm.SwapId
	w.Run()
	m := mal.Take(ref.MsgSwapOutRequest)
	if m == nil {
		r.Inconclusive("no request")
		return
	}
	var req swap.SwapOutRequestMessage
	json.Unmarshal(m.Payload, &req)
	takerPub := unhex(req.Pubkey)
	makerKey, _ := btcec.NewPrivateKey()
	makerPub := makerKey.PubKey().SerializeCompressed()
	inv := w.LN.NewInvoice(mal.ID, (amount+7)*1000, "", id.String(), "claim", 1, 86400, c.cltv)
	pk := refPk(takerPub, makerPub, unhex(inv.Hash), ref.CSV("btc", 7))
	h, _ := buildBtcTx(1, []outSpec{{Script: pk, Value: amount}})
	tx, err := chain.AddWalletTx(h, "mallory", "open")
	if err != nil {
		r.Inconclusive("opening tx: " + err.Error())
		return
	}
	chain.Mine(1)
	hc := int64(chain.Tx(tx.ID).Height)
	// the fee payment is held while blocks pass
	if c.held > 1 {
		chain.Mine(c.held - 1)
	}
	w.Subscribe(func(e *sim.Event) {
		if e.Node != "alice" {
			return
		}
		switch e.Kind {
		case "watch.height":
			if x := e.P.(sim.EvWatch); x.Chain == "btc" && x.Err == "" {
				mu.Lock()
				lastHeight = x.Height
				mu.Unlock()
			}
		case "ln.pay.try":
			if p := e.P.(sim.EvPay); p.Op == "rebalance" {
				mu.Lock()
				attempts = append(attempts, p)
				told = append(told, lastHeight) // the tip the node was last told, at the moment of the attempt
				mu.Unlock()
			}
		}
	})
	fee := w.LN.NewInvoice(mal.ID, 300_000, "", id.String(), "fee", 2, 600, 0)
	mal.Send("alice", ref.MsgSwapOutAgreement, &swap.SwapOutAgreementMessage{ProtocolVersion: 7, SwapId: id, Pubkey: hx(makerPub), Payreq: fee.Payreq, Premium: 7})
	w.Run()
	rec := node.StoredSwap(id.String())
	if rec == nil || rec.Current != swap.State_SwapOutSender_AwaitTxBroadcastedMessage {
		r.Inconclusive("taker did not reach the wait for the announcement")
		return
	}
	start := int64(rec.Data.StartingBlockHeight)
	if c.annDelay > 0 {
		chain.Mine(c.annDelay)
	}
	confirmed.Store(true)
	mal.Send("alice", ref.MsgOpeningTxBroadcast, &swap.OpeningTxBroadcastedMessage{SwapId: id, Payreq: inv.Payreq, TxId: tx.ID})
	w.Run()
	if c.restart {
		if err := rn.start(false); err != nil {
			r.Inconclusive("restart: " + err.Error())
			return
		}
		armInfoFail()
		w.Run()
	}
	// no verdict from elapsed time: wait while the swap sits in the confirmation wait and the world is doing something
	state := func() swap.StateType {
		if s := node.StoredSwap(id.String()); s != nil {
			return s.Current
		}
		return ""
	}
	lastN, quietSince, t0 := len(w.Events()), time.Now(), time.Now()
	for time.Since(t0) < 60*time.Second {
		time.Sleep(2 * time.Millisecond)
		w.Run()
		if n := len(w.Events()); n != lastN || w.Blocked() > 0 {
			lastN, quietSince = n, time.Now()
			continue
		}
		quiet := 40 * time.Millisecond
		if state() == swap.State_SwapOutSender_AwaitTxConfirmation {
			quiet = 400 * time.Millisecond // the watcher may simply not have had its turn yet
		}
		if time.Since(quietSince) > quiet {
			break
		}
	}
	final := state()
	mu.Lock()
	atts := append([]sim.EvPay(nil), attempts...)
	toldAt := append([]uint32(nil), told...)
	mu.Unlock()
	r.Eval()
	r.Count("real_watcher_histories", 1)
	r.Count("real_watcher_attempts_judged", len(atts))
	r.Seen(fmt.Sprintf("real-%s-watcher/held=%d/ann=%d/cltv=%d/fail=%d/restart=%v/attempts=%d/final=%s", c.watcher, c.held, c.annDelay, c.cltv, c.fail, c.restart, len(atts), final))
	rel := hc - start
	for i, p := range atts {
		now := max(int64(p.BtcTip), int64(toldAt[i]))
		invp := w.LN.InvoiceLocked(p.Payreq)
		if invp == nil {
			continue
		}
		cd, ce, ll, le, _, _ := builderLimits(invp.Cltv, p.MaxCLTV, invp.Payee, p.Scid, invp.Msat)
		be, perm, perr, delta := "cln", cd, ce, int64(1)
		if c.watcher == "lnd" {
			be, perm, perr, delta = "lnd", ll, le, 3
		}
		if perr != nil {
			continue
		}
		if now+perm < hc+1008 {
			continue
		}
		slack := now + perm - (hc + 1008)
		// what the unchanged tree permits: the state machine pays while now-start <= 504 and accepts f <= 504, so
		// slack <= delta-(h_conf-start); lnd's watcher additionally reports a confirmation only while
		// now-h_conf+1 < 504, which bounds the first attempt by delta-2
		which, bound, btxt := "any-attempt", delta-rel, fmt.Sprintf("slack<=%d-(h_conf-start)", delta)
		if c.watcher == "lnd" {
			which = "retry"
			if i == 0 {
				which = "first-attempt"
				if delta-2 < bound {
					bound, btxt = delta-2, fmt.Sprintf("slack<=%d", delta-2)
				}
			}
		}
		if slack > bound {
			btxt = fmt.Sprintf("slack=%d>bound=%d", slack, bound)
		}
		r.CountIn("c05_real_slack_histogram", fmt.Sprintf("%s/%s/rel=%d/slack=%d", c.watcher, which, rel, slack))
		r.Violate("htlc-before-csv", fmt.Sprintf("C05|htlc-can-outlive-csv|real-%s-watcher|%s|out-sender|%s|%s", c.watcher, be, which, btxt),
			fmt.Sprintf("attempt %d at height %d (start %d, now-start %d), invoice final cltv %d, %s permits an HTLC expiry delta of %d => settleable until %d; opening tx confirmed at %d (start%+d) => CSV refund confirmable from %d; case %+v seed %d",
				i+1, now, start, now-start, invp.Cltv, be, perm, now+perm, hc, rel, hc+1008, c, seed), nil)
	}
}

// c05RealCases: identical for every seed except for the sampled part.
func c05RealCases(r *Run) []c05Real {
	var cases []c05Real
	for _, wt := range []string{"rpc", "lnd"} {
		// the corners: confirmation 1..3 blocks before the start, announcement at the end of the window
		for _, held := range []int{1, 2, 3} {
			for _, ann := range []int{495, 499, 500, 501} {
				cases = append(cases, c05Real{watcher: wt, held: held, annDelay: ann, cltv: 504})
			}
		}
		// a long-held fee payment
		for _, held := range []int{100, 500, 503, 600} {
			for _, ann := range []int{0, 100, 400} {
				cases = append(cases, c05Real{watcher: wt, held: held, annDelay: ann, cltv: 503})
			}
		}
		cases = append(cases, c05Real{watcher: wt, held: 500, annDelay: 0, cltv: 504, fail: 1, mine: 300})
		cases = append(cases, c05Real{watcher: wt, held: 500, annDelay: 100, cltv: 504, restart: true})
		cases = append(cases, c05Real{watcher: wt, held: 1, annDelay: 100, cltv: 144, fail: 1, mine: 100})
	}
	for _, held := range []int{3, 500, 600, 900} {
		for _, ann := range []int{0, 2, 100} {
			cases = append(cases, c05Real{watcher: "lnd", held: held, annDelay: ann, cltv: 144, infoFail: true})
		}
	}
	rng := mrand.New(mrand.NewSource(r.Seed + 505))
	for i := 0; i < r.N(16, 600); i++ {
		c := c05Real{watcher: pick(rng, "rpc", "lnd"), held: pick(rng, 1, 1, 2, 3, 10, 100, 400, 498, 500, 502, 503, 504, 505, 600, 1100),
			annDelay: pick(rng, 0, 0, 1, 2, 3, 100, 400, 499, 500, 501, 502, 503, 504), cltv: pick(rng, int64(503), 504, 144, 9, 502, 505),
			restart: rng.Intn(5) == 0}
		if rng.Intn(3) == 0 {
			c.fail, c.mine = pick(rng, 1, 1, 2), pick(rng, 0, 1, 100, 300, 500)
		}
		cases = append(cases, c)
	}
	return cases
}
