package props

import (
	"bytes"
	"encoding/hex"
	"encoding/json"
	"errors"
	"fmt"
	"math"
	mrand "math/rand"
	"os"
	"path/filepath"
	"reflect"
	"sort"
	"strings"
	"sync"
	"sync/atomic"
	"testing"
	"time"
	"unicode/utf8"

	"github.com/elementsproject/peerswap/swap"
	"go.etcd.io/bbolt"

	"verifharness/sim"
)

// ---------------------------------------------------------------------------
// C14  Persisted swap records reload to identical swap data
//
// Sources of records:
//  (i)  every store write of real two-node world runs (all four roles, happy, cancel, coop and
//       csv paths). For each write the monitor has the committed bytes and a deep snapshot of
//       the in-memory machine taken inside the write crossing (same goroutine, after the real
//       UpdateData returned).
//  (ii) generated SwapStateMachine values (reflection driven: every exported field gets a value
//       class) written through the real store.
// Oracles: (1) field-by-field equality of the value a fresh store returns from the reopened
// file with the in-memory value; (2) storing the reloaded value again yields identical bytes.
// ---------------------------------------------------------------------------

func c14OpenDB(path string) (*bbolt.DB, error) {
	return bbolt.Open(path, 0o600, &bbolt.Options{NoSync: true, Timeout: 5 * time.Second})
}

var c14SwapsBucket = []byte("swaps")

// ---- harvesting real records ------------------------------------------------

type c14Write struct {
	Scenario string
	Node     string
	SwapID   string
	Seq      int // index of this write among the writes of (node, swap)
	State    string
	Bytes    []byte
	Mem      *swap.SwapStateMachine // snapshot of the in-memory machine at write time (nil: not found)
}

type c14Scenario struct {
	Name, Typ, Chain   string
	FaultNode, FaultOp string
	CsvAfterCancel     bool // crash the taker, deliver its cancel, mine past the csv
	InvalidCoop        bool // the taker sends a coop_close that fails validation while the maker waits for the payment
	Mine               int
	Advance            time.Duration
	Hint               string // free-text message of the injected cancel / coop_close ("" = a short ASCII one)
}

// long free-text hints whose 255th..257th bytes fall inside a multi-byte character (peers choose these freely)
var c14LongHints = []string{
	strings.Repeat("あ", 100),       // 3-byte characters, 300 bytes
	"x" + strings.Repeat("é", 200), // 2-byte characters at odd offsets, 401 bytes
	"ab" + strings.Repeat("😀", 70), // 4-byte characters, 282 bytes
	strings.Repeat("ü", 64) + strings.Repeat("あ", 60) + strings.Repeat("z", 2000),
}

func c14Scenarios() []c14Scenario {
	return []c14Scenario{
		{Name: "out-btc", Typ: "out", Chain: "btc", Mine: 4},
		{Name: "out-lbtc", Typ: "out", Chain: "lbtc", Mine: 4},
		{Name: "in-btc", Typ: "in", Chain: "btc", Mine: 4},
		{Name: "in-lbtc", Typ: "in", Chain: "lbtc", Mine: 4},
		{Name: "out-btc-openfail", Typ: "out", Chain: "btc", FaultNode: "bob", FaultOp: "btc.open", Mine: 1},
		{Name: "in-btc-openfail", Typ: "in", Chain: "btc", FaultNode: "alice", FaultOp: "btc.open", Mine: 1},
		{Name: "out-lbtc-openfail", Typ: "out", Chain: "lbtc", FaultNode: "bob", FaultOp: "lbtc.open", Mine: 1},
		{Name: "out-btc-feeinvoicefail", Typ: "out", Chain: "btc", FaultNode: "bob", FaultOp: "ln.getpayreq", Mine: 1},
		{Name: "out-btc-feepayfail", Typ: "out", Chain: "btc", FaultNode: "alice", FaultOp: "ln.payfee", Mine: 1},
		{Name: "in-btc-agreementsendfail", Typ: "in", Chain: "btc", FaultNode: "bob", FaultOp: "msg.send:42073", Mine: 1, Advance: 48 * time.Hour},
		{Name: "out-btc-payfail-coop", Typ: "out", Chain: "btc", FaultNode: "alice", FaultOp: "ln.rebalance", Mine: 6},
		{Name: "in-lbtc-payfail-coop", Typ: "in", Chain: "lbtc", FaultNode: "bob", FaultOp: "ln.rebalance", Mine: 6},
		{Name: "in-btc-payfail-coop", Typ: "in", Chain: "btc", FaultNode: "bob", FaultOp: "ln.rebalance", Mine: 6},
		{Name: "out-btc-heightfail", Typ: "out", Chain: "btc", FaultNode: "alice", FaultOp: "btc.height", Mine: 6},
		{Name: "in-btc-heightfail", Typ: "in", Chain: "btc", FaultNode: "bob", FaultOp: "btc.height", Mine: 6},
		{Name: "out-btc-csv", Typ: "out", Chain: "btc", CsvAfterCancel: true, Mine: 1010},
		{Name: "in-btc-csv", Typ: "in", Chain: "btc", CsvAfterCancel: true, Mine: 1010},
		{Name: "out-btc-agreementlost-timeout", Typ: "out", Chain: "btc", FaultNode: "bob", FaultOp: "msg.send:42075", Advance: 48 * time.Hour},
		{Name: "in-btc-invalidcoop", Typ: "in", Chain: "btc", InvalidCoop: true, Mine: 2},
		{Name: "out-lbtc-invalidcoop", Typ: "out", Chain: "lbtc", InvalidCoop: true, Mine: 2},
		{Name: "out-btc-csv-longhint0", Typ: "out", Chain: "btc", CsvAfterCancel: true, Mine: 1010, Hint: c14LongHints[0]},
		{Name: "in-lbtc-csv-longhint1", Typ: "in", Chain: "lbtc", CsvAfterCancel: true, Mine: 10100, Hint: c14LongHints[1]},
		{Name: "in-btc-invalidcoop-longhint2", Typ: "in", Chain: "btc", InvalidCoop: true, Mine: 2, Hint: c14LongHints[2]},
		{Name: "out-lbtc-invalidcoop-longhint3", Typ: "out", Chain: "lbtc", InvalidCoop: true, Mine: 2, Hint: c14LongHints[3]},
		{Name: "out-btc-invalidcoop-longhint0", Typ: "out", Chain: "btc", InvalidCoop: true, Mine: 2, Hint: c14LongHints[0]},
	}
}

// c14DeepCopy copies exported data reachable from v (pointers, structs, slices); interface
// values are shared (errors are immutable), unexported fields are left zero.
func c14DeepCopy(v reflect.Value) reflect.Value {
	switch v.Kind() {
	case reflect.Ptr:
		if v.IsNil() {
			return reflect.Zero(v.Type())
		}
		n := reflect.New(v.Type().Elem())
		n.Elem().Set(c14DeepCopy(v.Elem()))
		return n
	case reflect.Struct:
		n := reflect.New(v.Type()).Elem()
		for i := 0; i < v.NumField(); i++ {
			if v.Type().Field(i).PkgPath != "" {
				continue
			}
			n.Field(i).Set(c14DeepCopy(v.Field(i)))
		}
		return n
	case reflect.Slice:
		if v.IsNil() {
			return reflect.Zero(v.Type())
		}
		n := reflect.MakeSlice(v.Type(), v.Len(), v.Len())
		for i := 0; i < v.Len(); i++ {
			n.Index(i).Set(c14DeepCopy(v.Index(i)))
		}
		return n
	default:
		return v
	}
}

// c14Snapshot copies the persisted-by-contract part of a machine.
func c14Snapshot(sm *swap.SwapStateMachine) *swap.SwapStateMachine {
	if sm == nil {
		return nil
	}
	c := &swap.SwapStateMachine{Type: sm.Type, Role: sm.Role, Previous: sm.Previous, Current: sm.Current}
	if sm.SwapId != nil {
		id := *sm.SwapId
		c.SwapId = &id
	}
	if sm.Data != nil {
		c.Data = c14DeepCopy(reflect.ValueOf(sm.Data)).Interface().(*swap.SwapData)
	}
	return c
}

// c14RunScenario runs one two-node scenario and returns every committed store write.
func c14RunScenario(seed int64, s c14Scenario, rng *mrand.Rand) (writes []c14Write, problems []string) {
	w := sim.NewWorld(seed)
	defer w.Close()
	a := w.AddNode("alice", sim.DefaultNodeConfig())
	b := w.AddNode("bob", sim.DefaultNodeConfig())
	w.LN.OpenChannel("100x1x0", a.ID, b.ID, 5e9, 5e9)
	seq := map[string]int{}
	lastID := ""
	w.Subscribe(func(e *sim.Event) {
		if e.Kind != "store.write" {
			return
		}
		ev, ok := e.P.(sim.EvStore)
		if !ok || ev.Err != "" || len(ev.Bytes) == 0 {
			return
		}
		var mem *swap.SwapStateMachine
		if n := w.Nodes[e.Node]; n != nil {
			if inc := n.Inc(); inc != nil && inc.Svc != nil {
				for _, as := range inc.Svc.VerifActiveSwaps() {
					if as.Id == ev.SwapID {
						mem = c14Snapshot(as.Machine)
					}
				}
			}
		}
		k := e.Node + "/" + ev.SwapID
		writes = append(writes, c14Write{Scenario: s.Name, Node: e.Node, SwapID: ev.SwapID, Seq: seq[k], State: ev.State,
			Bytes: append([]byte(nil), ev.Bytes...), Mem: mem})
		seq[k]++
		lastID = ev.SwapID
	})
	if err := a.Start(); err != nil {
		return nil, []string{s.Name + ": start alice: " + err.Error()}
	}
	if err := b.Start(); err != nil {
		return nil, []string{s.Name + ": start bob: " + err.Error()}
	}
	if s.FaultNode != "" {
		op := s.FaultOp
		w.Nodes[s.FaultNode].Fault = func(o string) error {
			if o == op {
				return errors.New("injected fault at " + op)
			}
			return nil
		}
	}
	amt := uint64(100_000 + rng.Intn(1_900_000))
	var err error
	var p string
	if s.Typ == "out" {
		_, err, p = a.SwapOut(b.ID, s.Chain, "100x1x0", amt, 10000)
	} else {
		_, err, p = a.SwapIn(b.ID, s.Chain, "100x1x0", amt, 10000)
	}
	if p != "" {
		problems = append(problems, s.Name+": panic in swap call: "+strings.SplitN(p, "\n", 2)[0])
	}
	if err != nil && s.FaultNode == "" {
		problems = append(problems, s.Name+": swap call failed: "+err.Error())
	}
	w.Run()
	chain := w.BTC
	if s.Chain == "lbtc" {
		chain = w.LBTC
	}
	if s.InvalidCoop {
		// the taker's identity sends a coop_close whose key does not parse: the maker's record goes through the
		// invalid-message path
		hint := "x"
		if s.Hint != "" {
			hint = s.Hint
		}
		pl := []byte(fmt.Sprintf(`{"swap_id":%q,"message":%q,"privkey":"zz"}`, lastID, hint))
		if s.Typ == "out" {
			w.InjectMsg(a.ID, "bob", 0xa461, pl)
		} else {
			w.InjectMsg(b.ID, "alice", 0xa461, pl)
		}
		w.Run()
	}
	if s.CsvAfterCancel {
		hint := "taker gives up"
		if s.Hint != "" {
			hint = s.Hint
		}
		pl := []byte(fmt.Sprintf(`{"swap_id":%q,"message":%q}`, lastID, hint))
		if s.Typ == "out" {
			a.Crash()
			w.InjectMsg(a.ID, "bob", 0xa45f, pl)
		} else {
			b.Crash()
			w.InjectMsg(b.ID, "alice", 0xa45f, pl)
		}
		w.Run()
		chain.Mine(s.Mine)
		w.Run()
	} else {
		for i := 0; i < s.Mine; i++ {
			chain.Mine(1)
			w.Run()
		}
	}
	if s.Advance > 0 {
		w.Advance(s.Advance)
		w.Run()
	}
	return writes, problems
}

// c14Harvest runs all scenarios (in parallel) and returns the writes in scenario order.
func c14Harvest(seed int64, round int) ([]c14Write, []string) {
	scs := c14Scenarios()
	rng := mrand.New(mrand.NewSource(seed*1000 + int64(round)))
	rngs := make([]*mrand.Rand, len(scs))
	for i := range scs {
		rngs[i] = mrand.New(mrand.NewSource(rng.Int63()))
	}
	res := make([][]c14Write, len(scs))
	probs := make([][]string, len(scs))
	parallelDo(len(scs), 6, func(i int) {
		res[i], probs[i] = c14RunScenario(seed+int64(round)*131+int64(i), scs[i], rngs[i])
	})
	var all []c14Write
	var problems []string
	for i := range scs {
		all = append(all, res[i]...)
		problems = append(problems, probs[i]...)
	}
	return all, problems
}

func c14RoleName(sm *swap.SwapStateMachine) string {
	t, ro := "type?", "role?"
	switch sm.Type {
	case swap.SWAPTYPE_IN:
		t = "in"
	case swap.SWAPTYPE_OUT:
		t = "out"
	}
	switch sm.Role {
	case swap.SWAPROLE_SENDER:
		ro = "sender"
	case swap.SWAPROLE_RECEIVER:
		ro = "receiver"
	}
	return t + "/" + ro
}

// ---- field-by-field comparison ---------------------------------------------

type c14FieldDiff struct{ Path, Want, Got string }

// fields that are not part of the persisted contract: the state table (configuration), the
// error interface (represented by LastErrString) and the never-assigned LastMessage interface.
var c14SkipFields = map[string]bool{
	"SwapStateMachine.States": true,
	"SwapData.LastErr":        true,
	"SwapData.LastMessage":    true,
}

func c14Short(v reflect.Value) string {
	var s string
	switch {
	case v.Kind() == reflect.Slice && v.Type().Elem().Kind() == reflect.Uint8:
		if v.IsNil() {
			return "[]byte(nil)"
		}
		s = fmt.Sprintf("[]byte{len %d}%x", v.Len(), v.Bytes())
	case v.Kind() == reflect.String:
		s = fmt.Sprintf("string{len %d}%q", v.Len(), v.String())
	default:
		s = fmt.Sprintf("%v", v.Interface())
	}
	if len(s) > 160 {
		s = s[:160] + "…"
	}
	return s
}

func c14Walk(path string, a, b reflect.Value, out *[]c14FieldDiff) {
	switch a.Kind() {
	case reflect.Ptr:
		if a.IsNil() || b.IsNil() {
			if a.IsNil() != b.IsNil() {
				f := func(v reflect.Value) string {
					if v.IsNil() {
						return "nil"
					}
					return "present"
				}
				*out = append(*out, c14FieldDiff{path + "(nil-vs-present)", f(a), f(b)})
			}
			return
		}
		c14Walk(path, a.Elem(), b.Elem(), out)
	case reflect.Struct:
		t := a.Type()
		for i := 0; i < t.NumField(); i++ {
			f := t.Field(i)
			if f.PkgPath != "" {
				continue
			}
			p := path + "." + f.Name
			if c14SkipFields[p] {
				continue
			}
			if p == "SwapStateMachine.Data" {
				// name the fields of the data record by their own type
				av, bv := a.Field(i), b.Field(i)
				if av.IsNil() || bv.IsNil() {
					c14Walk(p, av, bv, out)
				} else {
					c14Walk("SwapData", av.Elem(), bv.Elem(), out)
				}
				continue
			}
			c14Walk(p, a.Field(i), b.Field(i), out)
		}
	case reflect.Interface:
		// not part of the contract
	default:
		if !reflect.DeepEqual(a.Interface(), b.Interface()) {
			*out = append(*out, c14FieldDiff{path, c14Short(a), c14Short(b)})
		}
	}
}

// c14Diff lists the contract fields in which got differs from want.
func c14Diff(want, got *swap.SwapStateMachine) []c14FieldDiff {
	var out []c14FieldDiff
	c14Walk("SwapStateMachine", reflect.ValueOf(want).Elem(), reflect.ValueOf(got).Elem(), &out)
	return out
}

// c14LastErrDiff: LastErr is json:"-" and represented by LastErrString; an in-memory error
// must therefore be readable from the reloaded LastErrString.
func c14LastErrDiff(mem, got *swap.SwapStateMachine) []c14FieldDiff {
	if mem.Data == nil || got.Data == nil || mem.Data.LastErr == nil {
		return nil
	}
	if got.Data.LastErrString != mem.Data.LastErr.Error() {
		return []c14FieldDiff{{"SwapData.LastErr(not-represented-by-LastErrString)", fmt.Sprintf("%q", mem.Data.LastErr.Error()), fmt.Sprintf("LastErrString=%q", got.Data.LastErrString)}}
	}
	return nil
}

func c14ErrClass(err error) string {
	s := err.Error()
	// normalise: keep the shape, drop concrete values
	for _, cut := range []string{" of type ", "field "} {
		if i := strings.Index(s, cut); i >= 0 {
			s = s[:i+len(cut)] + strings.SplitN(s[i+len(cut):], " ", 2)[0]
			break
		}
	}
	if len(s) > 90 {
		s = s[:90]
	}
	return strings.ReplaceAll(s, "|", "/")
}

func c14RawGet(db *bbolt.DB, id *swap.SwapId) []byte {
	var raw []byte
	db.View(func(tx *bbolt.Tx) error {
		if b := tx.Bucket(c14SwapsBucket); b != nil {
			if v := b.Get(id[:]); v != nil {
				raw = append([]byte{}, v...)
			}
		}
		return nil
	})
	return raw
}

// c14Item is one record to be checked: the in-memory value, how to get it into a file and
// where it came from.
type c14Item struct {
	want    *swap.SwapStateMachine // in-memory value at write time
	prior   *swap.SwapStateMachine // written before want (update path) if non-nil
	plant   []byte                 // if non-nil the committed bytes are planted raw instead of calling UpdateData
	src     string                 // witness context
	lastErr bool                   // also demand LastErr to be represented
}

// c14CheckBatch writes all items into a fresh file, reopens it and compares what a fresh store
// returns. All ids in a batch must be distinct. Returns raw bytes stored at write time by id.
func c14CheckBatch(r *Run, path, rule string, items []c14Item) {
	db, err := c14OpenDB(path)
	if err != nil {
		r.Inconclusive("cannot open bbolt file: " + err.Error())
		return
	}
	st, err := swap.NewBboltStore(db)
	if err != nil {
		db.Close()
		r.Violate(rule, "C14|store-constructor-error", err.Error(), nil)
		return
	}
	raw1 := make([][]byte, len(items))
	written := make([]bool, len(items))
	for i, it := range items {
		if it.plant != nil {
			err := db.Update(func(tx *bbolt.Tx) error { return tx.Bucket(c14SwapsBucket).Put(it.want.SwapId[:], it.plant) })
			if err != nil {
				r.Inconclusive("cannot plant bytes: " + err.Error())
				continue
			}
		} else {
			if it.prior != nil {
				if err := st.UpdateData(it.prior); err != nil {
					r.Violate(rule, "C14|write-error|"+c14ErrClass(err), it.src+": UpdateData(prior): "+err.Error(), nil)
					continue
				}
			}
			if err := st.UpdateData(it.want); err != nil {
				r.Violate(rule, "C14|write-error|"+c14ErrClass(err), it.src+": UpdateData: "+err.Error(), nil)
				continue
			}
		}
		written[i] = true
		raw1[i] = c14RawGet(db, it.want.SwapId)
	}
	if err := db.Close(); err != nil {
		r.Inconclusive("close: " + err.Error())
		return
	}
	// fresh store instance on the reopened file
	db, err = c14OpenDB(path)
	if err != nil {
		r.Inconclusive("cannot reopen bbolt file: " + err.Error())
		return
	}
	defer db.Close()
	st2, err := swap.NewBboltStore(db)
	if err != nil {
		r.Violate(rule, "C14|store-constructor-error", "on reopen: "+err.Error(), nil)
		return
	}
	report := func(it c14Item, via string, got *swap.SwapStateMachine) {
		diffs := c14Diff(it.want, got)
		if it.lastErr {
			diffs = append(diffs, c14LastErrDiff(it.want, got)...)
		}
		for _, d := range diffs {
			r.Violate(rule, "C14|field-lost|"+d.Path,
				fmt.Sprintf("%s: %s returns %s = %s, in memory at write time it was %s", it.src, via, d.Path, d.Got, d.Want), nil)
		}
	}
	all, lerr := st2.ListAll()
	if lerr != nil {
		r.Violate(rule, "C14|reload-error|ListAll|"+c14ErrClass(lerr), fmt.Sprintf("ListAll on a file with %d records: %v (first record: %s)", len(items), lerr, items[0].src), nil)
	}
	byID := map[swap.SwapId]*swap.SwapStateMachine{}
	for _, sm := range all {
		if sm != nil && sm.SwapId != nil {
			byID[*sm.SwapId] = sm
		}
	}
	nWritten := 0
	reloaded := make([]*swap.SwapStateMachine, len(items))
	for i, it := range items {
		if !written[i] {
			continue
		}
		nWritten++
		got, err := st2.GetData(it.want.SwapId.String())
		if err != nil {
			r.Violate(rule, "C14|reload-error|GetData|"+c14ErrClass(err), fmt.Sprintf("%s: GetData after reopen: %v", it.src, err), nil)
		} else {
			reloaded[i] = got
			report(it, "GetData", got)
		}
		if lerr == nil {
			if lg := byID[*it.want.SwapId]; lg == nil {
				r.Violate(rule, "C14|listall-missing-record", it.src+": record not returned by ListAll after reopen", nil)
			} else {
				report(it, "ListAll", lg)
			}
		}
	}
	if lerr == nil && len(all) != nWritten {
		r.Violate(rule, "C14|listall-count", fmt.Sprintf("ListAll returned %d records, %d were written (%s)", len(all), nWritten, items[0].src), nil)
	}
	// second oracle: storing the reloaded value again yields identical bytes
	for i, it := range items {
		if reloaded[i] == nil {
			continue
		}
		if err := st2.UpdateData(reloaded[i]); err != nil {
			r.Violate(rule, "C14|rewrite-error|"+c14ErrClass(err), it.src+": UpdateData(reloaded): "+err.Error(), nil)
			continue
		}
		raw2 := c14RawGet(db, it.want.SwapId)
		if !bytes.Equal(raw1[i], raw2) {
			at := 0
			for at < len(raw1[i]) && at < len(raw2) && raw1[i][at] == raw2[at] {
				at++
			}
			lo := at - 40
			if lo < 0 {
				lo = 0
			}
			cut := func(b []byte) string {
				hi := at + 60
				if hi > len(b) {
					hi = len(b)
				}
				if lo > len(b) {
					return ""
				}
				return string(b[lo:hi])
			}
			key := c14JSONKeyAt(raw1[i], at)
			r.Violate(rule, "C14|bytes-not-idempotent|"+key,
				fmt.Sprintf("%s: stored bytes differ after decode+store at offset %d (len %d -> %d): first …%s… second …%s…", it.src, at, len(raw1[i]), len(raw2), cut(raw1[i]), cut(raw2)), nil)
		}
	}
}

// c14JSONKeyAt returns the last JSON object key that starts before offset at (normalised
// location of a byte difference).
func c14JSONKeyAt(b []byte, at int) string {
	if at > len(b) {
		at = len(b)
	}
	key := "?"
	for i := 0; i < at; i++ {
		if b[i] != '"' {
			continue
		}
		j := i + 1
		for j < len(b) && b[j] != '"' {
			if b[j] == '\\' {
				j++
			}
			j++
		}
		if j+1 < len(b) && b[j+1] == ':' && i < at {
			key = string(b[i+1 : j])
		}
		i = j
	}
	return key
}

// ---- generated values --------------------------------------------------------

type c14Gen struct {
	rng     *mrand.Rand
	states  []swap.StateType
	big     string
	bigUTF8 string
	classes []string
}

func c14AllStates() (names []swap.StateType, byTable map[string][]swap.StateType) {
	byTable = map[string][]swap.StateType{}
	seen := map[swap.StateType]bool{}
	tabs := swap.VerifStateTables()
	tn := make([]string, 0, len(tabs))
	for k := range tabs {
		tn = append(tn, k)
	}
	sort.Strings(tn)
	for _, k := range tn {
		var l []string
		for s := range tabs[k] {
			l = append(l, string(s))
		}
		sort.Strings(l)
		for _, s := range l {
			byTable[k] = append(byTable[k], swap.StateType(s))
			if !seen[swap.StateType(s)] {
				seen[swap.StateType(s)] = true
				names = append(names, swap.StateType(s))
			}
		}
	}
	return
}

func newC14Gen(seed int64, states []swap.StateType) *c14Gen {
	g := &c14Gen{rng: mrand.New(mrand.NewSource(seed)), states: states}
	g.big = strings.Repeat("0123456789abcdef", 100*1024/16)
	unit := "ключ-鍵-🔑-é"
	g.bigUTF8 = strings.Repeat(unit, 100*1024/len(unit)+1)
	return g
}

func (g *c14Gen) note(field, class string) { g.classes = append(g.classes, "gen/"+field+"="+class) }

func (g *c14Gen) str() (string, string) {
	x := g.rng.Intn(1000)
	switch {
	case x < 3:
		return g.big, "100KiB-ascii"
	case x < 6:
		return g.bigUTF8, "100KiB-utf8"
	case x < 200:
		return "", "empty"
	case x < 450:
		b := make([]byte, 33)
		g.rng.Read(b)
		return hex.EncodeToString(b), "hex66"
	case x < 650:
		return fmt.Sprintf("lnbcrt%dn1p%x", g.rng.Intn(1e6), g.rng.Int63()), "ascii"
	case x < 830:
		return []string{"héllo wörld — 日本語 🚀 ١٢٣", "Ωμέγα/ключ/鍵", "é́ \U0001F600\U0010FFFF �"}[g.rng.Intn(3)], "utf8-multibyte"
	default:
		return []string{"\"quoted\" \\back\\slash/ \b\f\n\r\t", "<script>&amp;</script>  ", "nul:\x00 del:\x7f esc:\x1b", "{\"swap_id\":null}", "null"}[g.rng.Intn(5)], "json-special"
	}
}

func (g *c14Gen) sint(bits int) (int64, string) {
	lo, hi := int64(math.MinInt64), int64(math.MaxInt64)
	if bits == 32 {
		lo, hi = math.MinInt32, math.MaxInt32
	}
	switch g.rng.Intn(7) {
	case 0:
		return 0, "0"
	case 1:
		return -1, "-1"
	case 2:
		return lo, "min"
	case 3:
		return hi, "max"
	case 4:
		return -int64(g.rng.Intn(1_000_000)) - 2, "negative"
	default:
		return int64(g.rng.Intn(100_000_000)) + 1, "positive"
	}
}

func (g *c14Gen) uint(bits int) (uint64, string) {
	max := uint64(math.MaxUint64)
	switch bits {
	case 8:
		max = math.MaxUint8
	case 16:
		max = math.MaxUint16
	case 32:
		max = math.MaxUint32
	}
	switch g.rng.Intn(5) {
	case 0:
		return 0, "0"
	case 1:
		return max, "max"
	case 2:
		return 1, "1"
	default:
		return g.rng.Uint64() % max, "random"
	}
}

func (g *c14Gen) bytes() ([]byte, string) {
	switch g.rng.Intn(5) {
	case 0:
		return nil, "nil"
	case 1:
		return []byte{}, "empty"
	case 2:
		b := make([]byte, 256)
		for i := range b {
			b[i] = byte(i)
		}
		return b, "all-256-values"
	default:
		b := make([]byte, 32)
		g.rng.Read(b)
		return b, "32-random"
	}
}

var (
	c14SwapIdType    = reflect.TypeOf(swap.SwapId{})
	c14StateTypeType = reflect.TypeOf(swap.StateType(""))
	c14RoleType      = reflect.TypeOf(swap.SwapRole(0))
	c14TypeType      = reflect.TypeOf(swap.SwapType(0))
)

// fill assigns a value class to every exported field of the struct v (recursively).
func (g *c14Gen) fill(owner string, v reflect.Value) {
	t := v.Type()
	for i := 0; i < t.NumField(); i++ {
		f := t.Field(i)
		if f.PkgPath != "" {
			continue
		}
		name := owner + "." + f.Name
		fv := v.Field(i)
		switch {
		case fv.Type() == c14StateTypeType:
			s := g.states[g.rng.Intn(len(g.states))]
			fv.SetString(string(s))
			g.note(name, "state-name")
		case fv.Type() == c14RoleType || fv.Type() == c14TypeType:
			x := []int64{0, 1, 2, -1, math.MaxInt32}[g.rng.Intn(5)]
			fv.SetInt(x)
			g.note(name, fmt.Sprint(x))
		case fv.Kind() == reflect.String:
			s, c := g.str()
			fv.SetString(s)
			g.note(name, c)
		case fv.Kind() == reflect.Bool:
			b := g.rng.Intn(2) == 0
			fv.SetBool(b)
			g.note(name, fmt.Sprint(b))
		case fv.Kind() == reflect.Int || fv.Kind() == reflect.Int64:
			x, c := g.sint(64)
			fv.SetInt(x)
			g.note(name, c)
		case fv.Kind() == reflect.Int32:
			x, c := g.sint(32)
			fv.SetInt(x)
			g.note(name, c)
		case fv.Kind() == reflect.Uint8 || fv.Kind() == reflect.Uint16 || fv.Kind() == reflect.Uint32 || fv.Kind() == reflect.Uint64:
			x, c := g.uint(fv.Type().Bits())
			fv.SetUint(x)
			g.note(name, c)
		case fv.Kind() == reflect.Slice && fv.Type().Elem().Kind() == reflect.Uint8:
			b, c := g.bytes()
			if b == nil {
				fv.Set(reflect.Zero(fv.Type()))
			} else {
				fv.SetBytes(b)
			}
			g.note(name, c)
		case fv.Kind() == reflect.Ptr && fv.Type().Elem() == c14SwapIdType:
			if g.rng.Intn(4) == 0 {
				g.note(name, "nil")
				continue
			}
			id := new(swap.SwapId)
			g.rng.Read(id[:])
			fv.Set(reflect.ValueOf(id))
			g.note(name, "present")
		case fv.Kind() == reflect.Ptr && fv.Type().Elem().Kind() == reflect.Struct:
			if g.rng.Intn(3) == 0 {
				g.note(name, "nil")
				continue
			}
			n := reflect.New(fv.Type().Elem())
			g.fill(name, n.Elem())
			fv.Set(n)
			g.note(name, "present")
		case fv.Kind() == reflect.Interface:
			// LastErr / LastMessage: set by the caller where the contract says something about them
		default:
			g.note(name, "UNHANDLED-KIND-"+fv.Kind().String())
		}
	}
}

func c14HeightClass(h uint32) string {
	switch h {
	case 0:
		return "0"
	case math.MaxUint32:
		return "max"
	}
	return "other"
}

// machine builds the i-th generated machine.
func (g *c14Gen) machine(i int, id swap.SwapId) *swap.SwapStateMachine {
	sm := &swap.SwapStateMachine{SwapId: &id}
	sm.Current = g.states[i%len(g.states)]
	sm.Previous = g.states[g.rng.Intn(len(g.states))]
	g.note("SwapStateMachine.Current", string(sm.Current))
	g.note("SwapStateMachine.Previous", "state-name")
	sm.Type = []swap.SwapType{0, swap.SWAPTYPE_IN, swap.SWAPTYPE_OUT, -1, math.MaxInt32}[g.rng.Intn(5)]
	sm.Role = []swap.SwapRole{0, swap.SWAPROLE_SENDER, swap.SWAPROLE_RECEIVER, -1, math.MaxInt32}[g.rng.Intn(5)]
	g.note("SwapStateMachine.Type", fmt.Sprint(int(sm.Type)))
	g.note("SwapStateMachine.Role", fmt.Sprint(int(sm.Role)))
	d := &swap.SwapData{}
	g.fill("SwapData", reflect.ValueOf(d).Elem())
	// the code under test keeps LastErr and LastErrString in step (HandleError / ApplyToSwapData)
	if d.LastErrString != "" && g.rng.Intn(2) == 0 {
		d.LastErr = errors.New(d.LastErrString)
	}
	sm.Data = d
	return sm
}

func (g *c14Gen) noteAnchor(sm *swap.SwapStateMachine) {
	if sm.Data != nil {
		g.note("anchor", fmt.Sprintf("set=%v/height=%s", sm.Data.StartingBlockHeightSet, c14HeightClass(sm.Data.StartingBlockHeight)))
	}
}

// c14EdgeCases are hand-written corner values placed in front of the random ones.
func (g *c14Gen) edgeCases() []*swap.SwapStateMachine {
	var out []*swap.SwapStateMachine
	mk := func(tag string, id swap.SwapId, f func(sm *swap.SwapStateMachine)) {
		sm := g.machine(len(out), id)
		f(sm)
		g.noteAnchor(sm)
		g.note("edge", tag)
		out = append(out, sm)
	}
	pat := func(base int) swap.SwapId {
		var id swap.SwapId
		for j := range id {
			id[j] = byte(base + j)
		}
		return id
	}
	for k := 0; k < 8; k++ { // ids 0..7 together contain every byte value
		kk := k
		mk(fmt.Sprintf("id-bytes-%02x..%02x", kk*32, kk*32+31), pat(kk*32), func(sm *swap.SwapStateMachine) {})
	}
	var ff swap.SwapId
	for j := range ff {
		ff[j] = 0xff
	}
	mk("id-all-ff", ff, func(sm *swap.SwapStateMachine) {})
	mk("id-all-zero", swap.SwapId{}, func(sm *swap.SwapStateMachine) {})
	rid := func() swap.SwapId {
		var id swap.SwapId
		g.rng.Read(id[:])
		return id
	}
	mk("anchor-set-height-0", rid(), func(sm *swap.SwapStateMachine) {
		sm.Data.StartingBlockHeightSet, sm.Data.StartingBlockHeight = true, 0
	})
	mk("anchor-set-height-max", rid(), func(sm *swap.SwapStateMachine) {
		sm.Data.StartingBlockHeightSet, sm.Data.StartingBlockHeight = true, math.MaxUint32
	})
	mk("anchor-unset-height-0", rid(), func(sm *swap.SwapStateMachine) {
		sm.Data.StartingBlockHeightSet, sm.Data.StartingBlockHeight = false, 0
	})
	mk("anchor-unset-height-max", rid(), func(sm *swap.SwapStateMachine) {
		sm.Data.StartingBlockHeightSet, sm.Data.StartingBlockHeight = false, math.MaxUint32
	})
	mk("data-nil", rid(), func(sm *swap.SwapStateMachine) { sm.Data = nil })
	mk("data-zero-value", rid(), func(sm *swap.SwapStateMachine) { sm.Data = &swap.SwapData{} })
	mk("all-submessages-zero-valued", rid(), func(sm *swap.SwapStateMachine) {
		sm.Data = &swap.SwapData{SwapInRequest: &swap.SwapInRequestMessage{}, SwapInAgreement: &swap.SwapInAgreementMessage{},
			SwapOutRequest: &swap.SwapOutRequestMessage{}, SwapOutAgreement: &swap.SwapOutAgreementMessage{},
			OpeningTxBroadcasted: &swap.OpeningTxBroadcastedMessage{}, CoopClose: &swap.CoopCloseMessage{}, Cancel: &swap.CancelMessage{},
			PrivkeyBytes: []byte{}, NextMessage: []byte{}}
	})
	mk("premiums-min", rid(), func(sm *swap.SwapStateMachine) {
		sm.Data.SwapInAgreement = &swap.SwapInAgreementMessage{Premium: math.MinInt64}
		sm.Data.SwapOutAgreement = &swap.SwapOutAgreementMessage{Premium: math.MinInt64}
		sm.Data.SwapInRequest = &swap.SwapInRequestMessage{PremiumLimit: math.MinInt64, Amount: math.MaxUint64}
		sm.Data.SwapOutRequest = &swap.SwapOutRequestMessage{PremiumLimit: math.MinInt64, Amount: math.MaxUint64}
	})
	mk("premiums-max", rid(), func(sm *swap.SwapStateMachine) {
		sm.Data.SwapInAgreement = &swap.SwapInAgreementMessage{Premium: math.MaxInt64}
		sm.Data.SwapOutAgreement = &swap.SwapOutAgreementMessage{Premium: math.MaxInt64}
		sm.Data.SwapInRequest = &swap.SwapInRequestMessage{PremiumLimit: math.MaxInt64}
		sm.Data.SwapOutRequest = &swap.SwapOutRequestMessage{PremiumLimit: math.MaxInt64}
		sm.Data.OpeningTxFee = math.MaxUint64
		sm.Data.CreatedAt = math.MinInt64
	})
	mk("every-string-100KiB", rid(), func(sm *swap.SwapStateMachine) {
		sm.Data.CancelMessage, sm.Data.OpeningTxHex, sm.Data.LastErrString = g.big, g.bigUTF8, g.big
		sm.Data.LastErr = errors.New(g.big)
		sm.Data.Cancel = &swap.CancelMessage{Message: g.bigUTF8}
		sm.Data.CoopClose = &swap.CoopCloseMessage{Message: g.big, Privkey: g.bigUTF8}
		sm.Data.OpeningTxBroadcasted = &swap.OpeningTxBroadcastedMessage{Payreq: g.big, TxId: g.bigUTF8, BlindingKey: g.big}
		sm.Data.SwapOutAgreement = &swap.SwapOutAgreementMessage{Payreq: g.bigUTF8, Pubkey: g.big}
	})
	return out
}

func TestC14(t *testing.T) {
	r := newRun(t, "C14", "exploration")
	defer r.Finish()
	r.Rule = "records written through the real bbolt store, file closed and reopened, read by a fresh store (GetData and ListAll) and compared field by field (reflection over SwapStateMachine.{SwapId,Type,Role,Previous,Current} and every exported field of SwapData and the seven message structs; LastErr through LastErrString) with the in-memory value at write time; then the reloaded value is stored again and the bytes compared. Sources: (i) every store write of real two-node world runs (20 scenarios: happy/cancel/coop/csv/timeout/invalid-message paths on both chains, all four roles) with an in-memory snapshot taken inside the write crossing; (ii) reflection-generated machines (every exported field × value class). distinct = real/(type/role/state) ∪ gen/(field=value class)"
	r.Assumptions = []string{
		"bbolt returns the bytes that were put (the committed bytes of a world write are planted raw into a fresh file to obtain a reopened-file read of that exact write)",
		"in the deterministic world no other goroutine mutates a machine while its store write crossing is executing, so the snapshot taken there is the value that was marshalled",
	}
	base := t.TempDir()
	allStates, byTable := c14AllStates()
	// a name outside all tables must survive as well
	genStates := append(append([]swap.StateType{}, allStates...), "State_Unknown_Äö")

	// ---- comparator self-check: planted differences must be reported, and only those ---
	{
		g := newC14Gen(r.Seed+1414, genStates)
		var id swap.SwapId
		a := g.machine(1, id)
		a.Data.SwapInRequest = &swap.SwapInRequestMessage{Pubkey: "02aa"}
		a.Data.Cancel = nil
		a.Data.PrivkeyBytes = nil
		a.Data.StartingBlockHeightSet = true
		b := c14Snapshot(a)
		same := len(c14Diff(a, b)) == 0
		b.Data.StartingBlockHeightSet = false
		b.Data.PrivkeyBytes = []byte{}
		b.Data.SwapInRequest.Pubkey = "02ab"
		b.Data.Cancel = &swap.CancelMessage{}
		b.Current = "x"
		b.SwapId[31] ^= 1
		var got []string
		for _, d := range c14Diff(a, b) {
			got = append(got, d.Path)
		}
		sort.Strings(got)
		want := "SwapData.Cancel(nil-vs-present),SwapData.PrivkeyBytes,SwapData.StartingBlockHeightSet,SwapData.SwapInRequest.Pubkey,SwapStateMachine.Current,SwapStateMachine.SwapId"
		r.Require(same && strings.Join(got, ",") == want, "comparator self-check failed: "+strings.Join(got, ","))
	}

	// ---- (i) real records ------------------------------------------------------
	rounds := r.N(1, 12)
	reached := map[string]map[string]bool{}
	nReal, nMem := 0, 0
	fileNo := 0
	for round := 0; round < rounds; round++ {
		writes, problems := c14Harvest(r.Seed, round)
		for _, p := range problems {
			r.CountIn("harvest_problems", p)
		}
		groupsMem := map[string][]c14Item{}
		groupsDec := map[string][]c14Item{}
		var gkeys []string
		for _, wr := range writes {
			dec := &swap.SwapStateMachine{}
			src := fmt.Sprintf("world scenario %s node %s write #%d state %q", wr.Scenario, wr.Node, wr.Seq, wr.State)
			if err := json.Unmarshal(wr.Bytes, dec); err != nil || dec.SwapId == nil {
				r.Eval()
				r.Violate("real-decode", "C14|committed-bytes-undecodable|"+fmt.Sprint(err), src+": "+fmt.Sprint(err), nil)
				continue
			}
			role := c14RoleName(dec)
			state := string(dec.Current)
			if state == "" {
				state = "(initial)"
			}
			key := "real/" + role + "/" + state
			r.Eval()
			r.Seen(key)
			r.CountIn("coverage_role_state", role+"/"+state)
			r.CountIn("coverage_scenario", wr.Scenario)
			if reached[role] == nil {
				reached[role] = map[string]bool{}
			}
			reached[role][string(dec.Current)] = true
			nReal++
			if nReal%97 == 1 {
				r.Sample(map[string]any{"source": "world", "scenario": wr.Scenario, "node": wr.Node, "role": role, "state": state, "bytes": len(wr.Bytes), "mem_snapshot": wr.Mem != nil})
			}
			gk := fmt.Sprintf("%s/%03d", wr.Node, wr.Seq)
			if _, ok := groupsDec[gk]; !ok {
				gkeys = append(gkeys, gk)
			}
			// decode(bytes) -> UpdateData -> reopen -> GetData == decode(bytes); bytes idempotent
			groupsDec[gk] = append(groupsDec[gk], c14Item{want: dec, src: src + " [decode(bytes)→UpdateData→reopen]"})
			if wr.Mem != nil && wr.Mem.SwapId != nil {
				nMem++
				groupsMem[gk] = append(groupsMem[gk], c14Item{want: wr.Mem, plant: wr.Bytes, lastErr: true, src: src + " [in-memory snapshot vs reopened committed bytes]"})
				if wr.Mem.Data != nil && wr.Mem.Data.LastErr != nil {
					r.Seen("real/last-err-set/" + role)
				}
			} else {
				r.Count("real_writes_without_memory_snapshot", 1)
			}
		}
		sort.Strings(gkeys)
		for _, gk := range gkeys {
			fileNo++
			c14CheckBatch(r, filepath.Join(base, fmt.Sprintf("real-dec-%d", fileNo)), "real-roundtrip", groupsDec[gk])
			if len(groupsMem[gk]) > 0 {
				c14CheckBatch(r, filepath.Join(base, fmt.Sprintf("real-mem-%d", fileNo)), "real-memory-vs-reload", groupsMem[gk])
			}
		}
		os.RemoveAll(base)
		os.MkdirAll(base, 0o755)
	}
	r.Extra["real_records"] = nReal
	r.Extra["real_records_with_memory_snapshot"] = nMem
	notReached := map[string][]string{}
	for tab, sts := range byTable {
		for _, s := range sts {
			if !reached[tab][string(s)] {
				notReached[tab] = append(notReached[tab], string(s))
			}
		}
	}
	r.Extra["table_states_not_reached_by_world_runs"] = notReached

	// ---- (ii) generated records -----------------------------------------------
	nGen := r.N(10000, 1000000)
	const batch = 250
	g0 := newC14Gen(r.Seed+14, genStates)
	edges := g0.edgeCases()
	for _, c := range g0.classes {
		r.Seen(c)
	}
	var edgeItems []c14Item
	for i, sm := range edges {
		r.Eval()
		edgeItems = append(edgeItems, c14Item{want: sm, src: fmt.Sprintf("edge case #%d", i)})
	}
	c14CheckBatch(r, filepath.Join(base, "gen-edges"), "generated", edgeItems)
	nb := (nGen + batch - 1) / batch
	seeds := make([]int64, nb)
	for i := range seeds {
		seeds[i] = g0.rng.Int63()
	}
	parallelDo(nb, 8, func(bi int) {
		g := newC14Gen(seeds[bi], genStates)
		g.big, g.bigUTF8 = g0.big, g0.bigUTF8
		used := map[swap.SwapId]bool{}
		var items []c14Item
		for k := 0; k < batch && bi*batch+k < nGen; k++ {
			var id swap.SwapId
			g.rng.Read(id[:])
			if used[id] {
				continue
			}
			used[id] = true
			idx := bi*batch + k
			g.classes = g.classes[:0]
			sm := g.machine(idx, id)
			g.noteAnchor(sm)
			it := c14Item{want: sm, src: fmt.Sprintf("generated #%d (seed %d)", idx, r.Seed)}
			if g.rng.Intn(4) == 0 {
				// update path: another value is stored under the id first
				save := g.classes
				g.classes = nil
				it.prior = g.machine(idx+7, id)
				g.classes = append(save, "gen/write=update")
			} else {
				g.note("write", "create")
			}
			r.Eval()
			for _, c := range g.classes {
				r.Seen(c)
			}
			if idx%3331 == 0 {
				r.Sample(map[string]any{"source": "generated", "index": idx, "current": sm.Current, "anchor_set": sm.Data.StartingBlockHeightSet, "height": sm.Data.StartingBlockHeight,
					"present":     map[string]bool{"SwapInRequest": sm.Data.SwapInRequest != nil, "SwapOutAgreement": sm.Data.SwapOutAgreement != nil, "OpeningTxBroadcasted": sm.Data.OpeningTxBroadcasted != nil, "CoopClose": sm.Data.CoopClose != nil, "Cancel": sm.Data.Cancel != nil},
					"privkey_nil": sm.Data.PrivkeyBytes == nil, "update_path": it.prior != nil})
			}
			items = append(items, it)
		}
		p := filepath.Join(base, fmt.Sprintf("gen-%d", bi))
		c14CheckBatch(r, p, "generated", items)
		os.Remove(p)
	})
	r.Extra["generated_records"] = nGen + len(edges)

	// ---- informational probes outside the contract (never violations) ---------------
	probes := map[string]string{}
	{
		var id swap.SwapId
		g0.rng.Read(id[:])
		bad := "bad-utf8:\xff\xfe"
		sm := &swap.SwapStateMachine{SwapId: &id, Data: &swap.SwapData{CancelMessage: bad}}
		probes["string_with_invalid_utf8"] = c14Probe(filepath.Join(base, "probe-utf8"), sm, func(got *swap.SwapStateMachine) string {
			return fmt.Sprintf("valid_utf8_in=%v reloaded_equal=%v (encoding/json replaces invalid bytes by U+FFFD; strings that entered through JSON/grpc are valid)", utf8.ValidString(bad), got.Data != nil && got.Data.CancelMessage == bad)
		})
		g0.rng.Read(id[:])
		sm2 := &swap.SwapStateMachine{SwapId: &id, Data: &swap.SwapData{LastMessage: swap.CancelMessage{Message: "x"}}}
		probes["last_message_interface_non_nil"] = c14Probe(filepath.Join(base, "probe-lastmsg"), sm2, func(got *swap.SwapStateMachine) string { return "reloads" }) +
			" (no code path assigns SwapData.LastMessage)"
	}
	r.Extra["informational_probes_not_judged"] = probes

	// (iii) reads while the node keeps writing: one writer re-writes 5 swaps with a growing version stamp (carried by
	// three fields, with payloads of changing size so that pages are reused), readers call ListAll / GetData /
	// ListAllByPeer as the RPC commands and SendEvent's own existence check do. Every machine that comes back must be
	// one that was written: the three stamps agree, the version is not from the future, and no call fails.
	conc := c14Concurrent(r, filepath.Join(base, "concurrent.db"), r.N(1, 6))
	r.Extra["concurrent_reads_checked"] = conc

	r.Require(nReal >= 150, fmt.Sprintf("only %d real records harvested", nReal))
	r.Require(nMem*10 >= nReal*9, fmt.Sprintf("in-memory snapshot available for only %d of %d real writes", nMem, nReal))
	for _, role := range []string{"in/sender", "in/receiver", "out/sender", "out/receiver"} {
		r.Require(len(reached[role]) >= 8, fmt.Sprintf("role %s: only %d states seen in real records", role, len(reached[role])))
	}
	for _, term := range []swap.StateType{swap.State_SwapCanceled, swap.State_ClaimedPreimage, swap.State_ClaimedCoop, swap.State_ClaimedCsv} {
		ok := false
		for _, m := range reached {
			ok = ok || m[string(term)]
		}
		r.Require(ok, "terminal state never harvested: "+string(term))
	}
	for _, c := range g0.classes {
		if strings.Contains(c, "UNHANDLED-KIND") {
			r.Inconclusive("generator does not know how to fill " + c)
		}
	}
}

// c14Concurrent: see TestC14 (iii). Returns the number of machines read and judged.
func c14Concurrent(r *Run, path string, rounds int) int {
	judged := 0
	for round := 0; round < rounds; round++ {
		os.Remove(path)
		db, err := c14OpenDB(path)
		if err != nil {
			r.Inconclusive("concurrent part: " + err.Error())
			return judged
		}
		st, err := swap.NewBboltStore(db)
		if err != nil {
			db.Close()
			r.Inconclusive("concurrent part: " + err.Error())
			return judged
		}
		var ids []*swap.SwapId
		for i := 0; i < 5; i++ {
			ids = append(ids, swap.NewSwapId())
		}
		mk := func(id *swap.SwapId, ver int) *swap.SwapStateMachine {
			stamp := fmt.Sprintf("v%08d", ver)
			return &swap.SwapStateMachine{SwapId: id, Type: swap.SWAPTYPE_OUT, Role: swap.SWAPROLE_RECEIVER, Current: swap.State_SwapOutReceiver_AwaitClaimInvoicePayment,
				Data: &swap.SwapData{PeerNodeId: "02peer", CancelMessage: stamp, LastErrString: stamp, NextMessageType: ver,
					OpeningTxHex: strings.Repeat("ab", 50+(ver*37)%3000), ClaimPreimage: stamp}}
		}
		var latest atomic.Int64
		for _, id := range ids {
			st.UpdateData(mk(id, 0))
		}
		stop := make(chan struct{})
		var wg sync.WaitGroup
		var mu sync.Mutex
		bad := func(sig, det string) {
			mu.Lock()
			defer mu.Unlock()
			r.Violate("reads-return-what-was-written", "C14|concurrent-read|"+sig, det, nil)
		}
		wg.Add(1)
		go func() { // the writer
			defer wg.Done()
			for ver := 1; ; ver++ {
				select {
				case <-stop:
					return
				default:
				}
				latest.Store(int64(ver))
				for _, id := range ids {
					if err := st.UpdateData(mk(id, ver)); err != nil {
						bad("write-fails", err.Error())
						return
					}
				}
			}
		}()
		check := func(sm *swap.SwapStateMachine, via string) {
			mu.Lock()
			judged++
			mu.Unlock()
			if sm == nil || sm.Data == nil || sm.SwapId == nil {
				bad("nil-machine|"+via, "a read returned a machine without id or data")
				return
			}
			d := sm.Data
			if d.CancelMessage != d.LastErrString || d.CancelMessage != d.ClaimPreimage || d.CancelMessage != fmt.Sprintf("v%08d", d.NextMessageType) {
				bad("torn-record|"+via, fmt.Sprintf("stamps disagree: %q %q %q %d", d.CancelMessage, d.LastErrString, d.ClaimPreimage, d.NextMessageType))
				return
			}
			if int64(d.NextMessageType) > latest.Load() {
				bad("version-from-the-future|"+via, fmt.Sprintf("%d > %d", d.NextMessageType, latest.Load()))
			}
			if want := 2 * (50 + (d.NextMessageType*37)%3000); len(d.OpeningTxHex) != want {
				bad("torn-record|"+via, fmt.Sprintf("payload of version %d has %d characters, written with %d", d.NextMessageType, len(d.OpeningTxHex), want))
			}
		}
		for k := 0; k < 3; k++ {
			wg.Add(1)
			go func(k int) { // readers
				defer wg.Done()
				defer func() {
					if p := recover(); p != nil {
						bad("panic", fmt.Sprintf("%v", p))
					}
				}()
				for i := 0; ; i++ {
					select {
					case <-stop:
						return
					default:
					}
					switch (i + k) % 3 {
					case 0:
						all, err := st.ListAll()
						if err != nil {
							bad("read-fails|ListAll", err.Error())
							return
						}
						if len(all) != len(ids) {
							bad("wrong-number-of-records|ListAll", fmt.Sprintf("%d records, %d written", len(all), len(ids)))
						}
						for _, sm := range all {
							check(sm, "ListAll")
						}
					case 1:
						sm, err := st.GetData(ids[i%len(ids)].String())
						if err != nil {
							bad("read-fails|GetData", err.Error())
							return
						}
						check(sm, "GetData")
					case 2:
						all, err := st.ListAllByPeer("02peer")
						if err != nil {
							bad("read-fails|ListAllByPeer", err.Error())
							return
						}
						for _, sm := range all {
							check(sm, "ListAllByPeer")
						}
					}
				}
			}(k)
		}
		time.Sleep(250 * time.Millisecond)
		close(stop)
		wg.Wait()
		db.Close()
		r.Eval()
		r.Seen(fmt.Sprintf("concurrent/versions-written>=%d", min(latest.Load(), 100)/100*100))
	}
	os.Remove(path)
	return judged
}

// c14Probe stores sm, reopens the file and describes what comes back.
func c14Probe(path string, sm *swap.SwapStateMachine, describe func(*swap.SwapStateMachine) string) string {
	db, err := c14OpenDB(path)
	if err != nil {
		return "open: " + err.Error()
	}
	st, err := swap.NewBboltStore(db)
	if err != nil {
		db.Close()
		return "store: " + err.Error()
	}
	werr := st.UpdateData(sm)
	db.Close()
	if werr != nil {
		return "UpdateData error: " + werr.Error()
	}
	db, err = c14OpenDB(path)
	if err != nil {
		return "reopen: " + err.Error()
	}
	defer db.Close()
	st2, err := swap.NewBboltStore(db)
	if err != nil {
		return "store: " + err.Error()
	}
	got, err := st2.GetData(sm.SwapId.String())
	if err != nil {
		return "GetData error after reopen: " + err.Error()
	}
	return describe(got)
}
