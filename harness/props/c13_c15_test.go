package props

import (
	"bytes"
	"fmt"
	"sync"
	"testing"
	"time"

	"github.com/elementsproject/peerswap/swap"

	"verifharness/ref"
	"verifharness/sim"
)

// lcSweep enumerates crash points: for every (chain, type, victim) combination it runs the fault-free
// baseline, then re-runs the scenario crashing the victim at each boundary crossing in both flavours.
// judge is called for every finished history (including the baselines).
// lcSeedOffset shifts the world seeds of lcSweep (thorough tiers repeat the sweep with other amounts, keys and
// funding layouts).
var lcSeedOffset int64

func lcSweep(r *Run, chains []string, variant string, drain bool, setup func(h *lcHist), judge func(h *lcHist)) (points int) {
	type combo struct{ chain, typ, victim string }
	var combos []combo
	for _, ch := range chains {
		for _, ty := range []string{"out", "in"} {
			for _, v := range []string{"alice", "bob"} {
				combos = append(combos, combo{ch, ty, v})
			}
		}
	}
	var mu sync.Mutex
	var cases []lcCase
	baseOps := map[string][]string{}
	parallelDo(len(combos), 8, func(i int) {
		cb := combos[i]
		c := lcCase{chain: cb.chain, typ: cb.typ, victim: cb.victim, variant: variant, drain: drain}
		h := lcRun(r.Seed*977+lcSeedOffset+int64(i)+1, c, setup)
		r.Eval()
		judge(h)
		n := h.victim.Crossings()
		mu.Lock()
		baseOps[c.String()] = h.ops
		step := int64(1)
		if !r.Thorough() && n > 40 {
			step = 2
		}
		for k := int64(1); k <= n; k++ {
			// quick tier: every crossing of the negotiation phase, every second one afterwards
			if step == 2 && k > 16 && k%2 == 0 {
				continue
			}
			for _, fl := range []string{"before", "after"} {
				cc := c
				cc.crashAt, cc.flavor = k, fl
				cc.name = crossingOp(h.ops, k)
				cases = append(cases, cc)
			}
		}
		mu.Unlock()
		h.p.w.Close()
	})
	parallelDo(len(cases), 12, func(i int) {
		c := cases[i]
		h := lcRun(r.Seed*977+lcSeedOffset+int64(i)+100_000, c, setup)
		h.c.name = c.name
		r.Eval()
		r.Seen(fmt.Sprintf("%s/%s/%s/crash-%s:%s/final=%s", c.chain, h.victimRole(), variant, c.flavor, c.name, h.p.state(h.victim)))
		r.CountIn("crash_points_by_op", c.name)
		judge(h)
		h.p.w.Close()
	})
	return len(cases)
}

// ---------------------------------------------------------------------------
// C15

func c15Judge(r *Run, h *lcHist) {
	tag := fmt.Sprintf("%s|%s|%s:%s", h.c.chain, h.victimRole(), h.c.flavor, h.c.name)
	det := func(s string) string { return fmt.Sprintf("%s; case %s seed-world=%d", s, h.c, h.p.w.Seed) }
	// (a) at most one funding transaction per swap
	if len(h.opensOK) > 1 {
		r.Violate("one-opening-tx", "C15|second-opening-tx|"+tag, det(fmt.Sprintf("%d opening transactions accepted by the chain: %v", len(h.opensOK), h.opensOK)), traceOf(h.p.w))
	}
	// (b) at most one settled payment per (payer, hash)
	settled := map[string]int{}
	for _, inv := range h.p.w.LN.InvoicesOfSwap(h.p.id, 0) {
		for _, a := range h.p.w.LN.AttemptsFor(h.victim.ID, inv.Hash) {
			if a.State == "settled" {
				settled[inv.Hash]++
			}
		}
	}
	for hash, n := range settled {
		if n > 1 {
			r.Violate("one-payment", "C15|invoice-paid-twice|"+tag, det(fmt.Sprintf("hash %s settled %d times", hash, n)), traceOf(h.p.w))
		}
	}
	// (c) no payment attempt after the swap was committed as cancelled
	if h.cancelSeq != 0 {
		for i, s := range h.paySeq {
			if s > h.cancelSeq {
				r.Violate("no-pay-after-cancel", fmt.Sprintf("C15|pay-after-cancel|%s|%s", tag, h.pays[i].Op), det(fmt.Sprintf("pay crossing %+v after the record was committed as SwapCanceled", h.pays[i])), traceOf(h.p.w))
			}
		}
	}
	// (c') ... or after the node itself told the peer that the swap is cancelled
	var cancelSent int64
	for i, m := range h.sends {
		if m.Type == ref.MsgCancel && cancelSent == 0 && i < len(h.sendSeq) {
			cancelSent = h.sendSeq[i]
		}
	}
	if cancelSent != 0 {
		for i, s := range h.paySeq {
			if s > cancelSent {
				r.Violate("no-pay-after-cancel", fmt.Sprintf("C15|pay-after-cancel-sent|%s|%s", tag, h.pays[i].Op), det(fmt.Sprintf("pay crossing %+v after the node had sent cancel for this swap", h.pays[i])), traceOf(h.p.w))
			}
		}
	}
	// (e) one refund / claim: once a committed record names the node's own spending transaction, the node hands no
	// further spend of the swap output to the chain (a restart must not repeat it)
	var knownSeq int64
	for i, wr := range h.writes {
		if wr.Err == "" && i < len(h.writeSeq) && bytes.Contains(wr.Bytes, []byte(`"claim_tx_id":"`)) && !bytes.Contains(wr.Bytes, []byte(`"claim_tx_id":""`)) {
			knownSeq = h.writeSeq[i]
			break
		}
	}
	if knownSeq != 0 {
		for i, s := range h.spendTrySeq {
			if s > knownSeq {
				r.Violate("one-refund", fmt.Sprintf("C15|spend-repeated-after-it-was-recorded|%s|%s", tag, h.spendTry[i].Op), det(fmt.Sprintf("the record already named the node's spending transaction, yet another %s spend (%s, chain answer %q) was handed to the chain", h.spendTry[i].Op, h.spendTry[i].TxID, h.spendTry[i].Err)), traceOf(h.p.w))
				break
			}
		}
	}
	// (d) re-sent requests / agreements carry the same parameters
	first := map[int][]byte{}
	for _, m := range h.sends {
		switch m.Type {
		case ref.MsgSwapInRequest, ref.MsgSwapOutRequest, ref.MsgSwapInAgreement, ref.MsgSwapOutAgreement:
			if f, ok := first[m.Type]; !ok {
				first[m.Type] = m.Payload
			} else {
				r.Count("resent_negotiation_messages", 1)
				if !payloadsEqual(f, m.Payload) {
					r.Violate("resend-identical", fmt.Sprintf("C15|resent-message-differs|%s|type=%d", tag, m.Type), det(fmt.Sprintf("first %s\nlater %s", f, m.Payload)), traceOf(h.p.w))
				}
			}
		}
	}
	if len(h.panics) > 0 {
		r.Violate("no-panic", "C15|panic-during-recovery|"+tag, det(h.panics[0]), traceOf(h.p.w))
	}
	r.Count("restarts", h.restarts)
	r.Count("opening_txs", len(h.opensOK))
	r.Count("pay_attempts", len(h.pays))
}

func TestC15(t *testing.T) {
	r := newRun(t, "C15", "fault_enumeration")
	defer r.Finish()
	r.Rule = "crash-point enumeration: honest two-node swaps (4 roles × 2 chains); the victim is killed at every boundary crossing (store write or service call) before and after the effect, restarted through Start+RecoverSwaps, and the peer continues; offline oracle over the history: <=1 funding tx, <=1 settled payment per hash, no pay crossing after a committed SwapCanceled or after the node sent cancel, re-sent request/agreement byte-identical. Extra continuation: the peer's agreement is held back until the initiator's negotiation timer fired and its cancel left, the initiator is killed at the five crossings around that cancel, restarted, then the agreement arrives. distinct = (chain, role, crash op, flavour, final state)"
	r.Assumptions = []string{"a second completion of the same invoice is ultimately prevented by the Lightning node's own de-duplication, which the ledger models (CLN-like personality)", "process crashes only (bbolt NoSync): everything written before the kill is on disk"}
	// in every second crash history the peer repeats its last message when the node is back
	redeliverOdd := func(h *lcHist) { h.redeliver = h.c.crashAt%2 == 1 }
	pts := lcSweep(r, []string{"btc", "lbtc"}, "happy", false, redeliverOdd, func(h *lcHist) { c15Judge(r, h) })
	// maker histories that run into the refund: crash at every crossing, optionally with the peer dying right after,
	// then the drain (blocks past the CSV, restarts): the refund path with all its restarts
	pts += lcSweepRoles(r, []string{"btc", "lbtc"}, true, func(h *lcHist) { c15Judge(r, h) })
	// ... and crashes inside the refund itself: the peer dies right after the maker's announcement, the drain takes
	// the maker through CSV maturity and its refund, and the maker is killed at every crossing of that phase
	{
		type mk struct{ chain, typ, victim string }
		var inRefund []lcCase
		var mu sync.Mutex
		var mks []mk
		for _, ch := range []string{"btc", "lbtc"} {
			mks = append(mks, mk{ch, "in", "alice"}, mk{ch, "out", "bob"})
		}
		record := func(h *lcHist) { h.victim.RecordCrossings = true }
		parallelDo(len(mks), 4, func(i int) {
			m := mks[i]
			c := lcCase{chain: m.chain, typ: m.typ, victim: m.victim, variant: "happy", drain: true}
			base := lcRun(r.Seed*977+int64(i)+700_000, c, nil)
			cut := int64(-1)
			for k, op := range base.ops {
				if op == fmt.Sprintf("msg.send:%d", ref.MsgOpeningTxBroadcast) {
					cut = int64(k + 2)
					break
				}
			}
			base.p.w.Close()
			if cut < 0 {
				return
			}
			c.cutAt = cut
			full := lcRun(r.Seed*977+int64(i)+700_000, c, record)
			r.Eval()
			c15Judge(r, full)
			ops := append([]string(nil), full.victim.CrossOps...)
			full.p.w.Close()
			mu.Lock()
			for k := cut; k < int64(len(ops)); k++ {
				for _, fl := range []string{"before", "after"} {
					cc := c
					cc.crashAt, cc.flavor, cc.name = k+1, fl, ops[k]+"+in-refund"
					inRefund = append(inRefund, cc)
				}
			}
			mu.Unlock()
		})
		parallelDo(len(inRefund), 12, func(i int) {
			c := inRefund[i]
			h := lcRun(r.Seed*977+int64(i)+800_000, c, nil)
			h.c.name = c.name
			r.Eval()
			r.CountIn("crash_points_by_op", c.name)
			c15Judge(r, h)
			h.p.w.Close()
		})
		pts += len(inRefund)
		r.Extra["crash_points_inside_refund"] = len(inRefund)
	}
	// the maker's Lightning node fails the creation of the claim invoice once (a transient error); crash at every
	// crossing of that history
	{
		chains := []string{"btc"}
		if r.Thorough() {
			chains = []string{"btc", "lbtc"}
		}
		pts += lcSweep(r, chains, "claiminvoicefail", false, func(h *lcHist) {
			// the claim invoice is the maker's first invoice in a swap-in and its second (after the fee invoice) in a swap-out
			want, n := 1, 0
			if h.c.typ == "out" {
				want = 2
			}
			var mu sync.Mutex
			h.p.maker().Fault = func(op string) error {
				if op != "ln.getpayreq" {
					return nil
				}
				mu.Lock()
				defer mu.Unlock()
				n++
				if n == want {
					return fmt.Errorf("injected: lightning node temporarily unavailable")
				}
				return nil
			}
		}, func(h *lcHist) { c15Judge(r, h) })
	}
	if r.Thorough() {
		// the same enumeration over other worlds (amounts, keys, funding layouts), and over the histories in which the
		// claim payment fails (cooperative close path) or the claim broadcast fails 30 times
		lcSeedOffset = 1_000_003
		pts += lcSweep(r, []string{"btc", "lbtc"}, "happy", false, nil, func(h *lcHist) { c15Judge(r, h) })
		lcSeedOffset = 2_000_003
		pts += lcSweep(r, []string{"btc", "lbtc"}, "payfail", false, func(h *lcHist) {
			h.p.w.LN.Script = func(payer string, inv *sim.Invoice, n int) sim.Outcome {
				if inv.Type == 1 {
					return sim.OutFail
				}
				return sim.OutSettle
			}
		}, func(h *lcHist) { c15Judge(r, h) })
		lcSeedOffset = 3_000_003
		pts += lcSweep(r, []string{"btc", "lbtc"}, "claimfail", false, func(h *lcHist) {
			tk := h.p.taker()
			n := 0
			tk.Fault = func(op string) error {
				if (op == "btc.preimage" || op == "lbtc.preimage") && n < 30 {
					n++
					return fmt.Errorf("injected: broadcast failed")
				}
				return nil
			}
		}, func(h *lcHist) { c15Judge(r, h) })
		lcSeedOffset = 0
	}
	// continuation "the peer's answer is late": the agreement is held back until the initiator's negotiation timer
	// has fired and it has sent cancel; the initiator is killed around that cancel (every crossing from the timer
	// on), restarted, and only then the agreement arrives
	late := 0
	for ci, ch := range []string{"btc", "lbtc"} {
		for ti, typ := range []string{"out", "in"} {
			run := func(crashAt int64, flavor, name string) *lcHist {
				hold := true
				lc := lcCase{chain: ch, typ: typ, victim: "alice", variant: "late-agreement", crashAt: crashAt, flavor: flavor, name: name}
				return lcRunCustom(r.Seed*733+int64(ci*2+ti)+1, lc, func(h *lcHist) {
					h.victim.RecordCrossings = true
					h.p.w.Sched = func(w *sim.World, it *sim.QView) sim.Decision {
						if hold && it.Kind == "msg" && (it.MsgType == ref.MsgSwapOutAgreement || it.MsgType == ref.MsgSwapInAgreement) {
							return sim.Defer
						}
						return sim.Deliver
					}
				}, func(h *lcHist) {
					h.p.w.Advance(11 * time.Minute)
					h.settle()
					hold = false
					h.settle()
					h.p.mine(2)
					h.settle()
				})
			}
			base := run(0, "", "")
			r.Eval()
			c15Judge(r, base)
			// crossings from the first cancel send backwards/forwards by two
			at := -1
			for k, op := range base.ops {
				if op == fmt.Sprintf("msg.send:%d", ref.MsgCancel) {
					at = k
					break
				}
			}
			base.p.w.Close()
			if at < 0 {
				r.CountIn("late_agreement_without_cancel", ch+"/"+typ)
				continue
			}
			for k := max(0, at-2); k <= min(len(base.ops)-1, at+2); k++ {
				for _, fl := range []string{"before", "after"} {
					h := run(int64(k+1), fl, base.ops[k])
					r.Eval()
					late++
					r.Seen(fmt.Sprintf("%s/%s/late-agreement/crash-%s:%s/final=%s", ch, h.victimRole(), fl, base.ops[k], h.p.state(h.victim)))
					c15Judge(r, h)
					h.p.w.Close()
				}
			}
		}
	}
	r.Extra["late_agreement_histories"] = late
	r.Extra["crash_points_enumerated"] = pts
	r.Extra["exhaustive"] = r.Thorough()
	r.Sample(map[string]any{"case": "btc/out victim=alice crash after btc.preimage", "meaning": "taker killed after its claim tx was accepted by the chain, before the result was stored"})
	rs, _ := r.Extra["restarts"].(int)
	r.Require(pts >= 200 && rs >= pts, fmt.Sprintf("only %d crash points / %d restarts", pts, rs))
}

// ---------------------------------------------------------------------------
// C13

func c13Judge(r *Run, h *lcHist) {
	if h.c.chain != "lbtc" || h.victimIsMaker() {
		return
	}
	tag := fmt.Sprintf("%s|%s:%s", h.victimRole(), h.c.flavor, h.c.name)
	det := func(s string) string { return fmt.Sprintf("%s; case %s", s, h.c) }
	// replay the victim's log in order: store writes, sends, pays
	type ev struct {
		seq  int64
		kind string
		i    int
	}
	var anchor *uint32
	revealed := false
	var last *recView
	evs := h.p.w.Events()
	for _, e := range evs {
		if e.Node != h.victim.Name {
			continue
		}
		switch e.Kind {
		case "store.write":
			x := e.P.(sim.EvStore)
			v := viewRec(x.Bytes)
			if v == nil {
				continue
			}
			last = v
			if anchor != nil && (!v.Data.AnchorSet || v.Data.Anchor != *anchor) {
				r.Violate("anchor-immutable", "C13|anchor-changed|"+tag, det(fmt.Sprintf("anchor was %d, committed record now has set=%v height=%d (state %s)", *anchor, v.Data.AnchorSet, v.Data.Anchor, v.Current)), traceOf(h.p.w))
			}
			if revealed && anchor == nil && v.Data.AnchorSet {
				// anchor appearing only after the reveal
				r.Violate("anchor-before-reveal", "C13|anchor-stored-after-reveal|"+tag, det("anchor first committed after the pubkey was sent"), traceOf(h.p.w))
			}
			if v.Data.AnchorSet && anchor == nil {
				a := v.Data.Anchor
				anchor = &a
			}
		case "msg.send":
			m := e.P.(sim.EvMsg)
			if m.Type == ref.MsgSwapOutRequest || m.Type == ref.MsgSwapInAgreement {
				r.Count("pubkey_reveals_observed", 1)
				if last == nil || !last.Data.AnchorSet {
					r.Violate("anchor-before-reveal", "C13|pubkey-sent-without-committed-anchor|"+tag, det(fmt.Sprintf("message type %d left the node while the last committed record has no anchor", m.Type)), traceOf(h.p.w))
				}
				revealed = true
			}
		case "ln.pay.try":
			p := e.P.(sim.EvPay)
			if p.Op == "rebalance" {
				r.Count("claim_payments_observed", 1)
				if last == nil || !last.Data.AnchorSet {
					r.Violate("no-anchor-no-pay", "C13|paid-without-anchor|"+tag, det("claim payment attempted while the committed record has no anchor"), traceOf(h.p.w))
				}
			}
		}
	}
	r.Seen(fmt.Sprintf("%s/crash-%s:%s/revealed=%v/anchor=%v", h.victimRole(), h.c.flavor, h.c.name, revealed, anchor != nil))
}

func TestC13(t *testing.T) {
	r := newRun(t, "C13", "fault_enumeration")
	defer r.Finish()
	r.Rule = "crash-point enumeration over both Liquid taker roles (swap-out sender, swap-in receiver): victim killed at every store write / service call (before and after the effect), 7 Liquid blocks arrive while it is down, restarted, peer continues and later events are replayed; oracle replays the victim's ordered log of committed records (re-read from bbolt), outgoing messages and payment attempts. Additional histories: Liquid tip moving between creation and sending, height lookup failing. distinct = (role, crash op, flavour, pubkey revealed, anchor committed)"
	r.Assumptions = []string{"committed = what an independent bbolt read transaction returns right after the write"}
	// Liquid blocks keep arriving while the killed taker is down: an anchor that is recomputed on recovery differs
	mineWhileDown := func(h *lcHist) {
		h.whileDown = func(h *lcHist) { h.p.w.LBTC.Mine(7) }
	}
	pts := lcSweep(r, []string{"lbtc"}, "happy", false, mineWhileDown, func(h *lcHist) { c13Judge(r, h) })
	if r.Thorough() {
		// other worlds, and histories in which the claim payment fails (several attempts inside the window)
		for k, off := range []int64{1_000_003, 2_000_003, 3_000_003} {
			lcSeedOffset = off
			setup := mineWhileDown
			variant := "happy"
			if k == 2 {
				variant = "payfail"
				setup = func(h *lcHist) {
					mineWhileDown(h)
					h.p.w.LN.Script = func(payer string, inv *sim.Invoice, n int) sim.Outcome {
						if inv.Type == 1 && n <= 3 {
							return sim.OutFail
						}
						return sim.OutSettle
					}
				}
			}
			pts += lcSweep(r, []string{"lbtc"}, variant, false, setup, func(h *lcHist) { c13Judge(r, h) })
		}
		lcSeedOffset = 0
	}
	// extra histories: height lookup failing at creation => no pubkey may go out; tip moving during negotiation
	for i, v := range []string{"alice", "bob"} {
		for _, mode := range []string{"height-fails", "tip-moves", "backend-falls-behind"} {
			typ := "out"
			if v == "bob" {
				typ = "in"
			}
			c := lcCase{chain: "lbtc", typ: typ, victim: v, variant: mode}
			h := lcRun(r.Seed+int64(7000+i), c, func(h *lcHist) {
				switch mode {
				case "height-fails":
					n := 0
					h.victim.Fault = func(op string) error {
						if op == "lbtc.height" && n == 0 {
							n++
							return fmt.Errorf("injected: rpc timeout")
						}
						return nil
					}
				case "tip-moves":
					h.victim.OnCrossing = func(k int64, op string) {
						if op == "store.write" && k < 12 {
							go h.p.w.LBTC.Mine(1)
						}
					}
				case "backend-falls-behind":
					// after the anchor was taken the Liquid backend reports lower tips for a while (a one-block
					// reorganisation, a fail-over to a node that is still catching up)
					lookups := 0
					h.victim.OnCrossing = func(k int64, op string) {
						if op != "lbtc.height" {
							return
						}
						lookups++
						if inc := h.victim.Inc(); inc != nil && lookups >= 2 && lookups <= 4 {
							base := h.p.w.LBTC.Height()
							drop := uint32(lookups - 1)
							inc.LbtcWat.HeightOverride = func() (uint32, error) { return base - drop, nil }
						} else if inc != nil {
							inc.LbtcWat.HeightOverride = nil
						}
					}
				}
			})
			h.c.name = mode
			r.Eval()
			c13Judge(r, h)
			if mode == "height-fails" {
				for _, m := range h.sends {
					if m.Type == ref.MsgSwapOutRequest || m.Type == ref.MsgSwapInAgreement {
						r.Violate("no-anchor-no-reveal", "C13|pubkey-sent-although-height-lookup-failed|"+h.victimRole(), h.c.String(), traceOf(h.p.w))
					}
				}
				if st := h.p.state(h.victim); st != string(swap.State_SwapCanceled) && st != "" {
					r.CountIn("height_fail_final_state", st)
				}
			}
			h.p.w.Close()
		}
	}
	r.Extra["crash_points_enumerated"] = pts
	rv, _ := r.Extra["pubkey_reveals_observed"].(int)
	cp, _ := r.Extra["claim_payments_observed"].(int)
	r.Sample(map[string]any{"case": "lbtc/in victim=bob crash before msg.send:42073", "meaning": "swap-in receiver killed right before its agreement (pubkey) leaves; anchor must already be committed"})
	r.Require(rv >= 20 && cp >= 10, fmt.Sprintf("observed only %d pubkey reveals and %d claim payments", rv, cp))
}
