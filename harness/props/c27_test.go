package props

import (
	"context"
	"encoding/json"
	"fmt"
	"io"
	"log"
	"math"
	"math/big"
	mrand "math/rand"
	"os"
	"path/filepath"
	"sort"
	"sync"
	"sync/atomic"
	"testing"
	"time"

	"github.com/anishathalye/porcupine"
	"github.com/elementsproject/peerswap/messages"
	"github.com/elementsproject/peerswap/peersync"
	"github.com/elementsproject/peerswap/policy"
	"github.com/elementsproject/peerswap/premium"
	"go.etcd.io/bbolt"
)

// ---------------------------------------------------------------------------
// C27  Premiums follow the configured rate and match what peer-sync advertises
// ---------------------------------------------------------------------------

var c27Peers = []string{
	"02aa00000000000000000000000000000000000000000000000000000000000001",
	"03bb00000000000000000000000000000000000000000000000000000000000002",
	"02cc00000000000000000000000000000000000000000000000000000000000003",
}

// c27Stranger never gets a peer-specific rate.
const c27Stranger = "03dd00000000000000000000000000000000000000000000000000000000000004"

var c27Assets = []premium.AssetType{premium.BTC, premium.LBTC}
var c27Ops = []premium.OperationType{premium.SwapIn, premium.SwapOut}

const c27Million = 1_000_000

// largest amount whose product with any rate in [-10^6,10^6] fits an int64
const c27SafeAmount = uint64(math.MaxInt64 / c27Million) // 9223372036854

var c27BoundaryRates = []int64{c27Million, -c27Million, -c27Million + 1, -2000, -1000, -2, -1, 0, 1, 2, 999, 1000, 2000, 4392, 4393, 10000, c27Million - 1}

var c27BoundaryAmounts = []uint64{
	0, 1, 2, 999, 1000, c27Million - 1, c27Million, c27Million + 1, 100_000_000,
	c27SafeAmount - 1, c27SafeAmount, c27SafeAmount + 1, c27SafeAmount + 2, // ascending, so that the first witness per class is the smallest
	2_100_000_000_000_000, 2_100_000_000_000_001,
	1<<62 - 1, 1 << 62, 1<<63 - 1, 1 << 63, 1<<63 + 1, math.MaxUint64 - 1, math.MaxUint64,
}

// c27Want is the reference: amount × rate / 10^6 truncated toward zero, exact.
func c27Want(amount uint64, rate int64) *big.Int {
	a := new(big.Int).SetUint64(amount)
	a.Mul(a, big.NewInt(rate))
	return a.Quo(a, big.NewInt(c27Million)) // Quo truncates toward zero
}

func c27AmountClass(a uint64) string {
	switch {
	case a <= c27SafeAmount:
		return "amount<=2^63/1e6"
	case a <= 2_100_000_000_000_000:
		return "2^63/1e6<amount<=2.1e15"
	case a < 1<<63:
		return "2.1e15<amount<2^63"
	default:
		return "amount>=2^63"
	}
}

func c27RateClass(rt int64) string {
	switch {
	case rt == 0:
		return "rate=0"
	case rt == c27Million:
		return "rate=+1e6"
	case rt == -c27Million:
		return "rate=-1e6"
	case rt == 1 || rt == -1:
		return fmt.Sprintf("rate=%+d", rt)
	case rt > 0:
		return "rate>0"
	default:
		return "rate<0"
	}
}

// c27Overflows reports whether |amount × rate| needs more than 63 bits.
func c27Overflows(amount uint64, rate int64) bool {
	p := new(big.Int).SetUint64(amount)
	p.Mul(p, big.NewInt(rate))
	return !p.IsInt64()
}

// c27Classify names the cause class of an arithmetic mismatch.
func c27Classify(amount uint64, rate int64, want *big.Int) string {
	ac := c27AmountClass(amount)
	switch {
	case !want.IsInt64():
		return "C27|compute|result-not-representable-in-int64|" + ac
	case amount >= 1<<63:
		return "C27|compute|wraps-int64|" + ac + "|uint64-to-int64-cast-of-amount"
	case c27Overflows(amount, rate):
		return "C27|compute|wraps-int64|" + ac + "|amount*rate>=2^63"
	default:
		return "C27|compute|mismatch-without-overflow|" + ac
	}
}

func c27RandRate(rng *mrand.Rand) int64 {
	switch rng.Intn(4) {
	case 0:
		return c27BoundaryRates[rng.Intn(len(c27BoundaryRates))]
	case 1:
		return int64(rng.Intn(20001)) - 10000
	default:
		return int64(rng.Intn(2*c27Million+1)) - c27Million
	}
}

func c27RandAmount(rng *mrand.Rand) uint64 {
	switch rng.Intn(6) {
	case 0:
		return c27BoundaryAmounts[rng.Intn(len(c27BoundaryAmounts))]
	case 1: // around the overflow border
		return c27SafeAmount - 5000 + uint64(rng.Intn(10000))
	case 2: // realistic swap sizes
		return uint64(rng.Int63n(2_000_000_000))
	case 3: // up to the supply
		return uint64(rng.Int63n(2_100_000_000_000_001))
	default: // log-uniform over all 64 bits
		bits := uint(rng.Intn(65))
		if bits == 0 {
			return 0
		}
		v := rng.Uint64()
		if bits < 64 {
			v &= (1 << bits) - 1
			v |= 1 << (bits - 1)
		}
		return v
	}
}

func c27Open(path string) (*bbolt.DB, *premium.Setting, error) {
	db, err := bbolt.Open(path, 0o600, &bbolt.Options{NoSync: true, Timeout: 5 * time.Second})
	if err != nil {
		return nil, nil, err
	}
	s, err := premium.NewSetting(db)
	if err != nil {
		db.Close()
		return nil, nil, err
	}
	return db, s, nil
}

type c27Key struct {
	peer  int // index in c27Peers; -1 = stored default ("global")
	asset premium.AssetType
	op    premium.OperationType
}

func (k c27Key) String() string {
	who := "default"
	if k.peer >= 0 {
		who = fmt.Sprintf("p%d", k.peer)
	}
	return fmt.Sprintf("%s/%s/%s", who, k.asset, k.op)
}

// c27Model is the reference persistent map.
type c27Model struct {
	m map[c27Key]int64
}

// rate returns the rate the statement selects for (peer, asset, op) and where it came from.
func (m *c27Model) rate(peer int, a premium.AssetType, o premium.OperationType) (int64, string) {
	if peer >= 0 {
		if v, ok := m.m[c27Key{peer, a, o}]; ok {
			return v, "specific"
		}
	}
	if v, ok := m.m[c27Key{-1, a, o}]; ok {
		return v, "global"
	}
	return premium.DefaultPremiumRate[a][o], "builtin"
}

func (m *c27Model) stateClass(peer int, a premium.AssetType, o premium.OperationType) string {
	_, sp := m.m[c27Key{peer, a, o}]
	_, df := m.m[c27Key{-1, a, o}]
	return fmt.Sprintf("spec=%v,glob=%v", sp && peer >= 0, df)
}

// gotClass says which layer an observed value corresponds to (normalised, for signatures).
func (m *c27Model) gotClass(v int64, peer int, a premium.AssetType, o premium.OperationType) string {
	if peer >= 0 {
		if s, ok := m.m[c27Key{peer, a, o}]; ok && s == v {
			return "equals-specific"
		}
	}
	if s, ok := m.m[c27Key{-1, a, o}]; ok && s == v {
		return "equals-global"
	}
	if premium.DefaultPremiumRate[a][o] == v {
		return "equals-builtin"
	}
	for k, s := range m.m {
		if s == v && k.asset == a && k.op == o {
			return "equals-other-peer-same-asset-op"
		}
	}
	for _, s := range m.m {
		if s == v {
			return "equals-other-key"
		}
	}
	return "equals-nothing-stored"
}

func c27PeerName(i int) string {
	if i < 0 {
		return "default"
	}
	return c27Peers[i]
}

// c27CheckGet checks one GetRate/GetDefaultRate observation against the model.
func c27CheckGet(r *Run, s *premium.Setting, m *c27Model, peer int, a premium.AssetType, o premium.OperationType, phase string, hist *[]string) bool {
	var (
		pr  *premium.PremiumRate
		err error
	)
	call := "GetRate"
	if peer < 0 {
		call = "GetDefaultRate"
		pr, err = s.GetDefaultRate(a, o)
	} else {
		pr, err = s.GetRate(c27Peers[peer], a, o)
	}
	want, src := m.rate(peer, a, o)
	st := m.stateClass(peer, a, o)
	if err != nil || pr == nil || pr.PremiumRatePPM() == nil {
		r.Violate("persistent-map", fmt.Sprintf("C27|map|%s|%s-fails|%s", phase, call, st),
			fmt.Sprintf("%s(%s,%s,%s) -> err=%v rate=%v; model says %d (%s); history=%v", call, c27PeerName(peer), a, o, err, pr, want, src, c27Tail(*hist)), nil)
		return false
	}
	got := pr.PremiumRatePPM().Value()
	if got != want {
		r.Violate("persistent-map", fmt.Sprintf("C27|map|%s|%s-wrong-value|%s|want-%s|got-%s", phase, call, st, src, m.gotClass(got, peer, a, o)),
			fmt.Sprintf("%s(%s,%s,%s) = %d, model says %d (%s); history=%v", call, c27PeerName(peer), a, o, got, want, src, c27Tail(*hist)), nil)
		return false
	}
	if pr.Asset() != a || pr.Operation() != o {
		r.Violate("persistent-map", fmt.Sprintf("C27|map|%s|%s-wrong-asset-or-op", phase, call),
			fmt.Sprintf("%s(%s,%s,%s) returned a rate labelled %s/%s", call, c27PeerName(peer), a, o, pr.Asset(), pr.Operation()), nil)
		return false
	}
	return true
}

func c27Tail(h []string) []string {
	if len(h) > 25 {
		return h[len(h)-25:]
	}
	return h
}

// c27Sweep compares every key of the small universe with the model.
func c27Sweep(r *Run, s *premium.Setting, m *c27Model, phase string, hist *[]string) bool {
	ok := true
	for p := -1; p < len(c27Peers); p++ {
		for _, a := range c27Assets {
			for _, o := range c27Ops {
				if !c27CheckGet(r, s, m, p, a, o, phase, hist) {
					ok = false
				}
			}
		}
	}
	return ok
}

// --------------------------- (a) arithmetic ---------------------------------

func c27Arithmetic(r *Run, rng *mrand.Rand) {
	check := func(amount uint64, rate int64) {
		r.Eval()
		got := premium.NewPPM(rate).Compute(amount)
		want := c27Want(amount, rate)
		// a result outside int64 cannot be returned by the API at all: such inputs are outside the
		// oracle's domain (any return value is accepted, it is only counted)
		ok := !want.IsInt64() || want.Int64() == got
		if !want.IsInt64() {
			r.Count("results_not_representable_in_int64_skipped", 1)
		}
		ov := "fits"
		if c27Overflows(amount, rate) {
			ov = "product>=2^63"
		}
		res := "ok"
		if !ok {
			res = "mismatch"
		}
		r.Seen(fmt.Sprintf("ppm.Compute/%s/%s/%s/%s", c27AmountClass(amount), c27RateClass(rate), ov, res))
		if !ok {
			r.Violate("arithmetic", c27Classify(amount, rate, want),
				fmt.Sprintf("premium.NewPPM(%d).Compute(%d) = %d, exact trunc(amount*rate/1e6) = %s", rate, amount, got, want.String()), nil)
		}
	}
	for _, a := range c27BoundaryAmounts {
		for _, rt := range c27BoundaryRates {
			check(a, rt)
		}
	}
	n := r.N(60000, 2000000)
	for i := 0; i < n; i++ {
		check(c27RandAmount(rng), c27RandRate(rng))
	}
	r.Sample(map[string]any{"part": "a", "call": "NewPPM(2000).Compute(1000000)", "got": premium.NewPPM(2000).Compute(1000000), "want": c27Want(1000000, 2000).String()})
	r.Sample(map[string]any{"part": "a", "call": "NewPPM(-1).Compute(999999)", "got": premium.NewPPM(-1).Compute(999999), "want": c27Want(999999, -1).String()})
}

// ---------------------- (b) sequential persistent map -----------------------

func c27Sequences(t *testing.T, r *Run, rng *mrand.Rand) {
	dir := t.TempDir()
	nSeq := r.N(300, 9000)
	ctx := context.Background()
	reopens := 0
	for si := 0; si < nSeq; si++ {
		path := filepath.Join(dir, fmt.Sprintf("premium-%d.db", si))
		db, s, err := c27Open(path)
		if err != nil {
			r.Inconclusive("cannot open premium db: " + err.Error())
			return
		}
		m := &c27Model{m: map[c27Key]int64{}}
		var hist []string
		nOps := 10 + rng.Intn(51)
		// a few sequences concentrate on one (asset, op) so that layers interact often
		focus := rng.Intn(3) == 0
		fa, fo := c27Assets[rng.Intn(2)], c27Ops[rng.Intn(2)]
		pick := func() (int, premium.AssetType, premium.OperationType) {
			p := rng.Intn(len(c27Peers))
			if focus {
				return p, fa, fo
			}
			return p, c27Assets[rng.Intn(2)], c27Ops[rng.Intn(2)]
		}
		broken := false
		for oi := 0; oi < nOps && !broken; oi++ {
			r.Eval()
			p, a, o := pick()
			x := rng.Intn(100)
			switch {
			case x < 24: // SetRate
				v := c27RandRate(rng)
				_, had := m.m[c27Key{p, a, o}]
				hist = append(hist, fmt.Sprintf("SetRate(p%d,%s,%s,%d)", p, a, o, v))
				pr, err := premium.NewPremiumRate(a, o, premium.NewPPM(v))
				if err == nil {
					err = s.SetRate(ctx, c27Peers[p], pr)
				}
				if err != nil {
					r.Violate("persistent-map", "C27|map|SetRate-fails", fmt.Sprintf("SetRate error %v; history=%v", err, c27Tail(hist)), nil)
					broken = true
					break
				}
				m.m[c27Key{p, a, o}] = v
				r.Seen(fmt.Sprintf("set/overwrite=%v/%s/%s", had, m.stateClass(p, a, o), c27RateClass(v)))
				c27Sweep(r, s, m, "after-SetRate", &hist)
			case x < 36: // DeleteRate
				_, had := m.m[c27Key{p, a, o}]
				hist = append(hist, fmt.Sprintf("DeleteRate(p%d,%s,%s)", p, a, o))
				if err := s.DeleteRate(ctx, c27Peers[p], a, o); err != nil {
					r.Violate("persistent-map", fmt.Sprintf("C27|map|DeleteRate-fails|present=%v", had), fmt.Sprintf("DeleteRate error %v; history=%v", err, c27Tail(hist)), nil)
					broken = true
					break
				}
				delete(m.m, c27Key{p, a, o})
				_, src := m.rate(p, a, o)
				r.Seen(fmt.Sprintf("delete/present=%v/falls-back-to-%s", had, src))
				c27Sweep(r, s, m, "after-DeleteRate", &hist)
			case x < 47: // SetDefaultRate
				v := c27RandRate(rng)
				_, had := m.m[c27Key{-1, a, o}]
				hist = append(hist, fmt.Sprintf("SetDefaultRate(%s,%s,%d)", a, o, v))
				pr, err := premium.NewPremiumRate(a, o, premium.NewPPM(v))
				if err == nil {
					err = s.SetDefaultRate(ctx, pr)
				}
				if err != nil {
					r.Violate("persistent-map", "C27|map|SetDefaultRate-fails", fmt.Sprintf("SetDefaultRate error %v; history=%v", err, c27Tail(hist)), nil)
					broken = true
					break
				}
				m.m[c27Key{-1, a, o}] = v
				nspec := 0
				for q := range c27Peers {
					if _, ok := m.m[c27Key{q, a, o}]; ok {
						nspec++
					}
				}
				r.Seen(fmt.Sprintf("setdefault/overwrite=%v/peers-with-specific=%d/%s", had, nspec, c27RateClass(v)))
				c27Sweep(r, s, m, "after-SetDefaultRate", &hist)
			case x < 64: // GetRate
				_, src := m.rate(p, a, o)
				hist = append(hist, fmt.Sprintf("GetRate(p%d,%s,%s)", p, a, o))
				ok := c27CheckGet(r, s, m, p, a, o, "get", &hist)
				r.Seen(fmt.Sprintf("get/%s/from-%s/ok=%v", m.stateClass(p, a, o), src, ok))
			case x < 72: // GetDefaultRate
				_, src := m.rate(-1, a, o)
				hist = append(hist, fmt.Sprintf("GetDefaultRate(%s,%s)", a, o))
				ok := c27CheckGet(r, s, m, -1, a, o, "get", &hist)
				r.Seen(fmt.Sprintf("getdefault/from-%s/ok=%v", src, ok))
			case x < 90: // Compute through the setting
				amt := c27RandAmount(rng)
				rate, src := m.rate(p, a, o)
				hist = append(hist, fmt.Sprintf("Compute(p%d,%s,%s,%d)", p, a, o, amt))
				got, err := s.Compute(c27Peers[p], a, o, amt)
				want := c27Want(amt, rate)
				if err != nil {
					r.Violate("arithmetic", "C27|compute|Setting.Compute-fails|"+m.stateClass(p, a, o),
						fmt.Sprintf("Compute(%s,%s,%s,%d) error %v; history=%v", c27Peers[p], a, o, amt, err, c27Tail(hist)), nil)
					break
				}
				ok := !want.IsInt64() || want.Int64() == got
				r.Seen(fmt.Sprintf("compute/from-%s/%s/%s/ok=%v", src, c27AmountClass(amt), c27RateClass(rate), ok))
				if !ok {
					// Same arithmetic as PPM.Compute with the right rate => arithmetic cause; otherwise the
					// setting used some other rate.
					if premium.NewPPM(rate).Compute(amt) == got {
						r.Violate("arithmetic", c27Classify(amt, rate, want),
							fmt.Sprintf("Setting.Compute(%s,%s,%s,%d) = %d with rate %d (%s); exact = %s", c27Peers[p], a, o, amt, got, rate, src, want.String()), nil)
					} else {
						r.Violate("rate-selection", fmt.Sprintf("C27|compute|setting-used-another-rate|%s|want-%s", m.stateClass(p, a, o), src),
							fmt.Sprintf("Setting.Compute(%s,%s,%s,%d) = %d; model rate %d (%s) gives %s; history=%v", c27Peers[p], a, o, amt, got, rate, src, want.String(), c27Tail(hist)), nil)
					}
				}
			default: // reopen
				hist = append(hist, "reopen")
				if err := db.Close(); err != nil {
					r.Violate("persistent-map", "C27|map|close-fails", err.Error(), nil)
					broken = true
					break
				}
				db, s, err = c27Open(path)
				if err != nil {
					r.Violate("persistent-map", "C27|map|reopen-fails", fmt.Sprintf("%v; history=%v", err, c27Tail(hist)), nil)
					broken = true
					db = nil
					break
				}
				reopens++
				nk := len(m.m)
				cls := "0"
				switch {
				case nk > 8:
					cls = ">8"
				case nk > 3:
					cls = "4-8"
				case nk > 0:
					cls = "1-3"
				}
				ok := c27Sweep(r, s, m, "after-reopen", &hist)
				r.Seen(fmt.Sprintf("reopen/stored-keys=%s/identical=%v", cls, ok))
			}
		}
		if db != nil {
			if !broken {
				// final: close, reopen, everything identical
				db.Close()
				db, s, err = c27Open(path)
				if err != nil {
					r.Violate("persistent-map", "C27|map|reopen-fails", err.Error(), nil)
				} else {
					reopens++
					c27Sweep(r, s, m, "after-reopen", &hist)
				}
			}
			if db != nil {
				db.Close()
			}
		}
		if si < 2 {
			r.Sample(map[string]any{"part": "b", "sequence": c27Tail(hist), "final_model_keys": len(m.m)})
		}
		os.Remove(path)
	}
	r.Count("b_sequences", nSeq)
	r.Count("b_reopens", reopens)
}

// ---------------------- (b') concurrent persistent map ----------------------

type c27In struct {
	op  int // 0 set, 1 get, 2 delete
	key int
	val int64
}
type c27Out struct {
	val int64
	err bool
}

const c27Absent = math.MinInt64

type c27ConcKey struct {
	peer  int // -1 default
	asset premium.AssetType
	op    premium.OperationType
}

// peer keys and default keys use different (asset, op) pairs so that each key is an
// independent register (GetRate of an absent peer key falls back to the built-in value only).
var c27ConcKeys = []c27ConcKey{
	{0, premium.BTC, premium.SwapIn},
	{0, premium.BTC, premium.SwapOut},
	{1, premium.BTC, premium.SwapIn},
	{1, premium.BTC, premium.SwapOut},
	{-1, premium.LBTC, premium.SwapIn},
	{-1, premium.LBTC, premium.SwapOut},
}

func c27ConcModel() porcupine.Model {
	return porcupine.Model{
		Partition: func(history []porcupine.Operation) [][]porcupine.Operation {
			by := map[int][]porcupine.Operation{}
			for _, op := range history {
				k := op.Input.(c27In).key
				by[k] = append(by[k], op)
			}
			keys := make([]int, 0, len(by))
			for k := range by {
				keys = append(keys, k)
			}
			sort.Ints(keys)
			out := make([][]porcupine.Operation, 0, len(keys))
			for _, k := range keys {
				out = append(out, by[k])
			}
			return out
		},
		Init: func() interface{} { return int64(c27Absent) },
		Step: func(state, input, output interface{}) (bool, interface{}) {
			st := state.(int64)
			in := input.(c27In)
			out := output.(c27Out)
			switch in.op {
			case 0:
				return !out.err, in.val
			case 2:
				return !out.err, int64(c27Absent)
			default:
				want := st
				if st == c27Absent {
					k := c27ConcKeys[in.key]
					want = premium.DefaultPremiumRate[k.asset][k.op]
				}
				return !out.err && out.val == want, st
			}
		},
		Equal: func(a, b interface{}) bool { return a.(int64) == b.(int64) },
		DescribeOperation: func(input, output interface{}) string {
			in := input.(c27In)
			out := output.(c27Out)
			return fmt.Sprintf("%s key%d val=%d -> %d err=%v", [...]string{"set", "get", "delete"}[in.op], in.key, in.val, out.val, out.err)
		},
	}
}

func c27Concurrent(t *testing.T, r *Run, rng *mrand.Rand) {
	dir := t.TempDir()
	rounds := r.N(30, 1200)
	const workers = 8
	opsPer := 30
	ctx := context.Background()
	model := c27ConcModel()
	totalOps := 0
	overlapping := 0
	for ri := 0; ri < rounds; ri++ {
		path := filepath.Join(dir, fmt.Sprintf("conc-%d.db", ri))
		db, s, err := c27Open(path)
		if err != nil {
			r.Inconclusive("cannot open premium db: " + err.Error())
			return
		}
		// plans are fixed by the seed; only the interleaving is up to the scheduler
		nKeys := 2 + rng.Intn(len(c27ConcKeys)-1)
		plans := make([][]c27In, workers)
		next := int64(3000)
		for w := range plans {
			for i := 0; i < opsPer; i++ {
				k := rng.Intn(nKeys)
				if nKeys < len(c27ConcKeys) && rng.Intn(4) == 0 {
					k = len(c27ConcKeys) - 1 - rng.Intn(2) // make sure default keys take part
				}
				in := c27In{key: k}
				x := rng.Intn(10)
				isDefault := c27ConcKeys[k].peer < 0
				switch {
				case x < 4:
					in.op = 0
					next++
					in.val = next
				case x < 8 || isDefault:
					in.op = 1
				default:
					in.op = 2
				}
				plans[w] = append(plans[w], in)
			}
		}
		var clock int64
		hists := make([][]porcupine.Operation, workers)
		var wg sync.WaitGroup
		start := make(chan struct{})
		for w := 0; w < workers; w++ {
			wg.Add(1)
			go func(w int) {
				defer wg.Done()
				<-start
				for _, in := range plans[w] {
					k := c27ConcKeys[in.key]
					var out c27Out
					call := atomic.AddInt64(&clock, 1)
					switch in.op {
					case 0:
						pr, err := premium.NewPremiumRate(k.asset, k.op, premium.NewPPM(in.val))
						if err == nil {
							if k.peer < 0 {
								err = s.SetDefaultRate(ctx, pr)
							} else {
								err = s.SetRate(ctx, c27Peers[k.peer], pr)
							}
						}
						out.err = err != nil
					case 1:
						var pr *premium.PremiumRate
						var err error
						if k.peer < 0 {
							pr, err = s.GetDefaultRate(k.asset, k.op)
						} else {
							pr, err = s.GetRate(c27Peers[k.peer], k.asset, k.op)
						}
						if err != nil || pr == nil {
							out.err = true
						} else {
							out.val = pr.PremiumRatePPM().Value()
						}
					case 2:
						out.err = s.DeleteRate(ctx, c27Peers[k.peer], k.asset, k.op) != nil
					}
					ret := atomic.AddInt64(&clock, 1)
					hists[w] = append(hists[w], porcupine.Operation{ClientId: w, Input: in, Call: call, Output: out, Return: ret})
				}
			}(w)
		}
		close(start)
		wg.Wait()
		var history []porcupine.Operation
		for _, h := range hists {
			history = append(history, h...)
		}
		totalOps += len(history)
		// how concurrent was it really: count operations that overlap another client's operation
		sorted := append([]porcupine.Operation(nil), history...)
		sort.Slice(sorted, func(i, j int) bool { return sorted[i].Call < sorted[j].Call })
		maxRet := int64(0)
		ov := 0
		for _, op := range sorted {
			if op.Call < maxRet {
				ov++
			}
			if op.Return > maxRet {
				maxRet = op.Return
			}
		}
		overlapping += ov
		r.Eval()
		res := porcupine.CheckOperationsTimeout(model, history, 20*time.Second)
		ovc := "none"
		switch {
		case ov > len(history)/4:
			ovc = ">25%"
		case ov > 0:
			ovc = "some"
		}
		r.Seen(fmt.Sprintf("concurrent/keys=%d/overlap=%s/%v", nKeys, ovc, res))
		switch res {
		case porcupine.Illegal:
			// find the offending partition for a normalised signature
			kind := "?"
			detail := ""
			for _, part := range model.Partition(history) {
				if porcupine.CheckOperationsTimeout(model, part, 20*time.Second) == porcupine.Illegal {
					k := c27ConcKeys[part[0].Input.(c27In).key]
					if k.peer < 0 {
						kind = "default-key"
					} else {
						kind = "peer-key"
					}
					sort.Slice(part, func(i, j int) bool { return part[i].Call < part[j].Call })
					for i, op := range part {
						if i > 40 {
							break
						}
						detail += fmt.Sprintf("[c%d %d..%d %s] ", op.ClientId, op.Call, op.Return, model.DescribeOperation(op.Input, op.Output))
					}
					break
				}
			}
			r.Violate("persistent-map-concurrent", "C27|map|concurrent|not-linearizable|"+kind, "history of the offending key: "+detail, nil)
		case porcupine.Unknown:
			r.Inconclusive("porcupine timed out on a concurrent premium-map history")
		}
		// after the dust settles the stored values must survive a reopen
		final := map[int]int64{}
		for ki, k := range c27ConcKeys {
			var pr *premium.PremiumRate
			if k.peer < 0 {
				pr, _ = s.GetDefaultRate(k.asset, k.op)
			} else {
				pr, _ = s.GetRate(c27Peers[k.peer], k.asset, k.op)
			}
			if pr != nil {
				final[ki] = pr.PremiumRatePPM().Value()
			}
		}
		db.Close()
		db, s, err = c27Open(path)
		if err != nil {
			r.Violate("persistent-map", "C27|map|reopen-fails", err.Error(), nil)
		} else {
			for ki, k := range c27ConcKeys {
				var pr *premium.PremiumRate
				if k.peer < 0 {
					pr, _ = s.GetDefaultRate(k.asset, k.op)
				} else {
					pr, _ = s.GetRate(c27Peers[k.peer], k.asset, k.op)
				}
				if pr == nil || pr.PremiumRatePPM().Value() != final[ki] {
					r.Violate("persistent-map", "C27|map|after-reopen|value-differs-after-concurrent-phase", fmt.Sprintf("key %v before=%d after=%v", k, final[ki], pr), nil)
				}
			}
			db.Close()
		}
		os.Remove(path)
	}
	r.Count("b_concurrent_rounds", rounds)
	r.Count("b_concurrent_operations", totalOps)
	r.Count("b_concurrent_overlapping_operations", overlapping)
	r.Require(overlapping > 0, "no overlapping operations in the concurrent premium-map phase")
}

// ------------------------ (c) advertised rates ------------------------------

type c27Sent struct {
	to      string
	typ     messages.MessageType
	payload []byte
}

type c27LN struct {
	mu        sync.Mutex
	connected []peersync.PeerID
	sends     []c27Sent
	ch        chan peersync.CustomMessage
}

func (l *c27LN) SendCustomMessage(ctx context.Context, to peersync.PeerID, t messages.MessageType, payload []byte) error {
	l.mu.Lock()
	l.sends = append(l.sends, c27Sent{to.String(), t, append([]byte(nil), payload...)})
	l.mu.Unlock()
	return nil
}
func (l *c27LN) SubscribeCustomMessages(ctx context.Context) (<-chan peersync.CustomMessage, error) {
	return l.ch, nil
}
func (l *c27LN) Stop() error { return nil }
func (l *c27LN) ListPeers(ctx context.Context) ([]peersync.PeerID, error) {
	l.mu.Lock()
	defer l.mu.Unlock()
	return append([]peersync.PeerID(nil), l.connected...), nil
}
func (l *c27LN) take() []c27Sent {
	l.mu.Lock()
	defer l.mu.Unlock()
	s := l.sends
	l.sends = nil
	return s
}

// c27Wire is the poll / request_poll payload as it travels (field names of the wire format).
type c27Wire struct {
	Version uint64   `json:"version"`
	Assets  []string `json:"assets"`
	Allowed bool     `json:"peer_allowed"`
	BtcIn   int64    `json:"btc_swap_in_premium_rate_ppm"`
	BtcOut  int64    `json:"btc_swap_out_premium_rate_ppm"`
	LbtcIn  int64    `json:"lbtc_swap_in_premium_rate_ppm"`
	LbtcOut int64    `json:"lbtc_swap_out_premium_rate_ppm"`
}

func c27Advertised(t *testing.T, r *Run, rng *mrand.Rand) {
	dir := t.TempDir()
	batches := r.N(20, 600)
	iters := 40
	ctx := context.Background()
	all := append(append([]string(nil), c27Peers...), c27Stranger)
	polls := 0
	for bi := 0; bi < batches; bi++ {
		ppath := filepath.Join(dir, fmt.Sprintf("adv-premium-%d.db", bi))
		spath := filepath.Join(dir, fmt.Sprintf("adv-peers-%d.db", bi))
		db, setting, err := c27Open(ppath)
		if err != nil {
			r.Inconclusive("cannot open premium db: " + err.Error())
			return
		}
		store, err := peersync.NewStore(spath)
		if err != nil {
			db.Close()
			r.Inconclusive("cannot open peersync store: " + err.Error())
			return
		}
		ln := &c27LN{ch: make(chan peersync.CustomMessage)}
		nodeID, _ := peersync.NewPeerID("02ee00000000000000000000000000000000000000000000000000000000000009")
		pol := policy.DefaultPolicy()
		if bi%2 == 1 {
			pol.AcceptAllPeers = true
		}
		ps := peersync.NewPeerSync(nodeID, store, ln, pol, []string{"btc", "lbtc"}, setting)
		var hist []string
		specific := map[string]bool{}
		global := map[string]bool{}
		for it := 0; it < iters; it++ {
			// mutate the rate table
			for k := rng.Intn(4); k > 0; k-- {
				p := c27Peers[rng.Intn(len(c27Peers))]
				a, o := c27Assets[rng.Intn(2)], c27Ops[rng.Intn(2)]
				v := c27RandRate(rng)
				pr, _ := premium.NewPremiumRate(a, o, premium.NewPPM(v))
				switch rng.Intn(4) {
				case 0:
					setting.DeleteRate(ctx, p, a, o)
					delete(specific, fmt.Sprintf("%s/%s/%s", p, a, o))
					hist = append(hist, fmt.Sprintf("DeleteRate(%s..,%s,%s)", p[:4], a, o))
				case 1:
					setting.SetDefaultRate(ctx, pr)
					global[fmt.Sprintf("%s/%s", a, o)] = true
					hist = append(hist, fmt.Sprintf("SetDefaultRate(%s,%s,%d)", a, o, v))
				default:
					setting.SetRate(ctx, p, pr)
					specific[fmt.Sprintf("%s/%s/%s", p, a, o)] = true
					hist = append(hist, fmt.Sprintf("SetRate(%s..,%s,%s,%d)", p[:4], a, o, v))
				}
			}
			// connectivity
			ln.mu.Lock()
			ln.connected = nil
			for _, p := range all {
				if rng.Intn(2) == 0 {
					id, _ := peersync.NewPeerID(p)
					ln.connected = append(ln.connected, id)
				}
			}
			ln.mu.Unlock()
			// trigger a send through the real code
			target := all[rng.Intn(len(all))]
			tid, _ := peersync.NewPeerID(target)
			trigger := ""
			switch rng.Intn(5) {
			case 0:
				trigger = "RequestPoll"
				if err := ps.RequestPoll(ctx, tid); err != nil {
					r.Violate("advertised", "C27|advertise|RequestPoll-fails", err.Error(), nil)
				}
			case 1:
				trigger = "inbound-request_poll"
				in := c27Wire{Version: 7, Assets: []string{"BTC", "LBTC"}, Allowed: true, BtcOut: 2000, LbtcOut: 1000}
				b, _ := json.Marshal(in)
				ps.VerifProcessMessage(ctx, peersync.CustomMessage{From: tid, Type: messages.MESSAGETYPE_REQUEST_POLL, Payload: b})
			case 2:
				trigger = "inbound-poll-then-ForcePollAllPeers"
				in := c27Wire{Version: 7, Assets: []string{"BTC", "LBTC"}, Allowed: true}
				b, _ := json.Marshal(in)
				ps.VerifProcessMessage(ctx, peersync.CustomMessage{From: tid, Type: messages.MESSAGETYPE_POLL, Payload: b})
				ps.ForcePollAllPeers(ctx)
			case 3:
				trigger = "ForcePollAllPeers"
				ps.ForcePollAllPeers(ctx)
			default:
				trigger = "PollAllPeers"
				ps.PollAllPeers(ctx)
			}
			hist = append(hist, trigger+"("+target[:4]+"..)")
			for _, snt := range ln.take() {
				r.Eval()
				polls++
				var w c27Wire
				if err := json.Unmarshal(snt.payload, &w); err != nil {
					r.Violate("advertised", "C27|advertise|payload-not-json", fmt.Sprintf("%s: %q: %v", trigger, snt.payload, err), nil)
					continue
				}
				got := map[string]int64{"BTC/SWAP_IN": w.BtcIn, "BTC/SWAP_OUT": w.BtcOut, "LBTC/SWAP_IN": w.LbtcIn, "LBTC/SWAP_OUT": w.LbtcOut}
				nSpec, nGlob := 0, 0
				for _, a := range c27Assets {
					for _, o := range c27Ops {
						pr, err := setting.GetRate(snt.to, a, o)
						if err != nil || pr == nil {
							r.Violate("advertised", "C27|advertise|GetRate-fails", fmt.Sprintf("GetRate(%s,%s,%s): %v", snt.to, a, o, err), nil)
							continue
						}
						want := pr.PremiumRatePPM().Value()
						src := "builtin"
						if specific[fmt.Sprintf("%s/%s/%s", snt.to, a, o)] {
							src = "specific"
							nSpec++
						} else if global[fmt.Sprintf("%s/%s", a, o)] {
							src = "global"
							nGlob++
						}
						g := got[a.String()+"/"+o.String()]
						if g != want {
							other := "unrelated-value"
							for k2, v2 := range got {
								if v2 == want && k2 != a.String()+"/"+o.String() {
									other = "value-appears-in-field-" + k2
								}
							}
							if g == premium.DefaultPremiumRate[a][o] {
								other = "builtin-default-advertised"
							}
							r.Violate("advertised", fmt.Sprintf("C27|advertise|%s/%s-differs-from-GetRate|charged-rate-is-%s|%s", a, o, src, other),
								fmt.Sprintf("%s message to %s (trigger %s) advertises %s/%s = %d but Setting.GetRate gives %d (%s); payload=%s; history=%v",
									messages.MessageTypeToHexString(snt.typ), snt.to, trigger, a, o, g, want, src, snt.payload, c27Tail(hist)), nil)
						}
					}
				}
				mt := "poll"
				if snt.typ == messages.MESSAGETYPE_REQUEST_POLL {
					mt = "request_poll"
				}
				r.Seen(fmt.Sprintf("advertise/%s/%s/specific=%d,global=%d", trigger, mt, nSpec, nGlob))
				if polls <= 2 {
					r.Sample(map[string]any{"part": "c", "to": snt.to, "type": mt, "payload": string(snt.payload)})
				}
			}
		}
		store.Close()
		db.Close()
		os.Remove(ppath)
		os.Remove(spath)
	}
	r.Count("c_poll_payloads_checked", polls)
	r.Require(polls > 100, "too few poll payloads captured")
}

func TestC27(t *testing.T) {
	r := newRun(t, "C27", "exploration")
	defer r.Finish()
	r.Rule = "(a) premium.NewPPM(rate).Compute(amount) and Setting.Compute(peer,asset,op,amount) vs exact trunc(amount*rate/1e6) in math/big, rate chosen by the model peer-specific -> stored global -> premium.DefaultPremiumRate; boundary amounts x boundary rates exhaustively plus random (rates in [-1e6,1e6], amounts over all of uint64); " +
		"(b) model map over (peer|default, asset, op) under SetRate/DeleteRate/SetDefaultRate/GetRate/GetDefaultRate/Compute/reopen sequences of 10..60 ops on 3 peers x 2 assets x 2 ops with a full 16-key sweep after every mutation and every reopen; concurrent variant: 8 goroutines, call/return stamps from one atomic counter, porcupine register model partitioned by key; " +
		"(c) every poll/request_poll payload captured at a fake peersync.Lightning (triggers: RequestPoll, inbound request_poll, PollAllPeers, ForcePollAllPeers on a real PeerSync with the real guard and Setting) must carry the four rates Setting.GetRate(recipient, asset, op). " +
		"distinct = op kind x layer state (specific/global set) x source of the expected rate x amount/rate class x outcome"
	r.Rule += " (d) the premium a real responder node writes into its swap_in_agreement / swap_out_agreement for every (asset, direction) under the layer sequences {built-in, stored global (changed, zero, changed again), peer-specific (non-zero, zero, negative, removed)} = trunc(amount * selected rate / 10^6), the rate selected by the harness from the table it wrote (built-in values as documented)."
	r.Assumptions = []string{
		"the built-in default is the table premium.DefaultPremiumRate",
		"peer ids are node public keys (66 hex characters); the literal id \"default\" is not a peer",
		"rates are set within [-10^6, 10^6] ppm as the quantifier says; amounts range over all of uint64 because Compute takes a uint64",
		"wire field names of the poll payload are those of peersync.PeerCapabilitySnapshot's JSON tags",
	}
	prevLog := log.Writer() // peersync uses the standard logger
	log.SetOutput(io.Discard)
	defer log.SetOutput(prevLog)
	rng := mrand.New(mrand.NewSource(r.Seed + 27))
	c27Arithmetic(r, rng)
	c27Sequences(t, r, rng)
	c27Concurrent(t, r, rng)
	c27Advertised(t, r, rng)
	// (d) the premium a real responder node writes into its agreements, for every (asset, direction) and every layer
	parallelDo(r.N(3, 60), 8, func(i int) { runResponderPremium(r, "C27|agreement-premium-differs", r.Seed*439+int64(i)+1) })
	if a, _ := r.Extra["responder_premium_agreements"].(int); a < 20 {
		r.Inconclusive(fmt.Sprintf("only %d responder agreements judged", a))
	}
	r.Require(r.Evaluations > 10000, "too few evaluations")
}
