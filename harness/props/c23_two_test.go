package props

import (
	"encoding/json"
	"fmt"
	mrand "math/rand"
	"time"

	"github.com/btcsuite/btcd/btcec/v2"
	"github.com/elementsproject/peerswap/swap"

	"verifharness/ref"
	"verifharness/sim"
)

// runC23TwoRoles: one real node in two swaps at once, in opposite roles and with different peers, while its
// retransmitter is running (interval 5 ms instead of 10 s):
//
//	swap A: the node is maker for peer X, has announced its opening transaction and keeps re-sending the
//	        announcement because X stays silent;
//	swap B: the node is taker for peer Y, Y's opening transaction confirms, the claim payment fails for good and the
//	        node sends coop_close with its swap key for B to Y.
//
// Every message the node sends (first copies and retransmissions) is scanned; the only place where a key of the
// node may appear is the privkey field of the coop_close of swap B.
func runC23TwoRoles(r *Run, seed int64, chainA, chainB string) {
	rng := mrand.New(mrand.NewSource(seed))
	w := sim.NewWorld(seed)
	defer w.Close()
	node := w.AddNode("alice", sim.DefaultNodeConfig())
	x := w.AddPeer("xenia")
	y := w.AddPeer("yuri")
	w.LN.OpenChannel("100x1x0", node.ID, x.ID, 5_000_000_000, 5_000_000_000)
	w.LN.OpenChannel("200x1x0", node.ID, y.ID, 5_000_000_000, 5_000_000_000)
	if node.Start() != nil {
		r.Inconclusive("start")
		return
	}
	w.LN.Script = func(payer string, inv *sim.Invoice, n int) sim.Outcome {
		if inv.Type == 1 && inv.Payee == y.ID {
			return sim.OutFail // the claim payment of swap B never succeeds
		}
		return sim.OutSettle
	}
	assetOf := func(ch string) (string, string) {
		if ch == "lbtc" {
			return hx(sim.PolicyAsset()), ""
		}
		return "", sim.BtcParams.Name
	}
	// ---- swap A: alice is maker (swap-out receiver) for X
	xKey, _ := btcec.NewPrivateKey()
	idA := swap.NewSwapId()
	assetA, netA := assetOf(chainA)
	x.Send("alice", ref.MsgSwapOutRequest, &swap.SwapOutRequestMessage{ProtocolVersion: 7, SwapId: idA, Asset: assetA, Network: netA, Scid: "100x1x0", Amount: uint64(300_000 + rng.Intn(100_000)), Pubkey: hx(xKey.PubKey().SerializeCompressed()), PremiumLimit: 1_000_000})
	w.Run()
	ag := x.Take(ref.MsgSwapOutAgreement)
	if ag == nil {
		r.Inconclusive("swap A: no agreement")
		return
	}
	var a swap.SwapOutAgreementMessage
	json.Unmarshal(ag.Payload, &a)
	w.LN.PeerPay(x.ID, a.Payreq)
	w.Run()
	if x.Take(ref.MsgOpeningTxBroadcast) == nil {
		r.Inconclusive("swap A: no announcement")
		return
	}
	// ---- swap B: alice is taker (swap-out sender) with Y
	chain := w.BTC
	if chainB == "lbtc" {
		chain = w.LBTC
	}
	amount := uint64(400_000 + rng.Intn(100_000))
	sm, err, _ := node.SwapOut(y.ID, chainB, "200x1x0", amount, 100000)
	if err != nil || sm == nil {
		r.Inconclusive("swap B: not started")
		return
	}
	idB := sm.SwapId
	w.Run()
	m := y.Take(ref.MsgSwapOutRequest)
	if m == nil {
		r.Inconclusive("swap B: no request")
		return
	}
	var req swap.SwapOutRequestMessage
	json.Unmarshal(m.Payload, &req)
	yKey, _ := btcec.NewPrivateKey()
	blind, _ := btcec.NewPrivateKey()
	yPub := yKey.PubKey().SerializeCompressed()
	exp, cltv := uint64(86400), int64(503)
	if chainB == "lbtc" {
		exp, cltv = 3600, 29
	}
	inv := w.LN.NewInvoice(y.ID, (amount+7)*1000, "", idB.String(), "claim", 1, exp, cltv)
	pk := refPk(unhex(req.Pubkey), yPub, unhex(inv.Hash), ref.CSV(chainB, 7))
	var hexTx string
	if chainB == "btc" {
		hexTx, _ = buildBtcTx(1, []outSpec{{Script: pk, Value: amount}})
	} else {
		hexTx, _, _ = buildLiquidTx(1, []outSpec{{Script: pk, Value: amount, BlindPub: blind.PubKey().SerializeCompressed()}})
	}
	fee := w.LN.NewInvoice(y.ID, 300_000, "", idB.String(), "fee", 2, 600, 0)
	y.Send("alice", ref.MsgSwapOutAgreement, &swap.SwapOutAgreementMessage{ProtocolVersion: 7, SwapId: idB, Pubkey: hx(yPub), Payreq: fee.Payreq, Premium: 7})
	w.Run()
	tx, err := chain.AddWalletTx(hexTx, "yuri", "open")
	if err != nil {
		r.Inconclusive("swap B: opening tx: " + err.Error())
		return
	}
	msg :=&swap.OpeningTxBroadcastedMessage{SwapId: idB, Payreq: inv.Payreq, TxId: tx.ID}
	if chainB == "lbtc" {
		msg.BlindingKey = hx(blind.Serialize())
	}
	y.Send("alice", ref.MsgOpeningTxBroadcast, msg)
	w.Run()
	for i := 0; i < int(ref.MinConfs(chainB))+1; i++ {
		chain.Mine(1)
		w.Run()
	}
	coop := y.Take(ref.MsgCoopClose) != nil
	// the retransmitter keeps going: a dozen more copies of swap A's announcement
	for i := 0; i < 12; i++ {
		time.Sleep(5 * time.Millisecond)
		w.Run()
	}
	copies := 0
	for _, e := range w.Events() {
		if e.Kind == "msg.send" && e.Node == "alice" {
			if mm := e.P.(sim.EvMsg); mm.Type == ref.MsgOpeningTxBroadcast && mm.Peer == x.ID {
				copies++
			}
		}
	}
	r.Eval()
	r.Count("two_role_worlds", 1)
	if coop {
		r.Count("two_role_worlds_with_coop_close", 1)
	}
	r.Seen(fmt.Sprintf("two-roles/maker-on-%s/taker-on-%s/coop_close=%v/retransmissions>=3=%v", chainA, chainB, coop, copies >= 3))
	c23Scan(r, w, map[string]string{"alice": "taker"}, []*sim.Node{node}, fmt.Sprintf("two swaps in opposite roles (maker on %s for X, taker on %s for Y), %d copies of the announcement, seed %d", chainA, chainB, copies, seed))
}
