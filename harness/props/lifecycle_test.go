package props

import (
	"bytes"
	"encoding/json"
	"fmt"
	"strings"
	"time"

	"github.com/elementsproject/peerswap/swap"

	"verifharness/ref"
	"verifharness/sim"
)

// lcCase is one history of the lifecycle sweep: an honest two-node swap in which
// the victim node may crash at its k-th boundary crossing (before / after the effect),
// the peer may go silent at the victim's j-th crossing, and services may misbehave.
type lcCase struct {
	chain, typ string
	victim     string // alice (initiator) | bob (responder)
	crashAt    int64
	flavor     string
	cutAt      int64  // peer dies at this crossing of the victim (0 = never)
	variant    string // happy | payfail | claimfail | feeunpaid | ...
	drain      bool
	name       string
	// restartFirst: the drain begins with a restart (before any timer has had the chance to fire)
	restartFirst bool
}

func (c lcCase) String() string {
	return fmt.Sprintf("%s/%s/victim=%s/%s/crash=%d%s/cut=%d", c.chain, c.typ, c.victim, c.variant, c.crashAt, c.flavor, c.cutAt)
}

// lcHist is what the monitors collected about one history.
type lcHist struct {
	c      lcCase
	p      *pair
	victim *sim.Node
	peer   *sim.Node
	ops    []string // crossing ops of the victim (baseline run)
	// raw observations (victim only unless stated)
	writes    []sim.EvStore
	sends     []sim.EvMsg
	sendSeq   []int64
	pays      []sim.EvPay // ln.pay.try
	paySeq    []int64
	opensOK   []sim.EvTx // chain.accept op=open by victim
	spendsOK  []sim.EvTx // chain.accept other ops by victim
	// every spend the victim handed to the chain (accepted or rejected), and the log positions of these and of the
	// store writes
	spendTry    []sim.EvTx
	spendTrySeq []int64
	writeSeq    []int64
	crashes   int
	restarts  int
	panics    []string
	cancelSeq int64 // seq of first committed SwapCanceled record
	events    int
	whileDown func(h *lcHist) // runs once, right before the first restart after a crash
	// redeliver: after the first restart the peer's last message to the victim is delivered once more
	redeliver bool
	lastIn    *sim.EvMsg
}

func (h *lcHist) attach() {
	v := h.victim.Name
	h.p.w.Subscribe(func(e *sim.Event) {
		h.events++
		if r, ok := e.P.(sim.EvRet); ok && r.Panic != "" {
			h.panics = append(h.panics, e.Node+": "+r.Panic)
		}
		if e.Node != v {
			return
		}
		switch e.Kind {
		case "deliver.msg":
			if x, ok := e.P.(sim.EvMsg); ok && h.redeliver {
				h.lastIn = &x
			}
		case "store.write":
			x := e.P.(sim.EvStore)
			h.writes = append(h.writes, x)
			h.writeSeq = append(h.writeSeq, e.Seq)
			if x.State == string(swap.State_SwapCanceled) && h.cancelSeq == 0 && x.Err == "" {
				h.cancelSeq = e.Seq
			}
		case "msg.send":
			h.sends = append(h.sends, e.P.(sim.EvMsg))
			h.sendSeq = append(h.sendSeq, e.Seq)
		case "ln.pay.try":
			h.pays = append(h.pays, e.P.(sim.EvPay))
			h.paySeq = append(h.paySeq, e.Seq)
		case "chain.accept":
			x := e.P.(sim.EvTx)
			if x.Op == "open" {
				h.opensOK = append(h.opensOK, x)
			} else {
				h.spendsOK = append(h.spendsOK, x)
				h.spendTry = append(h.spendTry, x)
				h.spendTrySeq = append(h.spendTrySeq, e.Seq)
			}
		case "chain.reject":
			if x := e.P.(sim.EvTx); x.Op != "open" {
				h.spendTry = append(h.spendTry, x)
				h.spendTrySeq = append(h.spendTrySeq, e.Seq)
			}
		case "node.crash":
			h.crashes++
		case "node.start":
			h.restarts++
		}
	})
}

// revive restarts the victim if it died and lets the world settle.
func (h *lcHist) revive() {
	if !h.victim.Alive() {
		if h.whileDown != nil {
			// things that happen in the world while the process is not running (once)
			f := h.whileDown
			h.whileDown = nil
			f(h)
		}
		h.victim.CrashAt = 0 // a crash point fires once
		if err := h.victim.Restart(); err == nil {
			h.p.w.Run()
			if h.redeliver && h.lastIn != nil {
				// the peer, seeing the node come back, sends its last message once more
				m := h.lastIn
				h.lastIn = nil
				h.p.w.InjectMsg(m.Peer, h.victim.Name, m.Type, m.Payload)
				h.p.w.Run()
			}
		}
	}
}

func (h *lcHist) settle() {
	h.p.w.Run()
	h.revive()
}

// lcRun executes one history. attach may install more monitors / faults before the nodes start.
func lcRun(seed int64, c lcCase, setup func(h *lcHist)) *lcHist {
	p := newPair(seed, pairOpts{chain: c.chain, typ: c.typ, amount: 1_000_000})
	h := &lcHist{c: c, p: p}
	h.victim, h.peer = p.A, p.B
	if c.victim == "bob" {
		h.victim, h.peer = p.B, p.A
	}
	h.attach()
	h.victim.CrashAt, h.victim.CrashFlavor = c.crashAt, c.flavor
	if c.crashAt == 0 && c.cutAt == 0 {
		h.victim.RecordCrossings = true
	}
	if c.cutAt > 0 {
		peer := h.peer
		h.victim.OnCrossing = func(k int64, op string) {
			if k == c.cutAt {
				peer.Crash()
			}
		}
	}
	if setup != nil {
		setup(h)
	}
	if err := p.startNodes(); err != nil {
		return h
	}
	if err := p.begin(0); err != nil && p.id == "" {
		// the initiator may have died inside the call; find the id from its store
		for id := range p.A.StoredSwaps() {
			p.id = id
		}
	}
	if p.id == "" && p.sm != nil {
		p.id = p.sm.SwapId.String()
	}
	h.settle()
	if p.id == "" {
		for id := range p.A.StoredSwaps() {
			p.id = id
		}
	}
	for i := 0; i < 4; i++ {
		p.chainObj().Mine(1)
		h.settle()
	}
	if c.drain {
		h.drain()
	}
	h.ops = append([]string(nil), h.victim.CrossOps...)
	return h
}

// drain is the bounded-progress procedure of C16: K rounds of {fire due timers, resolve pending
// payments, heal services, mine past every window and CSV horizon, restart the node}.
func (h *lcHist) drain() {
	p := h.p
	h.victim.Fault = nil
	p.chainObj().FailBroadcasts = 0
	if h.c.restartFirst {
		h.victim.Restart()
		h.settle()
	}
	for round := 0; round < 6; round++ {
		p.w.Advance(11 * time.Minute)
		h.settle()
		// pending HTLCs of the victim resolve (fail) — the peer is silent
		p.w.LN.ResolveAllPending(h.victim.ID, false)
		switch round {
		case 0:
			p.chainObj().Mine(70) // past the Liquid payment window
		case 1:
			p.chainObj().Mine(600) // past the Bitcoin payment window
		default:
			p.chainObj().Mine(int(ref.CSV(p.chain, 7)) + 5)
		}
		h.settle()
		h.victim.Restart()
		h.settle()
		if h.allTerminal() {
			break
		}
	}
}

func (h *lcHist) allTerminal() bool {
	for _, b := range h.victim.StoredSwaps() {
		var rec struct {
			Current string `json:"current"`
		}
		json.Unmarshal(b, &rec)
		if !isTerminal(rec.Current) {
			return false
		}
	}
	return true
}

// stuck returns the (role, state) pairs of non-terminal swaps of the victim.
func (h *lcHist) stuck() []string {
	var r []string
	for _, b := range h.victim.StoredSwaps() {
		var rec struct {
			Current string `json:"current"`
			Type    int    `json:"type"`
			Role    int    `json:"role"`
		}
		json.Unmarshal(b, &rec)
		if !isTerminal(rec.Current) {
			r = append(r, fmt.Sprintf("%s/%s", roleName(rec.Type, rec.Role), rec.Current))
		}
	}
	return r
}

func roleName(typ, role int) string {
	t := "in"
	if typ == int(swap.SWAPTYPE_OUT) {
		t = "out"
	}
	ro := "sender"
	if role == int(swap.SWAPROLE_RECEIVER) {
		ro = "receiver"
	}
	return t + "/" + ro
}

// victimRole returns e.g. "out/sender".
func (h *lcHist) victimRole() string {
	ro := "sender"
	if h.c.victim == "bob" {
		ro = "receiver"
	}
	return h.c.typ + "/" + ro
}

func (h *lcHist) victimIsMaker() bool { return h.victim == h.p.maker() }

// recData decodes the fields of a committed record the monitors need.
type recView struct {
	Current string `json:"current"`
	Data    struct {
		AnchorSet bool   `json:"opening_block_height_set"`
		Anchor    uint32 `json:"opening_block_height"`
		OpeningTx *struct {
			TxId      string `json:"tx_id"`
			ScriptOut uint32 `json:"script_out"`
			Payreq    string `json:"payreq"`
		} `json:"opening_tx_broadcasted"`
		OpeningTxHex  string `json:"opening_tx_hex"`
		ClaimPreimage string `json:"claim_preimage"`
		PrivKey       []byte `json:"private_key"`
		ClaimTxId     string `json:"claim_tx_id"`
	} `json:"data"`
}

func viewRec(b []byte) *recView {
	if len(b) == 0 {
		return nil
	}
	var v recView
	if json.Unmarshal(b, &v) != nil {
		return nil
	}
	return &v
}

// opClass normalises a crossing op for signatures.
func opClass(op string) string { return op }

// crossingOp returns the op name of the crash point of a case (from the baseline op list).
func crossingOp(ops []string, k int64) string {
	if k >= 1 && int(k) <= len(ops) {
		return ops[k-1]
	}
	return "?"
}

func payloadsEqual(a, b []byte) bool { return bytes.Equal(a, b) }

func containsAny(s string, subs ...string) bool {
	for _, x := range subs {
		if strings.Contains(s, x) {
			return true
		}
	}
	return false
}
