package props

import (
	"context"
	"fmt"
	mrand "math/rand"
	"strings"

	"github.com/elementsproject/peerswap/lnd"
	"github.com/lightningnetwork/lnd/lnrpc"
	"github.com/lightningnetwork/lnd/lnwire"
	"google.golang.org/grpc"
)

// c24LN answers ListChannels (the only call lnd's CheckChannel makes) from a fixed list.
type c24LN struct {
	lnrpc.LightningClient
	chans []*lnrpc.Channel
	err   error
}

func (f *c24LN) ListChannels(ctx context.Context, in *lnrpc.ListChannelsRequest, _ ...grpc.CallOption) (*lnrpc.ListChannelsResponse, error) {
	if f.err != nil {
		return nil, f.err
	}
	return &lnrpc.ListChannelsResponse{Channels: f.chans}, nil
}

// c24ChannelLookup: which channel the real lnd client picks for a swap's channel id (the channel every fee and claim
// payment is then pinned to through OutgoingChanIds). Random channel lists: the swap's channel present or missing
// (closed / inactive since the swap was agreed), other channels with the same peer and with third parties before and
// after it, balances around the amount, the id asked for in both spellings.
func c24ChannelLookup(r *Run, rng *mrand.Rand, n int) {
	peer := "02" + strings.Repeat("11", 32)
	third := "03" + strings.Repeat("22", 32)
	for i := 0; i < n; i++ {
		own := lnwire.ShortChannelID{BlockHeight: uint32(600 + rng.Intn(200)), TxIndex: uint32(rng.Intn(9)), TxPosition: uint16(rng.Intn(3))}
		amount := uint64(pick(rng, 1, 100_000, 1_000_000))
		var list []*lnrpc.Channel
		present := rng.Intn(3) != 0
		nOther := rng.Intn(5)
		pos := rng.Intn(nOther + 1)
		for k := 0; k <= nOther; k++ {
			if k == pos && present {
				bal := int64(amount) + int64(pick(rng, -1, 0, 1, 1_000_000))
				list = append(list, &lnrpc.Channel{ChanId: own.ToUint64(), RemotePubkey: peer, LocalBalance: bal, Active: true})
			}
			if k < nOther {
				o := lnwire.ShortChannelID{BlockHeight: own.BlockHeight + uint32(1+rng.Intn(50)), TxIndex: uint32(rng.Intn(9)), TxPosition: uint16(rng.Intn(3))}
				list = append(list, &lnrpc.Channel{ChanId: o.ToUint64(), RemotePubkey: pick(rng, peer, peer, third), LocalBalance: int64(amount) * 10, Active: true})
			}
		}
		fake := &c24LN{chans: list}
		cl := lnd.VerifNewWalletClient(context.Background(), fake, nil, nil)
		ask := own.String() // lnd spelling "h:i:p"
		spelling := "colon"
		if rng.Intn(2) == 0 {
			ask, spelling = fmt.Sprintf("%dx%dx%d", own.BlockHeight, own.TxIndex, own.TxPosition), "x"
		}
		ch, err := cl.CheckChannel(ask, amount)
		r.Eval()
		var ownCh *lnrpc.Channel
		for _, c := range list {
			if c.ChanId == own.ToUint64() {
				ownCh = c
			}
		}
		class := "missing"
		if ownCh != nil {
			class = "present-funded"
			if ownCh.LocalBalance < int64(amount) {
				class = "present-short"
			}
		}
		r.Seen(fmt.Sprintf("lnd-channel-lookup/%s/spelling=%s/others=%d/err=%v", class, spelling, nOther, err != nil))
		r.Count("lnd_channel_lookups", 1)
		det := fmt.Sprintf("asked for %s (amount %d sat), listed %d channels, own channel %s at position %d; got channel %v err %v", ask, amount, len(list), class, pos, chanIDOf(ch), err)
		switch {
		case err == nil && ch != nil && ch.ChanId != own.ToUint64():
			r.Violate("own-channel-only", "C24|lnd-payment-pinned-to-another-channel|own-channel-"+class, det, nil)
		case err == nil && class != "present-funded":
			r.Violate("own-channel-only", "C24|lnd-channel-accepted-although-"+class, det, nil)
		}
		if err != nil && class == "present-funded" {
			r.Count("lnd_channel_lookups_refused_for_the_own_channel", 1) // safe, not judged
		}
	}
}

func chanIDOf(c *lnrpc.Channel) string {
	if c == nil {
		return "<nil>"
	}
	return lnwire.NewShortChanIDFromInt(c.ChanId).String()
}
