package props

import (
	"context"
	"encoding/json"
	"fmt"
	"math/big"
	mrand "math/rand"
	"strings"
	"testing"

	"github.com/btcsuite/btcd/btcec/v2"
	"github.com/elementsproject/peerswap/premium"
	"github.com/elementsproject/peerswap/swap"

	"verifharness/ref"
	"verifharness/sim"
)

type c11Cfg struct {
	allowNew    bool
	acceptAll   bool
	allowlisted bool
	suspicious  bool
	minMsat     uint64
	btcOn, lqOn bool
	btcBal      uint64
	lbtcBal     uint64
	ratePPM     int64  // rate charged to the requester
	rateKind    string // peer | global | default
	chanLocal   uint64 // msat the node can spend
	chanRemote  uint64 // msat the node can receive
	ownNet      string // the network the node's Bitcoin wallet reports
}

type c11Req struct {
	typ      string // in | out
	version  uint8
	amount   uint64
	asset    string
	network  string
	scid     string
	pubkey   string
	limit    int64
	desc     []string
	validMsg bool
}

func pick[T any](rng *mrand.Rand, xs ...T) T { return xs[rng.Intn(len(xs))] }

// admit is the reference admission predicate written from the property statement with exact integers.
func c11Admit(cfg c11Cfg, q c11Req, ownAsset string, openFee uint64, chanExists bool) (bool, []string) {
	var why []string
	no := func(s string) { why = append(why, s) }
	if !q.validMsg {
		no("malformed request")
	}
	chain := ""
	if q.asset != "" && q.network == "" {
		chain = "lbtc"
	} else if q.asset == "" && q.network != "" {
		chain = "btc"
	} else {
		no("asset/network do not name exactly one chain")
	}
	if !cfg.allowNew {
		no("new swaps disabled")
	}
	if chain == "btc" && !cfg.btcOn {
		no("bitcoin disabled")
	}
	if chain == "lbtc" && !cfg.lqOn {
		no("liquid disabled")
	}
	if chain == "btc" && q.network != cfg.ownNet {
		no("other bitcoin network")
	}
	if chain == "lbtc" && q.asset != ownAsset {
		no("other asset")
	}
	if q.version != 7 {
		no("protocol version")
	}
	amtMsat := new(big.Int).Mul(new(big.Int).SetUint64(q.amount), big.NewInt(1000))
	if amtMsat.Cmp(new(big.Int).SetUint64(cfg.minMsat)) < 0 {
		no("below minimum")
	}
	if !chanExists {
		no("no such channel to the requester")
	} else if q.typ == "in" {
		if amtMsat.Cmp(new(big.Int).SetUint64(cfg.chanLocal)) > 0 {
			no("exceeds spendable")
		}
	} else {
		if amtMsat.Cmp(new(big.Int).SetUint64(cfg.chanRemote)) > 0 {
			no("exceeds receivable")
		}
	}
	if !(cfg.acceptAll || cfg.allowlisted) {
		no("not allowlisted")
	}
	if cfg.suspicious {
		no("suspicious")
	}
	prem := new(big.Int).Mul(new(big.Int).SetUint64(q.amount), big.NewInt(cfg.ratePPM))
	prem.Quo(prem, big.NewInt(1_000_000)) // truncates toward zero
	if prem.Cmp(big.NewInt(q.limit)) > 0 {
		no("premium above the requester's limit")
	}
	if q.typ == "out" {
		bal := cfg.btcBal
		if chain == "lbtc" {
			bal = cfg.lbtcBal
		}
		need := new(big.Int).Add(new(big.Int).SetUint64(q.amount), new(big.Int).SetUint64(openFee))
		if need.Cmp(new(big.Int).SetUint64(bal)) > 0 {
			no("insufficient on-chain balance")
		}
	}
	return len(why) == 0, why
}

// c11Pin fixes parts of a world for the systematic boundary grids (everything else stays generated).
type c11Pin struct {
	cfg     func(c *c11Cfg)
	typ     string
	chain   string
	amount  uint64
	network string // request network for Bitcoin requests ("" = the node's own)
	limit   int64
}

func runC11World(r *Run, seed int64, nReq int, pins ...*c11Pin) {
	var pin *c11Pin
	if len(pins) > 0 {
		pin = pins[0]
	}
	rng := mrand.New(mrand.NewSource(seed))
	w := sim.NewWorld(seed)
	defer w.Close()
	cfg := c11Cfg{
		allowNew: rng.Intn(8) != 0, acceptAll: rng.Intn(2) == 0, allowlisted: rng.Intn(2) == 0, suspicious: rng.Intn(6) == 0,
		minMsat: pick(rng, uint64(0), 1_000_000, 100_000_000, 100_000_001),
		btcOn:   rng.Intn(6) != 0, lqOn: rng.Intn(6) != 0,
		btcBal: pick(rng, uint64(0), 150_000, 1_000_000, 50_000_000, 1<<62), lbtcBal: pick(rng, uint64(0), 150_000, 1_000_000, 50_000_000, 1<<62),
		// 0 ppm is listed three times: a configured rate of zero must not be confused with "no rate configured"
		ratePPM: pick(rng, int64(0), 0, 0, 1, -1, 2000, -2000, 1_000_000, -1_000_000, 999_999, int64(rng.Intn(20000))-10000),
		rateKind: pick(rng, "peer", "global", "default"),
		chanLocal: pick(rng, uint64(0), 100_000_000, 1_000_000_000, 5_000_000_000), chanRemote: pick(rng, uint64(0), 100_000_000, 1_000_000_000, 5_000_000_000),
		// the networks bitcoind can report; the two testnets are different chains whose names share a prefix
		ownNet: pick(rng, sim.BtcParams.Name, sim.BtcParams.Name, sim.BtcParams.Name, "testnet3", "testnet4", "mainnet", "signet"),
	}
	if pin != nil && pin.cfg != nil {
		pin.cfg(&cfg)
	}
	mal := w.AddPeer("mallory")
	nc := sim.DefaultNodeConfig()
	if cfg.ownNet != sim.BtcParams.Name {
		nc.BtcNetworkName = cfg.ownNet
	}
	nc.BitcoinEnabled, nc.LiquidEnabled = cfg.btcOn, cfg.lqOn
	nc.BtcBalance, nc.LbtcBalance = cfg.btcBal, cfg.lbtcBal
	var pol strings.Builder
	fmt.Fprintf(&pol, "min_swap_amount_msat=%d\n", cfg.minMsat)
	if cfg.acceptAll {
		pol.WriteString("accept_all_peers=true\n")
	}
	if cfg.allowlisted {
		fmt.Fprintf(&pol, "allowlisted_peers=%s\n", mal.ID)
	}
	if cfg.suspicious {
		fmt.Fprintf(&pol, "suspicious_peers=%s\n", mal.ID)
	}
	if !cfg.allowNew {
		pol.WriteString("allow_new_swaps=false\n")
	}
	nc.PolicyText = pol.String()
	node := w.AddNode("alice", nc)
	if err := node.Start(); err != nil {
		r.Inconclusive("start: " + err.Error())
		return
	}
	ownAsset := hx(sim.PolicyAsset())
	for k := 0; k < nReq; k++ {
		typ := pick(rng, "in", "out")
		chainPick := pick(rng, "btc", "lbtc")
		if pin != nil {
			typ, chainPick = pin.typ, pin.chain
		}
		// premium rate configuration for this requester
		op := premium.SwapIn
		if typ == "out" {
			op = premium.SwapOut
		}
		asst := premium.BTC
		if chainPick == "lbtc" {
			asst = premium.LBTC
		}
		ps := node.Inc().Premium
		rate := cfg.ratePPM
		switch cfg.rateKind {
		case "peer":
			pr, _ := premium.NewPremiumRate(asst, op, premium.NewPPM(rate))
			ps.SetRate(context.Background(), mal.ID, pr)
		case "global":
			ps.DeleteRate(context.Background(), mal.ID, asst, op)
			pr, _ := premium.NewPremiumRate(asst, op, premium.NewPPM(rate))
			ps.SetDefaultRate(context.Background(), pr)
		default:
			ps.DeleteRate(context.Background(), mal.ID, asst, op)
			if dr, err := ps.GetDefaultRate(asst, op); err == nil {
				rate = dr.PremiumRatePPM().Value()
			}
		}
		// the opposite direction of the same asset gets another rate (a premium computed or limit-checked with the
		// wrong direction's rate must show): zero, 100 %, or the negated one
		if cfg.rateKind != "default" {
			otherOp := premium.SwapOut
			if op == premium.SwapOut {
				otherOp = premium.SwapIn
			}
			other := pick(rng, int64(0), 0, 1_000_000, -rate)
			if pr, err := premium.NewPremiumRate(asst, otherOp, premium.NewPPM(other)); err == nil {
				if cfg.rateKind == "peer" {
					ps.SetRate(context.Background(), mal.ID, pr)
				} else {
					ps.DeleteRate(context.Background(), mal.ID, asst, otherOp)
					ps.SetDefaultRate(context.Background(), pr)
				}
			}
		}
		scid := fmt.Sprintf("%d%s1%s%d", 100+k, pick(rng, "x", ":"), pick(rng, "x", ":"), k)
		if strings.Contains(scid, "x") && strings.Contains(scid, ":") {
			scid = strings.ReplaceAll(scid, ":", "x")
		}
		chanExists := rng.Intn(10) != 0
		if chanExists {
			w.LN.OpenChannel(scid, node.ID, mal.ID, cfg.chanLocal, cfg.chanRemote)
		}
		key, _ := btcec.NewPrivateKey()
		q := c11Req{typ: typ, version: 7, scid: scid, pubkey: hx(key.PubKey().SerializeCompressed()), validMsg: true}
		if chainPick == "btc" {
			q.network = cfg.ownNet
		} else {
			q.asset = ownAsset
		}
		q.amount = pick(rng, uint64(1_000), 99_999, 100_000, 100_001, 500_000, 1_000_000, 4_999_999, 5_000_000, 5_000_001, 40_000_000)
		q.limit = pick(rng, int64(0), 1, -1, 100, 2000, 10_000, 1_000_000, 1<<62, -(1 << 62))
		// one deviation in roughly half of the requests
		dev := rng.Intn(24)
		if pin != nil {
			dev = 99 // no generated deviation: the pinned values are the case
			q.amount, q.limit = pin.amount, pin.limit
			if pin.network != "" && chainPick == "btc" {
				q.network = pin.network
				q.desc = append(q.desc, "pinned-network")
			}
		} else if k == 1 {
			dev = 1 // the second request of every world carries an extreme amount
		}
		switch dev {
		case 0:
			q.version = pick(rng, uint8(0), 1, 6, 8, 255)
			q.desc = append(q.desc, "version")
		case 1:
			// incl. amounts whose msat value wraps around 2^64 to 384 msat, ~1 000 sat, ~100 000 sat, ~2 000 000 sat
			q.amount = pick(rng, uint64(0), 1, 1<<63, 1<<63/1000, 18446744073709551, 18446744073709552, 18446744073709553, 1<<64-1,
				18446744073709552+1000, 18446744073709552+100_000, 18446744073709552+100_000, 18446744073709552+2_000_000)
			q.desc = append(q.desc, "amount-extreme")
		case 2:
			q.asset = pick(rng, hx(append([]byte{1}, attackerAsset...)), hx(attackerAsset), hx(randBytes(34)), "zz")
			q.network = ""
			q.desc = append(q.desc, "asset")
			if len(unhex(q.asset)) != 33 {
				q.validMsg = false
			}
		case 3:
			q.asset = ""
			q.network = pick(rng, "mainnet", "testnet", "signet", "testnet3", "testnet4", "bitcoin", "", "junk", "regtest")
			if strings.HasPrefix(cfg.ownNet, "testnet") && rng.Intn(2) == 0 {
				q.network = pick(rng, "testnet3", "testnet4", "testnet")
			}
			for q.network == cfg.ownNet {
				// (this deviation is "another network"; the own one would turn a Liquid request into an ordinary
				// Bitcoin request priced with the Bitcoin rate, which the reference above was not set up for)
				q.network = pick(rng, "mainnet", "testnet", "signet", "testnet3", "testnet4", "regtest")
			}
			q.desc = append(q.desc, "network")
			switch q.network {
			case "bitcoin", "", "junk":
				q.validMsg = false
			}
		case 4:
			q.asset, q.network = ownAsset, sim.BtcParams.Name
			q.desc = append(q.desc, "both-asset-and-network")
			q.validMsg = false
		case 5:
			q.pubkey = pick(rng, "", "02", hx(randBytes(32)), hx(randBytes(34)), "nothex")
			q.desc = append(q.desc, "pubkey")
			q.validMsg = false
		case 6:
			q.scid = pick(rng, "", "1x2", "axbxc", "123", "1x2x3x4")
			q.desc = append(q.desc, "scid-malformed")
			chanExists = false
			if q.scid != "axbxc" {
				q.validMsg = false
			}
		case 7:
			q.limit = pick(rng, int64(-1<<63), 1<<63-1)
			q.desc = append(q.desc, "limit-extreme")
		}
		id := swap.NewSwapId()
		var payload []byte
		mt := ref.MsgSwapInRequest
		if typ == "in" {
			payload = mustJSON(&swap.SwapInRequestMessage{ProtocolVersion: q.version, SwapId: id, Network: q.network, Asset: q.asset, Scid: q.scid, Amount: q.amount, Pubkey: q.pubkey, PremiumLimit: q.limit})
		} else {
			mt = ref.MsgSwapOutRequest
			payload = mustJSON(&swap.SwapOutRequestMessage{ProtocolVersion: q.version, SwapId: id, Network: q.network, Asset: q.asset, Scid: q.scid, Amount: q.amount, Pubkey: q.pubkey, PremiumLimit: q.limit})
		}
		// fees as the node's own wallet estimates them
		openFee := uint64(0)
		if chainPick == "btc" || q.network != "" {
			openFee, _ = node.BtcW.OnChain().GetFee(350)
		} else {
			openFee = nc.LbtcFee
		}
		eff := cfg
		eff.ratePPM = rate
		want, why := c11Admit(eff, q, ownAsset, openFee, chanExists)
		before := len(mal.Inbox)
		mal.Send("alice", mt, payload)
		w.Run()
		agreement, cancel := false, false
		var agPremium int64
		for _, m := range mal.Inbox[before:] {
			switch m.Type {
			case ref.MsgSwapInAgreement:
				agreement = true
				var ag swap.SwapInAgreementMessage
				json.Unmarshal(m.Payload, &ag)
				agPremium = ag.Premium
			case ref.MsgSwapOutAgreement:
				agreement = true
				var ag swap.SwapOutAgreementMessage
				json.Unmarshal(m.Payload, &ag)
				agPremium = ag.Premium
			case ref.MsgCancel:
				cancel = true
			}
		}
		r.Eval()
		reason := "admit"
		if !want {
			reason = why[0]
		}
		r.Seen(fmt.Sprintf("%s/%s/%s/agreement=%v", typ, chainPick, reason, agreement))
		r.CountIn("replies", fmt.Sprintf("agreement=%v cancel=%v", agreement, cancel))
		detail := func() string {
			return fmt.Sprintf("request %s %+v cfg %+v reasons=%v seed=%d k=%d", typ, q, eff, why, seed, k)
		}
		if agreement && !want {
			r.Violate("agreement-implies-admit", fmt.Sprintf("C11|admitted-although|%s|%s", typ, why[0]), detail(), nil)
		}
		if !want && !cancel {
			r.Violate("refusal-sends-cancel", fmt.Sprintf("C11|refused-without-cancel|%s|%s", typ, why[0]), detail(), nil)
		}
		if agreement {
			// responder's premium is exactly the configured rate's premium (C12 clause, observed here too)
			p := new(big.Int).Mul(new(big.Int).SetUint64(q.amount), big.NewInt(rate))
			p.Quo(p, big.NewInt(1_000_000))
			if p.Cmp(big.NewInt(agPremium)) != 0 {
				r.Violate("premium-in-agreement", fmt.Sprintf("C11|agreement-premium-differs|%s|%s", typ, cfg.rateKind), fmt.Sprintf("agreement premium %d, reference %s; %s", agPremium, p, detail()), nil)
			}
		}
		if k == 0 {
			r.Sample(map[string]any{"type": typ, "chain": chainPick, "deviation": q.desc, "amount": q.amount, "limit": q.limit, "rate_ppm": rate, "rate_kind": cfg.rateKind, "admit_expected": want, "reasons": why, "agreement": agreement, "cancel": cancel})
		}
	}
}

func TestC11(t *testing.T) {
	r := newRun(t, "C11", "exploration")
	defer r.Finish()
	r.Rule = "generated (policy/config, request) pairs delivered to a real node (file-backed policy.Policy, real premium.Setting, real state machines) by a scripted requester; oracle = reference admission predicate in math/big written from the statement; agreement => admit, not admit => cancel and no agreement. distinct = (swap type, chain, first refusal reason | admit, agreement sent)"
	r.Rule += " The node's Bitcoin wallet reports regtest, testnet3, testnet4, mainnet or signet; requests name the own network, a neighbour (testnet / testnet3 / testnet4) or another one."
	r.Assumptions = []string{"channel balances and on-chain balances are what the simulated Lightning node / wallet report", "opening-fee estimate taken from the node's own wallet object"}
	worlds := r.N(150, 6000)
	parallelDo(worlds, 12, func(i int) { runC11World(r, r.Seed*31337+int64(i)+1, 8) })
	// systematic boundary grids (the same for every seed), everything else permissive: (1) swap-out responder whose
	// on-chain balance is amount + d for d around 0 and around the opening fee; (2) every (own network, requested
	// network) pair of the names bitcoind reports
	{
		permissive := func(c *c11Cfg) {
			c.allowNew, c.acceptAll, c.allowlisted, c.suspicious = true, true, true, false
			c.minMsat, c.btcOn, c.lqOn = 0, true, true
			c.btcBal, c.lbtcBal = 1<<40, 1<<40
			c.ratePPM, c.rateKind = 0, "peer"
			c.chanLocal, c.chanRemote = 5_000_000_000, 5_000_000_000
			c.ownNet = sim.BtcParams.Name
		}
		var pins []*c11Pin
		const amt = 200_000
		for _, ch := range []string{"btc", "lbtc"} {
			for _, d := range []int64{-1, 0, 1, 87, 100, 200, 299, 300, 301, 349, 350, 351, 400, 699, 700, 701, 1000, 1399, 1400, 1401, 5000} {
				ch, d := ch, d
				pins = append(pins, &c11Pin{typ: "out", chain: ch, amount: amt, limit: 1 << 40, cfg: func(c *c11Cfg) {
					permissive(c)
					if ch == "btc" {
						c.btcBal = uint64(amt + d)
					} else {
						c.lbtcBal = uint64(amt + d)
					}
				}})
			}
		}
		nets := []string{"mainnet", "testnet", "testnet3", "testnet4", "signet", "regtest"}
		for i, own := range []string{"testnet3", "testnet4", "regtest", "mainnet", "signet"} {
			for j, req := range nets {
				own := own
				pins = append(pins, &c11Pin{typ: []string{"in", "out"}[(i+j)%2], chain: "btc", amount: amt, limit: 1 << 40, network: req, cfg: func(c *c11Cfg) {
					permissive(c)
					c.ownNet = own
				}})
			}
		}
		parallelDo(len(pins), 12, func(i int) { runC11World(r, 77_000+int64(i), 1, pins[i]) })
		r.Extra["boundary_grid_worlds"] = len(pins)
	}
	ad := 0
	for k, v := range r.distinct {
		if strings.Contains(k, "/admit/agreement=true") {
			ad += v
		}
	}
	r.Require(ad >= worlds/10, fmt.Sprintf("only %d admitted requests: the generator does not reach the admit side", ad))
}
