package props

import (
	"encoding/json"
	"fmt"
	mrand "math/rand"
	"strings"
	"sync"
	"sync/atomic"
	"testing"
	"time"

	"github.com/anishathalye/porcupine"
	"github.com/btcsuite/btcd/btcec/v2"
	"github.com/elementsproject/peerswap/swap"

	"verifharness/ref"
	"verifharness/sim"
)

func spell(rng *mrand.Rand, ch int, sep string) string {
	if sep == "" {
		sep = pick(rng, "x", ":")
	}
	return fmt.Sprintf("%d%s1%s0", 100+ch, sep, sep)
}

// c10Groups returns the non-terminal persisted swaps of n grouped by normalised channel id.
func c10Groups(n *sim.Node) map[string][]string {
	g := map[string][]string{}
	for id, b := range n.StoredSwaps() {
		var v struct {
			Current string `json:"current"`
			Data    struct {
				In  *struct{ Scid string `json:"scid"` } `json:"swap_in_request"`
				Out *struct{ Scid string `json:"scid"` } `json:"swap_out_request"`
			} `json:"data"`
		}
		json.Unmarshal(b, &v)
		if isTerminal(v.Current) {
			continue
		}
		scid := ""
		if v.Data.In != nil {
			scid = v.Data.In.Scid
		} else if v.Data.Out != nil {
			scid = v.Data.Out.Scid
		}
		if scid == "" {
			continue
		}
		g[sim.NormScid(scid)] = append(g[sim.NormScid(scid)], id[:8]+"@"+v.Current+"["+scid+"]")
	}
	return g
}

func c10Request(typ string, id *swap.SwapId, scid, chain string) (int, []byte) {
	k, _ := btcec.NewPrivateKey()
	pub := hx(k.PubKey().SerializeCompressed())
	asset, network := "", ""
	if chain == "lbtc" {
		asset = hx(sim.PolicyAsset())
	} else {
		network = sim.BtcParams.Name
	}
	if typ == "in" {
		return ref.MsgSwapInRequest, mustJSON(&swap.SwapInRequestMessage{ProtocolVersion: 7, SwapId: id, Network: network, Asset: asset, Scid: scid, Amount: 300_000, Pubkey: pub, PremiumLimit: 1_000_000})
	}
	return ref.MsgSwapOutRequest, mustJSON(&swap.SwapOutRequestMessage{ProtocolVersion: 7, SwapId: id, Network: network, Asset: asset, Scid: scid, Amount: 300_000, Pubkey: pub, PremiumLimit: 1_000_000})
}

// runC10Seq: deterministic operation sequences with a check after every step.
func runC10Seq(r *Run, seed int64) {
	rng := mrand.New(mrand.NewSource(seed))
	w := sim.NewWorld(seed)
	defer w.Close()
	a := w.AddNode("alice", sim.DefaultNodeConfig())
	mal := w.AddPeer("mallory")
	for ch := 0; ch < 2; ch++ {
		w.LN.OpenChannel(spell(rng, ch, "x"), a.ID, mal.ID, 5_000_000_000, 5_000_000_000)
	}
	if a.Start() != nil {
		r.Inconclusive("start")
		return
	}
	var hist []string
	var live []string // ids we believe non-terminal
	check := func(step string) bool {
		for ch, ids := range c10Groups(a) {
			if len(ids) > 1 {
				kinds := "mixed"
				r.Violate("one-per-channel", "C10|two-active-swaps-on-one-channel|"+c10Class(hist), fmt.Sprintf("channel %s has %d non-terminal swaps %v after step %q; history %v; seed %d (%s)", ch, len(ids), ids, step, hist, seed, kinds), traceOf(w))
				return false
			}
		}
		return true
	}
	steps := 4 + rng.Intn(8)
	for s := 0; s < steps; s++ {
		ch := rng.Intn(2)
		sp := spell(rng, ch, "")
		chain := pick(rng, "btc", "lbtc")
		op := pick(rng, "local-out", "local-in", "req-in", "req-out", "cancel", "window-req", "restart", "advance", "advance", "restart-faulty")
		a.Fault = nil
		if (op == "local-out" || op == "local-in" || op == "req-in" || op == "req-out") && rng.Intn(3) == 0 {
			// a transient error of the swap store during the start of this swap: its 2nd or 3rd write fails once (the
			// request / agreement has left by then and the record of the new swap exists)
			k, n := 2+rng.Intn(2), 0
			a.Fault = func(o string) error {
				if o == "store.write" {
					n++
					if n == k {
						return fmt.Errorf("injected: store write failed")
					}
				}
				return nil
			}
			hist = append(hist, fmt.Sprintf("store-write-%d-of-next-op-fails", k))
		}
		switch op {
		case "advance":
			// the peer takes the next honest step of one live swap in which the node is the maker, so that the node
			// funds the swap (a funded maker answers a later cancel by waiting for the CSV: still non-terminal)
			if len(live) == 0 {
				continue
			}
			lid := live[rng.Intn(len(live))]
			id, _ := swap.ParseSwapIdFromString(lid)
			rec := a.StoredSwap(lid)
			if rec == nil {
				continue
			}
			switch string(rec.Current) {
			case "State_SwapInSender_AwaitAgreement":
				k, _ := btcec.NewPrivateKey()
				mal.Send("alice", ref.MsgSwapInAgreement, &swap.SwapInAgreementMessage{ProtocolVersion: 7, SwapId: id, Pubkey: hx(k.PubKey().SerializeCompressed()), Premium: 0})
				w.Run()
				hist = append(hist, "advance(agreement)")
			case "State_SwapOutReceiver_AwaitFeeInvoicePayment":
				for _, m := range mal.Inbox {
					if m.Type == ref.MsgSwapOutAgreement && strings.Contains(string(m.Payload), lid) {
						var ag swap.SwapOutAgreementMessage
						json.Unmarshal(m.Payload, &ag)
						w.LN.PeerPay(mal.ID, ag.Payreq)
					}
				}
				w.Run()
				hist = append(hist, "advance(fee-paid)")
			default:
				continue
			}
			if rec2 := a.StoredSwap(lid); rec2 != nil {
				r.Seen("seq/advance/now=" + string(rec2.Current))
			}
		case "restart-faulty":
			// restart while a service the recovery of a funded maker needs is failing (wallet script lookup): the
			// swap cannot be resumed now, but it is not finished either
			a.Fault = func(op string) error {
				if strings.HasSuffix(op, ".outputscript") {
					return fmt.Errorf("injected: wallet not ready")
				}
				return nil
			}
			a.Restart()
			w.Run()
			a.Fault = nil
			hist = append(hist, "restart-faulty")
		case "local-out", "local-in":
			busy := len(c10Groups(a)[sim.NormScid(sp)]) > 0
			var err error
			var sm *swap.SwapStateMachine
			if op == "local-out" {
				sm, err, _ = a.SwapOut(mal.ID, chain, sp, 300_000, 100000)
			} else {
				sm, err, _ = a.SwapIn(mal.ID, chain, sp, 300_000, 100000)
			}
			w.Run()
			hist = append(hist, fmt.Sprintf("%s(%s)=%v", op, sp, err == nil))
			r.Seen(fmt.Sprintf("seq/%s/spelling=%s/busy=%v/ok=%v", op, sepOf(sp), busy, err == nil))
			if busy && err == nil {
				r.Violate("busy-refused", "C10|local-initiation-accepted-on-busy-channel|"+c10Class(hist), fmt.Sprintf("history %v seed %d", hist, seed), traceOf(w))
			}
			if err == nil && sm != nil {
				live = append(live, sm.SwapId.String())
			}
		case "req-in", "req-out", "window-req":
			typ := "in"
			if op == "req-out" || (op == "window-req" && rng.Intn(2) == 0) {
				typ = "out"
			}
			if op == "window-req" {
				if err := a.Restart(sim.StartOpts{NoRecover: true}); err != nil {
					r.Inconclusive("restart: " + err.Error())
					return
				}
			}
			busy := len(c10Groups(a)[sim.NormScid(sp)]) > 0
			id := swap.NewSwapId()
			mt, payload := c10Request(typ, id, sp, chain)
			before := len(mal.Inbox)
			mal.Send("alice", mt, payload)
			w.Run()
			ag, cancel := false, false
			for _, m := range mal.Inbox[before:] {
				if strings.Contains(string(m.Payload), id.String()) {
					switch m.Type {
					case ref.MsgSwapInAgreement, ref.MsgSwapOutAgreement:
						ag = true
					case ref.MsgCancel:
						cancel = true
					}
				}
			}
			if op == "window-req" {
				a.Recover()
				w.Run()
			}
			hist = append(hist, fmt.Sprintf("%s-%s(%s)=agreement:%v", op, typ, sp, ag))
			r.Seen(fmt.Sprintf("seq/%s/spelling=%s/busy=%v/agreement=%v/cancel=%v", op, sepOf(sp), busy, ag, cancel))
			if busy && (ag || !cancel) {
				r.Violate("busy-refused", "C10|request-on-busy-channel-not-cancelled|"+c10Class(hist), fmt.Sprintf("agreement=%v cancel=%v; history %v seed %d", ag, cancel, hist, seed), traceOf(w))
			}
			if ag {
				live = append(live, id.String())
			}
		case "cancel":
			if len(live) == 0 {
				continue
			}
			i := rng.Intn(len(live))
			id, _ := swap.ParseSwapIdFromString(live[i])
			mal.Send("alice", ref.MsgCancel, &swap.CancelMessage{SwapId: id, Message: "stop"})
			w.Run()
			live = append(live[:i], live[i+1:]...)
			hist = append(hist, "cancel")
		case "restart":
			a.Restart()
			w.Run()
			hist = append(hist, "restart")
		}
		r.Eval()
		if !check(op) {
			return
		}
	}
}

func sepOf(s string) string {
	if strings.Contains(s, ":") {
		return "colon"
	}
	return "x"
}

// c10Class names the root-cause class of a violation from the operation that admitted the second swap:
// a request that arrived in the restart window (before RecoverSwaps restored the older swap), a channel id
// written with the other separator, or neither.
func c10Class(hist []string) string {
	if len(hist) == 0 {
		return "same-spelling"
	}
	last := hist[len(hist)-1]
	if strings.HasPrefix(last, "window-req") {
		return "restart-window"
	}
	h := strings.Join(hist, " ")
	if strings.Contains(h, ":1:") && strings.Contains(h, "x1x") {
		return "mixed-spelling"
	}
	return "same-spelling"
}

// ---------------------------------------------------------------------------
// concurrent part: linearizability of channel acquisition

type c10Op struct {
	Ch      string
	Acquire bool
	ID      string
}

func runC10Conc(r *Run, seed int64) {
	rng := mrand.New(mrand.NewSource(seed))
	w := sim.NewWorld(seed)
	defer w.Close()
	a := w.AddNode("alice", sim.DefaultNodeConfig())
	mal := w.AddPeer("mallory")
	nch := 1 + rng.Intn(2)
	for ch := 0; ch < nch; ch++ {
		w.LN.OpenChannel(spell(rng, ch, "x"), a.ID, mal.ID, 50_000_000_000, 50_000_000_000)
	}
	if a.Start() != nil {
		return
	}
	inc := a.Inc()
	handler := func(typ int, payload []byte) {
		w.DeliverNow(mal.ID, "alice", fmt.Sprintf("%x", typ), payload)
	}
	var clock atomic.Int64
	var mu sync.Mutex
	var ops []porcupine.Operation
	var wg sync.WaitGroup
	workers := 6 + rng.Intn(6)
	for g := 0; g < workers; g++ {
		wg.Add(1)
		lr := mrand.New(mrand.NewSource(seed*131 + int64(g)))
		go func(g int) {
			defer wg.Done()
			var mine []c10Op
			for k := 0; k < 5; k++ {
				time.Sleep(time.Duration(lr.Intn(300)) * time.Microsecond)
				if len(mine) > 0 && lr.Intn(3) == 0 {
					// release one of my swaps
					o := mine[len(mine)-1]
					mine = mine[:len(mine)-1]
					id, _ := swap.ParseSwapIdFromString(o.ID)
					t0 := clock.Add(1)
					handler(ref.MsgCancel, mustJSON(&swap.CancelMessage{SwapId: id, Message: "release"}))
					t1 := clock.Add(1)
					mu.Lock()
					ops = append(ops, porcupine.Operation{ClientId: g, Input: c10Op{Ch: o.Ch, Acquire: false, ID: o.ID}, Call: t0, Output: true, Return: t1})
					mu.Unlock()
					continue
				}
				ch := lr.Intn(nch)
				sp := spell(lr, ch, "")
				norm := sim.NormScid(sp)
				chain := pick(lr, "btc", "lbtc")
				var ok bool
				var id string
				t0 := clock.Add(1)
				if lr.Intn(2) == 0 {
					sm, err := inc.Svc.SwapOut(mal.ID, chain, sp, a.ID, 300_000, 100000)
					ok = err == nil && sm != nil
					if ok {
						id = sm.SwapId.String()
					}
				} else {
					sid := swap.NewSwapId()
					mt, payload := c10Request(pick(lr, "in", "out"), sid, sp, chain)
					handler(mt, payload)
					id = sid.String()
					if rec := a.StoredSwap(id); rec != nil && !isTerminal(string(rec.Current)) {
						ok = true
					}
				}
				t1 := clock.Add(1)
				mu.Lock()
				ops = append(ops, porcupine.Operation{ClientId: g, Input: c10Op{Ch: norm, Acquire: true, ID: id}, Call: t0, Output: ok, Return: t1})
				mu.Unlock()
				if ok {
					mine = append(mine, c10Op{Ch: norm, ID: id})
				}
			}
		}(g)
	}
	wg.Wait()
	model := porcupine.Model{
		Partition: func(history []porcupine.Operation) [][]porcupine.Operation {
			m := map[string][]porcupine.Operation{}
			for _, o := range history {
				m[o.Input.(c10Op).Ch] = append(m[o.Input.(c10Op).Ch], o)
			}
			var res [][]porcupine.Operation
			for _, v := range m {
				res = append(res, v)
			}
			return res
		},
		Init: func() any { return "" },
		Step: func(st, in, out any) (bool, any) {
			holder := st.(string)
			o := in.(c10Op)
			if o.Acquire {
				if out.(bool) {
					return holder == "", o.ID
				}
				// a refusal is always legal when the channel is held; when it is free the node may still
				// refuse for reasons of its own (never observed here), so only success is constrained
				return true, holder
			}
			if holder == o.ID {
				return true, ""
			}
			return true, holder
		},
		DescribeOperation: func(in, out any) string { return fmt.Sprintf("%+v -> %v", in, out) },
	}
	res, _ := porcupine.CheckOperationsVerbose(model, ops, 20*time.Second)
	r.Eval()
	okN := 0
	for _, o := range ops {
		if o.Input.(c10Op).Acquire && o.Output.(bool) {
			okN++
		}
	}
	r.Count("concurrent_operations", len(ops))
	r.Count("concurrent_successful_acquisitions", okN)
	r.Seen(fmt.Sprintf("conc/workers=%d/channels=%d/result=%v", workers, nch, res))
	switch res {
	case porcupine.Illegal:
		b, _ := json.Marshal(ops)
		r.Violate("linearizable", "C10|concurrent-acquisitions-not-linearizable", fmt.Sprintf("two swaps held one channel at the same time; seed %d history %s", seed, b), nil)
	case porcupine.Unknown:
		r.Inconclusive("porcupine timed out")
	}
	// quiescent check
	for ch, ids := range c10Groups(a) {
		if len(ids) > 1 {
			r.Violate("one-per-channel", "C10|two-active-swaps-on-one-channel|concurrent", fmt.Sprintf("channel %s: %v seed %d", ch, ids, seed), nil)
		}
	}
}

func TestC10(t *testing.T) {
	r := newRun(t, "C10", "exploration")
	defer r.Finish()
	r.Rule = "(a) seeded operation sequences on a real node with two channels: local SwapIn/SwapOut, incoming requests (channel ids in both spellings), cancel, restart, and requests arriving in the restart window before RecoverSwaps; after every step the persisted non-terminal swaps are grouped by normalised channel id (<=1 each) and busy channels must answer cancel. (b) 6-11 goroutines acquire/release 1-2 channels concurrently through the real entry points; the boundary history is checked with porcupine against a per-channel test-and-set model (race-detector build). distinct = (op, spelling, busy, outcome) / (workers, channels, checker result)"
	r.Rule += " One in three starting operations of the sequences runs with a transient store error (the 2nd or 3rd write of the new swap fails once)."
	r.Assumptions = []string{"a refusal on a free channel is not judged (only success is constrained by the model)"}
	n := r.N(300, 6000)
	parallelDo(n, 8, func(i int) { runC10Seq(r, r.Seed*9176+int64(i)+1) })
	m := r.N(40, 600)
	parallelDo(m, 4, func(i int) { runC10Conc(r, r.Seed*5581+int64(i)+1) })
	r.Sample(map[string]any{"sequence": "local-out(100:1:0) then req-in(100x1x0)", "expectation": "cancel"})
	co, _ := r.Extra["concurrent_operations"].(int)
	r.Require(co >= m*20, fmt.Sprintf("only %d concurrent operations recorded", co))
}
