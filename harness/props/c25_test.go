package props

import (
	"bytes"
	"fmt"
	mrand "math/rand"
	"os"
	"path/filepath"
	"runtime"
	"sort"
	"strconv"
	"strings"
	"testing"

	"github.com/elementsproject/peerswap/policy"
)

// ---------------------------------------------------------------------------------------
// C25 reference model (written from the property statement, not from policy.go)
// ---------------------------------------------------------------------------------------

type c25Model struct {
	allow, susp         []string // ordered sets
	allowNew, acceptAll bool
	minSwap, reserve    uint64
}

func (m *c25Model) clone() *c25Model {
	c := *m
	c.allow = append([]string{}, m.allow...)
	c.susp = append([]string{}, m.susp...)
	return &c
}

func c25Has(l []string, s string) bool {
	for _, x := range l {
		if x == s {
			return true
		}
	}
	return false
}

func c25Del(l []string, s string) []string {
	var o []string
	for _, x := range l {
		if x != s {
			o = append(o, x)
		}
	}
	return o
}

func c25SetString(l []string) string {
	m := map[string]bool{}
	for _, x := range l {
		m[x] = true
	}
	o := make([]string, 0, len(m))
	for x := range m {
		o = append(o, x)
	}
	sort.Strings(o)
	return strconv.Quote(strings.Join(o, ","))
}

// c25ValidPubkey is the statement's notion of a valid pubkey: 66 lower-case hex characters.
func c25ValidPubkey(s string) bool {
	if len(s) != 66 {
		return false
	}
	for i := 0; i < len(s); i++ {
		c := s[i]
		if !(c >= '0' && c <= '9' || c >= 'a' && c <= 'f') {
			return false
		}
	}
	return true
}

// c25RefParse reads a policy file in the documented `key=value` line format: blank lines and
// lines starting with '#' or ';' are comments, unknown keys are ignored, list keys accumulate,
// scalar keys take their last value, whitespace around key and value is not significant.
func c25RefParse(b []byte, def c25Model) (*c25Model, bool) {
	m := def.clone()
	for _, line := range strings.Split(string(b), "\n") {
		t := strings.TrimSpace(line)
		if t == "" || t[0] == '#' || t[0] == ';' {
			continue
		}
		i := strings.Index(t, "=")
		if i < 0 {
			return nil, false
		}
		k, v := strings.TrimSpace(t[:i]), strings.TrimSpace(t[i+1:])
		pb := func() (bool, bool) {
			switch v {
			case "true", "1":
				return true, true
			case "false", "0":
				return false, true
			}
			return false, false
		}
		switch k {
		case "allowlisted_peers":
			m.allow = append(m.allow, v)
		case "suspicious_peers":
			m.susp = append(m.susp, v)
		case "allow_new_swaps":
			x, ok := pb()
			if !ok {
				return nil, false
			}
			m.allowNew = x
		case "accept_all_peers":
			x, ok := pb()
			if !ok {
				return nil, false
			}
			m.acceptAll = x
		case "min_swap_amount_msat", "reserve_onchain_msat":
			x, err := strconv.ParseUint(v, 10, 64)
			if err != nil {
				return nil, false
			}
			if k == "min_swap_amount_msat" {
				m.minSwap = x
			} else {
				m.reserve = x
			}
		}
	}
	return m, true
}

type c25Probe struct{ label, val string }

// observation vectors: one "name=value" string per observable answer.
func c25ObserveLive(p *policy.Policy, probes []c25Probe) []string {
	var o []string
	for _, pr := range probes {
		o = append(o, fmt.Sprintf("IsPeerAllowed(%s)=%v", pr.label, p.IsPeerAllowed(pr.val)))
		o = append(o, fmt.Sprintf("IsPeerSuspicious(%s)=%v", pr.label, p.IsPeerSuspicious(pr.val)))
	}
	o = append(o, fmt.Sprintf("NewSwapsAllowed=%v", p.NewSwapsAllowed()))
	g := p.Get()
	o = append(o,
		fmt.Sprintf("Get.AllowNewSwaps=%v", g.AllowNewSwaps),
		fmt.Sprintf("Get.AcceptAllPeers=%v", g.AcceptAllPeers),
		fmt.Sprintf("Get.MinSwapAmountMsat=%d", g.MinSwapAmountMsat),
		fmt.Sprintf("Get.ReserveOnchainMsat=%d", g.ReserveOnchainMsat),
		"Get.PeerAllowlist(as set)="+c25SetString(g.PeerAllowlist),
		"Get.SuspiciousPeerList(as set)="+c25SetString(g.SuspiciousPeerList))
	return o
}

func c25ObserveModel(m *c25Model, probes []c25Probe) []string {
	var o []string
	for _, pr := range probes {
		o = append(o, fmt.Sprintf("IsPeerAllowed(%s)=%v", pr.label, m.acceptAll || c25Has(m.allow, pr.val)))
		o = append(o, fmt.Sprintf("IsPeerSuspicious(%s)=%v", pr.label, c25Has(m.susp, pr.val)))
	}
	o = append(o, fmt.Sprintf("NewSwapsAllowed=%v", m.allowNew))
	o = append(o,
		fmt.Sprintf("Get.AllowNewSwaps=%v", m.allowNew),
		fmt.Sprintf("Get.AcceptAllPeers=%v", m.acceptAll),
		fmt.Sprintf("Get.MinSwapAmountMsat=%d", m.minSwap),
		fmt.Sprintf("Get.ReserveOnchainMsat=%d", m.reserve),
		"Get.PeerAllowlist(as set)="+c25SetString(m.allow),
		"Get.SuspiciousPeerList(as set)="+c25SetString(m.susp))
	return o
}

func c25Diff(got, want []string) string {
	var d []string
	for i := range got {
		if i < len(want) && got[i] != want[i] {
			d = append(d, fmt.Sprintf("observed %s, model %s", got[i], want[i][strings.Index(want[i], "=")+1:]))
		}
	}
	return strings.Join(d, "; ")
}

// ---------------------------------------------------------------------------------------
// generators
// ---------------------------------------------------------------------------------------

const (
	c25Absent   = "file-absent"
	c25Empty    = "file-empty"
	c25Sample   = "repo-sample-policy"
	c25KV       = "documented-key=value"
	c25Comments = "comments-and-unknown-keys"
	c25Dups     = "duplicate-lines"
	c25NoNL     = "file-without-trailing-newline"
	c25Spaces   = "spaces-around-equals"
)

var c25Classes = []string{c25Absent, c25Empty, c25Sample, c25KV, c25Comments, c25Dups, c25NoNL, c25Spaces}

func c25HexKey(rng *mrand.Rand) string {
	const hexd = "0123456789abcdef"
	b := []byte{'0', "23"[rng.Intn(2)]}
	for len(b) < 66 {
		b = append(b, hexd[rng.Intn(16)])
	}
	// make sure there is at least one letter so that upper-casing changes the string
	b[2+rng.Intn(64)] = "abcdef"[rng.Intn(6)]
	return string(b)
}

// c25GenLines produces documented key=value lines; listLast forces a list entry as last line.
func c25GenLines(rng *mrand.Rand, pool []string, needList bool) []string {
	var lines []string
	u64 := []string{"0", "1000", "123456789", "100000000", "18446744073709551615"}
	if rng.Intn(2) == 0 {
		lines = append(lines, "reserve_onchain_msat="+u64[rng.Intn(len(u64))])
	}
	if rng.Intn(2) == 0 {
		lines = append(lines, "min_swap_amount_msat="+u64[rng.Intn(len(u64))])
	}
	if rng.Intn(5) < 2 {
		v := "false"
		if rng.Intn(10) < 3 {
			v = "true"
		}
		lines = append(lines, "accept_all_peers="+v)
	}
	if rng.Intn(2) == 0 {
		lines = append(lines, "allow_new_swaps="+[]string{"true", "false"}[rng.Intn(2)])
	}
	perm := rng.Perm(len(pool))
	na := rng.Intn(4)
	if needList && na == 0 {
		na = 1
	}
	for i := 0; i < na && i < len(perm); i++ {
		lines = append(lines, "allowlisted_peers="+pool[perm[i]])
	}
	perm = rng.Perm(len(pool))
	ns := rng.Intn(4)
	if needList && ns == 0 {
		ns = 1
	}
	for i := 0; i < ns && i < len(perm); i++ {
		lines = append(lines, "suspicious_peers="+pool[perm[i]])
	}
	rng.Shuffle(len(lines), func(i, j int) { lines[i], lines[j] = lines[j], lines[i] })
	return lines
}

func c25GenFile(rng *mrand.Rand, class string, pool []string, sample []byte) (content []byte, absent bool) {
	join := func(l []string) []byte {
		if len(l) == 0 {
			return []byte{}
		}
		return []byte(strings.Join(l, "\n") + "\n")
	}
	switch class {
	case c25Absent:
		return nil, true
	case c25Empty:
		return []byte{}, false
	case c25Sample:
		return append([]byte{}, sample...), false
	case c25KV:
		return join(c25GenLines(rng, pool, false)), false
	case c25Comments:
		lines := c25GenLines(rng, pool, false)
		extra := []string{"# peerswap policy", "; semicolon comment", "", "unknown_key=1", "some_future_option=abc",
			"# allowlisted_peers=" + pool[rng.Intn(len(pool))], "# allow_new_swaps=false", "; suspicious_peers=" + pool[rng.Intn(len(pool))], "   "}
		n := 1 + rng.Intn(5)
		for i := 0; i < n; i++ {
			at := rng.Intn(len(lines) + 1)
			e := extra[rng.Intn(len(extra))]
			lines = append(lines[:at], append([]string{e}, lines[at:]...)...)
		}
		return join(lines), false
	case c25Dups:
		lines := c25GenLines(rng, pool, true)
		n := 1 + rng.Intn(3)
		for i := 0; i < n; i++ {
			src := lines[rng.Intn(len(lines))]
			at := rng.Intn(len(lines) + 1)
			lines = append(lines[:at], append([]string{src}, lines[at:]...)...)
		}
		return join(lines), false
	case c25NoNL:
		// otherwise canonical file whose last line (a list entry) is not newline-terminated
		lines := c25GenLines(rng, pool, true)
		for i := len(lines) - 1; i >= 0; i-- {
			if strings.HasPrefix(lines[i], "allowlisted_peers=") || strings.HasPrefix(lines[i], "suspicious_peers=") {
				lines[i], lines[len(lines)-1] = lines[len(lines)-1], lines[i]
				break
			}
		}
		return []byte(strings.Join(lines, "\n")), false
	case c25Spaces:
		lines := c25GenLines(rng, pool, true)
		seps := []string{" = ", "= ", " =", "  =  "}
		for i, l := range lines {
			k := strings.Index(l, "=")
			lines[i] = l[:k] + seps[rng.Intn(len(seps))] + l[k+1:]
		}
		return join(lines), false
	}
	panic("unknown class " + class)
}

type c25Op struct {
	kind     string // add-allowlist remove-allowlist add-suspicious remove-suspicious disable-swaps enable-swaps reload restart
	arg      string
	argLabel string // K<i> or invalid:<kind>
	argClass string // valid | invalid:<kind> | -
}

func (o c25Op) String() string {
	if o.argClass == "-" {
		return o.kind
	}
	if o.argClass == "valid" {
		return fmt.Sprintf("%s(%s)", o.kind, o.argLabel)
	}
	return fmt.Sprintf("%s(%s %q)", o.kind, o.argClass, o.arg)
}

var c25InvalidKinds = []string{"too-short", "too-long", "upper-case", "non-hex", "trailing-newline", "empty"}

func c25Invalid(rng *mrand.Rand, kind string, pool []string) string {
	k := pool[rng.Intn(len(pool))]
	switch kind {
	case "too-short":
		return k[:64+rng.Intn(2)]
	case "too-long":
		return k + "0a"[:1+rng.Intn(2)]
	case "upper-case":
		if rng.Intn(2) == 0 {
			return strings.ToUpper(k)
		}
		b := []byte(k)
		for i := range b {
			if b[i] >= 'a' && b[i] <= 'f' {
				b[i] -= 32
				break
			}
		}
		return string(b)
	case "non-hex":
		b := []byte(k)
		b[rng.Intn(66)] = "gz =#x"[rng.Intn(6)]
		return string(b)
	case "trailing-newline":
		return k + "\n"
	case "empty":
		return ""
	}
	panic(kind)
}

func c25GenOp(rng *mrand.Rand, m *c25Model, pool []string) c25Op {
	w := rng.Intn(84)
	var kind string
	switch {
	case w < 20:
		kind = "add-allowlist"
	case w < 35:
		kind = "remove-allowlist"
	case w < 50:
		kind = "add-suspicious"
	case w < 62:
		kind = "remove-suspicious"
	case w < 68:
		return c25Op{kind: "disable-swaps", argClass: "-"}
	case w < 74:
		return c25Op{kind: "enable-swaps", argClass: "-"}
	case w < 79:
		return c25Op{kind: "reload", argClass: "-"}
	default:
		return c25Op{kind: "restart", argClass: "-"}
	}
	if rng.Intn(4) == 0 {
		ik := c25InvalidKinds[rng.Intn(len(c25InvalidKinds))]
		return c25Op{kind: kind, arg: c25Invalid(rng, ik, pool), argLabel: "invalid:" + ik, argClass: "invalid:" + ik}
	}
	idx := rng.Intn(len(pool))
	if strings.HasPrefix(kind, "remove") && rng.Intn(10) < 6 {
		// bias removals towards entries that are present (generation only)
		list := m.allow
		if kind == "remove-suspicious" {
			list = m.susp
		}
		var present []int
		for i, k := range pool {
			if c25Has(list, k) {
				present = append(present, i)
			}
		}
		if len(present) > 0 {
			idx = present[rng.Intn(len(present))]
		}
	}
	return c25Op{kind: kind, arg: pool[idx], argLabel: fmt.Sprintf("K%d", idx), argClass: "valid"}
}

// ---------------------------------------------------------------------------------------

func TestC25(t *testing.T) {
	r := newRun(t, "C25", "exploration")
	defer r.Finish()
	r.Rule = "model-based: random op sequences (len<=40) over add/remove allowlist, add/remove suspicious (valid pubkeys from a 5-key pool, invalid: too short/long, upper-case, non-hex, trailing newline, empty), disable/enable swaps, ReloadFile, restart (new CreateFromFile replaces the live object) against the real policy.Policy on a real file, for 8 pre-existing file classes. Oracle = reference model (allowlist set, suspicious set, allow_new_swaps, accept_all_peers, untouched scalars) initialised by an independent parser of the documented key=value format. After each op: rejected ops (invalid pubkey, duplicate add, remove of absent) must return an error and leave live answers and file bytes unchanged; other ops must succeed and IsPeerAllowed/IsPeerSuspicious for every probe key, NewSwapsAllowed and Get() (lists compared as sets) must equal the model on the live object, on a fresh CreateFromFile of the same file, and on the live object after ReloadFile. distinct = file class / op / argument class / outcome"
	r.Assumptions = []string{
		"defaults for options missing in the file are those of policy.DefaultPolicy()",
		"policy files are line based key=value; '#' and ';' start comment lines; whitespace around key/value is insignificant; unknown keys are ignored",
		"Get() lists are compared as sets (order and multiplicity are not part of the effective policy)",
	}

	rng := mrand.New(mrand.NewSource(r.Seed*7919 + 25))
	pool := make([]string, 5)
	for i := range pool {
		pool[i] = c25HexKey(rng)
	}
	sample, sampleErr := os.ReadFile("/repo/sample_policy.conf")
	if sampleErr != nil {
		r.Inconclusive("cannot read /repo/sample_policy.conf: " + sampleErr.Error())
	}
	dp := policy.DefaultPolicy()
	def := c25Model{allowNew: dp.AllowNewSwaps, acceptAll: dp.AcceptAllPeers, minSwap: dp.MinSwapAmountMsat, reserve: dp.ReserveOnchainMsat}

	base := t.TempDir()
	nSeq := r.N(640, 24000)
	ops := 0
	applied := 0
	rejected := 0
	stopped := 0
	sampled := map[string]bool{}

	for si := 0; si < nSeq; si++ {
		class := c25Classes[si%len(c25Classes)]
		if class == c25Sample && sampleErr != nil {
			continue
		}
		func() {
			dir, err := os.MkdirTemp(base, "seq")
			if err != nil {
				r.Inconclusive("mkdtemp: " + err.Error())
				return
			}
			defer os.RemoveAll(dir)
			path := filepath.Join(dir, "policy.conf")
			initial, absent := c25GenFile(rng, class, pool, sample)
			if absent {
				if rng.Intn(2) == 0 {
					path = filepath.Join(dir, "sub", "dir", "policy.conf")
				}
			} else if err := os.WriteFile(path, initial, 0o644); err != nil {
				r.Inconclusive("write: " + err.Error())
				return
			}
			model, ok := c25RefParse(initial, def)
			if !ok {
				r.Inconclusive("generator produced a file outside the documented format: " + strconv.Quote(string(initial)))
				return
			}
			// probes: pool keys, invalid strings and entries already in the file
			probes := []c25Probe{}
			for i, k := range pool {
				probes = append(probes, c25Probe{fmt.Sprintf("K%d", i), k})
			}
			for i, k := range append(append([]string{}, model.allow...), model.susp...) {
				if !c25ValidPubkey(k) || !c25Has(pool, k) {
					probes = append(probes, c25Probe{fmt.Sprintf("file-entry%d:%q", i, k), k})
				}
			}
			probes = append(probes, c25Probe{"unknown-valid", c25HexKey(mrand.New(mrand.NewSource(int64(si))))},
				c25Probe{"upper(K0)", strings.ToUpper(pool[0])}, c25Probe{"K1+newline", pool[1] + "\n"}, c25Probe{"empty", ""})

			var history []string
			witness := func(extra string) string {
				return fmt.Sprintf("file class %s; initial file %q; ops: %s; %s", class, initial, strings.Join(history, ", "), extra)
			}
			viol := func(op, fclass, symptom, extra string) {
				r.Violate("policy-model", fmt.Sprintf("C25|%s|%s|%s", op, fclass, symptom), witness(extra), nil)
				stopped++
			}

			live, err := policy.CreateFromFile(path)
			if err != nil {
				if class == c25Sample {
					r.Seen(class + "/initial-load/unparseable")
					return
				}
				viol("initial-load", class, "create-fails", "CreateFromFile error: "+err.Error())
				return
			}
			if d := c25Diff(c25ObserveLive(live, probes), c25ObserveModel(model, probes)); d != "" {
				viol("initial-load", class, "live-differs-from-model", d)
				return
			}
			r.Seen(class + "/initial-load/-/ok")

			maxLen := 40
			if si/5+1 < maxLen {
				maxLen = si/5 + 1 // short sequences first: the first witness kept per signature is small
			}
			n := 1 + rng.Intn(maxLen)
			reloadEvery := rng.Intn(2) == 0
			for oi := 0; oi < n; oi++ {
				op := c25GenOp(rng, model, pool)
				history = append(history, op.String())
				ops++
				if ops%250 == 0 {
					runtime.GC() // policy.go leaves one os.File per CreateFromFile/ReloadFile to the finalizer
				}
				before := c25ObserveLive(live, probes)
				fileBefore, _ := os.ReadFile(path)

				// what the statement demands for this op
				expectReject := false
				argState := op.argClass
				next := model.clone()
				switch op.kind {
				case "add-allowlist", "add-suspicious":
					list := &next.allow
					if op.kind == "add-suspicious" {
						list = &next.susp
					}
					switch {
					case !c25ValidPubkey(op.arg):
						expectReject = true
					case c25Has(*list, op.arg):
						expectReject = true
						argState = "valid-already-present"
					default:
						*list = append(*list, op.arg)
						argState = "valid-new"
					}
				case "remove-allowlist", "remove-suspicious":
					list := &next.allow
					if op.kind == "remove-suspicious" {
						list = &next.susp
					}
					switch {
					case !c25ValidPubkey(op.arg):
						expectReject = true
					case !c25Has(*list, op.arg):
						expectReject = true
						argState = "valid-absent"
					default:
						*list = c25Del(*list, op.arg)
						argState = "valid-present"
					}
				case "disable-swaps":
					argState = fmt.Sprintf("was-%v", model.allowNew)
					next.allowNew = false
				case "enable-swaps":
					argState = fmt.Sprintf("was-%v", model.allowNew)
					next.allowNew = true
				}

				var opErr error
				switch op.kind {
				case "add-allowlist":
					opErr = live.AddToAllowlist(op.arg)
				case "remove-allowlist":
					opErr = live.RemoveFromAllowlist(op.arg)
				case "add-suspicious":
					opErr = live.AddToSuspiciousPeerList(op.arg)
				case "remove-suspicious":
					opErr = live.RemoveFromSuspiciousPeerList(op.arg)
				case "disable-swaps":
					opErr = live.DisableSwaps()
				case "enable-swaps":
					opErr = live.EnableSwaps()
				case "reload":
					opErr = live.ReloadFile()
				case "restart":
					var np *policy.Policy
					np, opErr = policy.CreateFromFile(path)
					if opErr == nil {
						live = np
					}
				}
				r.Eval()
				fileAfter, _ := os.ReadFile(path)
				files := fmt.Sprintf("file before %q, file after %q", fileBefore, fileAfter)

				if expectReject {
					rejected++
					r.Seen(fmt.Sprintf("%s/%s/%s/rejected", class, op.kind, strings.SplitN(argState, ":", 2)[0]))
					if strings.HasPrefix(argState, "invalid:") {
						r.Seen(fmt.Sprintf("invalid-pubkey/%s/%s", op.kind, argState[8:]))
					}
					sigOp := op.kind + "(" + argState + ")"
					switch {
					case opErr == nil:
						fc := class
						if strings.HasPrefix(argState, "invalid:") {
							fc = "any-file"
						}
						viol(sigOp, fc, "must-be-rejected-but-returned-nil", files)
						return
					case !bytes.Equal(fileBefore, fileAfter):
						viol(sigOp, class, "rejected-op-changed-file", files)
						return
					}
					if d := c25Diff(c25ObserveLive(live, probes), before); d != "" {
						viol(sigOp, class, "rejected-op-changed-live-policy", "(model = state before) "+d+"; "+files)
						return
					}
					continue
				}

				model = next
				want := c25ObserveModel(model, probes)
				r.Seen(fmt.Sprintf("%s/%s/%s/applied", class, op.kind, argState))
				applied++
				if opErr != nil {
					viol(op.kind, class, "valid-op-returned-error", fmt.Sprintf("error %q; %s", opErr.Error(), files))
					return
				}
				if d := c25Diff(c25ObserveLive(live, probes), want); d != "" {
					viol(op.kind, class, "live-differs-from-model", d+"; "+files)
					return
				}
				fresh, err := policy.CreateFromFile(path)
				if err != nil {
					viol(op.kind, class, "restart-from-file-fails", fmt.Sprintf("CreateFromFile error %q; %s", err.Error(), files))
					return
				}
				if d := c25Diff(c25ObserveLive(fresh, probes), want); d != "" {
					viol(op.kind, class, "restart-from-file-differs-from-model", d+"; "+files)
					return
				}
				if reloadEvery {
					if err := live.ReloadFile(); err != nil {
						viol(op.kind, class, "reload-fails", fmt.Sprintf("ReloadFile error %q; %s", err.Error(), files))
						return
					}
					if d := c25Diff(c25ObserveLive(live, probes), want); d != "" {
						viol(op.kind, class, "reload-differs-from-model", d+"; "+files)
						return
					}
					r.Count("reload_checks_after_op", 1)
				}
			}
			if !sampled[class] && len(history) >= 3 && len(history) <= 8 {
				sampled[class] = true
				final, _ := os.ReadFile(path)
				r.Sample(map[string]any{"file_class": class, "initial_file": string(initial), "ops": history, "final_file": string(final), "verdict": "all checks passed"})
			}
		}()
	}
	runtime.GC()
	r.Extra["sequences"] = nSeq
	r.Extra["ops"] = ops
	r.Extra["ops_applied"] = applied
	r.Extra["ops_expected_rejected"] = rejected
	r.Extra["sequences_stopped_at_violation"] = stopped
	r.Extra["pubkey_pool_size"] = len(pool)
	r.Require(ops >= 2000, "fewer than 2000 operations executed")
	r.Require(applied >= 500 && rejected >= 300, "too few applied or rejected operations")
	for _, c := range c25Classes {
		r.mu.Lock()
		n := r.distinct[c+"/initial-load/-/ok"]
		r.mu.Unlock()
		if c == c25Sample {
			r.mu.Lock()
			n += r.distinct[c+"/initial-load/unparseable"]
			r.mu.Unlock()
		}
		r.Require(n > 0, "file class never loaded: "+c)
	}
}
