package props

import (
	"bytes"
	"encoding/base64"
	"encoding/hex"
	"encoding/json"
	"fmt"
	mrand "math/rand"
	"reflect"
	"runtime"
	"strconv"
	"strings"
	"sync"
	"testing"
	"time"

	"github.com/elementsproject/peerswap/messages"
	"github.com/elementsproject/peerswap/swap"

	"verifharness/ref"
	"verifharness/sim"
)

// docTypes is the numbering of docs/peer-protocol.md.
var docTypes = map[int]func() any{
	42069: func() any { return &swap.SwapInRequestMessage{} },
	42071: func() any { return &swap.SwapOutRequestMessage{} },
	42073: func() any { return &swap.SwapInAgreementMessage{} },
	42075: func() any { return &swap.SwapOutAgreementMessage{} },
	42077: func() any { return &swap.OpeningTxBroadcastedMessage{} },
	42079: func() any { return &swap.CancelMessage{} },
	42081: func() any { return &swap.CoopCloseMessage{} },
}

// historyMix runs a fixed mix of two-node histories (happy, payment failing -> coop, taker dead -> csv,
// cancel) over all roles and chains and hands every finished world to f before closing it.
func historyMix(r *Run, reps int, f func(h *lcHist)) {
	type hm struct{ chain, typ, variant string }
	var list []hm
	for _, ch := range []string{"btc", "lbtc"} {
		for _, ty := range []string{"out", "in"} {
			for _, v := range []string{"happy", "payfail", "csv", "cancel", "claimfail", "openfail", "heightfail", "coopsendfail", "anysendfail", "cancel-after-announcement-coopsendfail"} {
				list = append(list, hm{ch, ty, v})
			}
		}
	}
	parallelDo(len(list)*reps, 12, func(i int) {
		c := list[i%len(list)]
		victim := "alice"
		lc := lcCase{chain: c.chain, typ: c.typ, victim: victim, variant: c.variant, drain: c.variant == "csv"}
		setup := func(h *lcHist) {
			switch c.variant {
			case "payfail":
				h.p.w.LN.Script = func(payer string, inv *sim.Invoice, n int) sim.Outcome {
					if inv.Type == 1 {
						return sim.OutFail
					}
					return sim.OutSettle
				}
			case "claimfail":
				tk := h.p.taker()
				k := 0
				tk.Fault = func(op string) error {
					if strings.HasSuffix(op, ".preimage") && k < 3 {
						k++
						return fmt.Errorf("injected")
					}
					return nil
				}
			case "coopsendfail":
				// the claim payment fails, the taker wants to close cooperatively, and the first send of its
				// coop_close fails (peer briefly unreachable): whatever it sends next must not carry the key
				h.p.w.LN.Script = func(payer string, inv *sim.Invoice, n int) sim.Outcome {
					if inv.Type == 1 {
						return sim.OutFail
					}
					return sim.OutSettle
				}
				tk := h.p.taker()
				first := true
				tk.Fault = func(op string) error {
					if op == fmt.Sprintf("msg.send:%d", ref.MsgCoopClose) && first {
						first = false
						return fmt.Errorf("injected: peer is not connected")
					}
					return nil
				}
			case "cancel-after-announcement-coopsendfail":
				// the maker cancels right after its announcement (the taker waits for the confirmation); the taker
				// answers with coop_close, whose first send fails
				tk, mk := h.p.taker(), h.p.maker()
				injected := false
				tk.OnCrossing = func(k int64, op string) {
					if strings.HasSuffix(op, ".watchconf") && !injected {
						injected = true
						if id, err := swap.ParseSwapIdFromString(h.p.id); err == nil {
							payload := mustJSON(&swap.CancelMessage{SwapId: id, Message: "maker gives up"})
							done := make(chan struct{})
							go func() { h.p.w.InjectMsg(mk.ID, tk.Name, ref.MsgCancel, payload); close(done) }()
							select {
							case <-done:
							case <-time.After(200 * time.Millisecond):
							}
						}
					}
				}
				first := true
				tk.Fault = func(op string) error {
					if op == fmt.Sprintf("msg.send:%d", ref.MsgCoopClose) && first {
						first = false
						return fmt.Errorf("injected: peer is not connected")
					}
					return nil
				}
			case "anysendfail":
				// every node's first send of each message type fails once
				for _, n := range []*sim.Node{h.p.A, h.p.B} {
					failed := map[string]bool{}
					n.Fault = func(op string) error {
						if strings.HasPrefix(op, "msg.send:") && !failed[op] {
							failed[op] = true
							return fmt.Errorf("injected: peer is not connected")
						}
						return nil
					}
				}
			case "openfail":
				// the maker's wallet cannot fund the opening transaction: the swap is cancelled with an error text
				h.p.maker().Fault = func(op string) error {
					if strings.HasSuffix(op, ".open") {
						return fmt.Errorf("injected: wallet could not fund the transaction")
					}
					return nil
				}
			case "heightfail":
				// the taker's chain backend fails when the announcement is processed
				h.p.taker().Fault = func(op string) error {
					if strings.HasSuffix(op, ".height") || strings.HasSuffix(op, ".validate") {
						return fmt.Errorf("injected: backend unavailable")
					}
					return nil
				}
			case "csv":
				// the taker dies when the announcement arrives
				tk := h.p.taker()
				tk.OnCrossing = func(k int64, op string) {
					if strings.HasSuffix(op, ".watchconf") {
						go tk.Crash()
					}
				}
				h.victim, h.peer = h.p.maker(), h.p.taker()
			case "cancel":
				h.p.w.Sched = func(w *sim.World, it *sim.QView) sim.Decision {
					if it.Kind == "msg" && it.MsgType == ref.MsgOpeningTxBroadcast {
						return sim.Drop
					}
					return sim.Deliver
				}
			}
		}
		h := lcRun(r.Seed*1543+int64(i)+1, lc, setup)
		if c.variant == "cancel" {
			id, _ := swap.ParseSwapIdFromString(h.p.id)
			if id != nil {
				h.p.w.InjectMsg(h.p.maker().ID, h.p.taker().Name, ref.MsgCancel, mustJSON(&swap.CancelMessage{SwapId: id, Message: "stop"}))
				h.p.w.Run()
			}
		}
		f(h)
		h.p.w.Close()
	})
}

// ---------------------------------------------------------------------------
// C21

func c21CheckSent(r *Run, m sim.EvMsg, src string) {
	r.Count("sent_messages_checked", 1)
	mk, ok := docTypes[m.Type]
	if !ok || m.Type%2 == 0 || m.Type < 42069 || m.Type > 42085 {
		r.Violate("numbering", fmt.Sprintf("C21|sent-with-non-protocol-type|%d", m.Type), src, nil)
		return
	}
	v := mk()
	dec := json.NewDecoder(bytes.NewReader(m.Payload))
	dec.DisallowUnknownFields()
	if err := dec.Decode(v); err != nil {
		r.Violate("numbering", fmt.Sprintf("C21|payload-is-not-the-message-of-its-type|%d", m.Type), fmt.Sprintf("%s: %v payload=%s", src, err, m.Payload), nil)
		return
	}
	// decode -> re-encode -> decode gives the same content
	b2, err := json.Marshal(v)
	if err != nil {
		r.Violate("roundtrip", fmt.Sprintf("C21|reencode-fails|%d", m.Type), err.Error(), nil)
		return
	}
	var j1, j2 any
	json.Unmarshal(m.Payload, &j1)
	json.Unmarshal(b2, &j2)
	if !reflect.DeepEqual(j1, j2) {
		r.Violate("roundtrip", fmt.Sprintf("C21|payload-changes-on-reencode|%d", m.Type), fmt.Sprintf("%s\nsent     %s\nreencode %s", src, m.Payload, b2), nil)
	}
	// the hex type string maps back to the same type
	hs := messages.MessageTypeToHexString(messages.MessageType(m.Type))
	if back, err := messages.PeerswapCustomMessageType(hs); err != nil || int(back) != m.Type {
		r.Violate("numbering", fmt.Sprintf("C21|hex-type-string-does-not-map-back|%d", m.Type), fmt.Sprintf("%q -> %v %v", hs, back, err), nil)
	}
	r.Seen(fmt.Sprintf("sent/%d", m.Type))
}

func c21GenValue(rng *mrand.Rand, typ int) swap.PeerMessage {
	str := func() string {
		return pick(rng, "", "a", "☃ snow \u0000 \" \\ </script>", strings.Repeat("x", 1+rng.Intn(2000)), hx(randBytes(33)), "lnsim1...")
	}
	id := swap.NewSwapId()
	if rng.Intn(6) == 0 {
		id = &swap.SwapId{}
	}
	i64 := func() int64 { return pick(rng, int64(0), 1, -1, 1<<63-1, -1<<63, int64(rng.Uint32())) }
	u64 := func() uint64 { return pick(rng, uint64(0), 1, 1<<64-1, 1<<63, uint64(rng.Uint32())) }
	switch typ {
	case 42069:
		return &swap.SwapInRequestMessage{ProtocolVersion: uint8(rng.Intn(256)), SwapId: id, Network: str(), Asset: str(), Scid: str(), Amount: u64(), Pubkey: str(), PremiumLimit: i64()}
	case 42071:
		return &swap.SwapOutRequestMessage{ProtocolVersion: uint8(rng.Intn(256)), SwapId: id, Network: str(), Asset: str(), Scid: str(), Amount: u64(), Pubkey: str(), PremiumLimit: i64()}
	case 42073:
		return &swap.SwapInAgreementMessage{ProtocolVersion: uint8(rng.Intn(256)), SwapId: id, Pubkey: str(), Premium: i64()}
	case 42075:
		return &swap.SwapOutAgreementMessage{ProtocolVersion: uint8(rng.Intn(256)), SwapId: id, Pubkey: str(), Payreq: str(), Premium: i64()}
	case 42077:
		return &swap.OpeningTxBroadcastedMessage{SwapId: id, Payreq: str(), TxId: str(), ScriptOut: rng.Uint32(), BlindingKey: str()}
	case 42079:
		return &swap.CancelMessage{SwapId: id, Message: str()}
	}
	return &swap.CoopCloseMessage{SwapId: id, Message: str(), Privkey: str()}
}

func c21Junk(rng *mrand.Rand, seedPayloads [][]byte, liveID string) (string, []byte, string) {
	if liveID != "" && rng.Intn(8) == 0 {
		// a well-formed cancel for the live swap, padded beyond 100 KiB: just above the limit, within the first
		// KiB above it, or far above
		size := pick(rng, 100*1024+1, 100*1024+1+rng.Intn(1023), 101*1024-1, 101*1024, 150*1024)
		head := fmt.Sprintf(`{"swap_id":%q,"message":"`, liveID)
		pad := size - len(head) - 2
		return "a45f", []byte(head + strings.Repeat("x", pad) + `"}`), "valid-type/oversized-wellformed-cancel"
	}
	if liveID != "" && rng.Intn(8) == 0 {
		// a well-formed cancel for the live swap under a type number next to a peerswap type (even numbers are not
		// peerswap messages), or under the right type but followed by trailing bytes (not a JSON payload)
		cancel := fmt.Sprintf(`{"swap_id":%q,"message":"x"}`, liveID)
		if rng.Intn(2) == 0 {
			return pick(rng, "a460", "a45e", "a462", "a454"), []byte(cancel), "even-neighbour-type/wellformed-cancel"
		}
		return "a45f", []byte(cancel + pick(rng, "}", " garbage", "\x00", cancel, "]")), "valid-type/wellformed-cancel-with-trailing-bytes"
	}
	typeStr := pick(rng, "a455", "a457", "a459", "a45b", "a45d", "a45f", "a461")
	kind := "valid-type"
	switch rng.Intn(10) {
	case 0:
		typeStr = pick(rng, "", "zz", "a45", "a4550", "0xa455", "-a455", "A455", " a455", "a455 ", "ffffffffffffffffffff", "a454", "a456", "a462", "a463", "a465", "a466", "a467", "0", "a453", fmt.Sprintf("%x", rng.Intn(70000)))
		kind = "odd-type-string"
	}
	var payload []byte
	pk := "junk"
	switch rng.Intn(12) {
	case 0:
		payload = []byte(pick(rng, "null", "{}", "[]", "0", "\"x\"", "true", "", " ", "{", "[{}]", "{\"swap_id\":null}", "{\"swap_id\":\"00\"}", "{\"swap_id\":\"zz\"}", "{\"swap_id\":17}", "nul", "{\"swap_id\":{}}"))
		pk = "tiny:" + string(payload)
	case 1:
		payload = bytes.Repeat([]byte("A"), pick(rng, 100*1024-1, 100*1024, 100*1024+1, 300*1024))
		pk = "huge"
	case 2:
		payload = randBytes(1 + rng.Intn(400))
		pk = "random-bytes"
	default:
		// mutate a valid payload harvested from real runs
		if len(seedPayloads) == 0 {
			payload = []byte("{}")
			break
		}
		p := append([]byte(nil), seedPayloads[rng.Intn(len(seedPayloads))]...)
		pk = "mutated-valid"
		switch rng.Intn(6) {
		case 0:
			p = p[:rng.Intn(len(p)+1)]
			pk = "truncated"
		case 1:
			for k := 0; k < 1+rng.Intn(4); k++ {
				p[rng.Intn(len(p))] = byte(rng.Intn(256))
			}
		case 2:
			var m map[string]any
			if json.Unmarshal(p, &m) == nil {
				for k := range m {
					if rng.Intn(3) == 0 {
						m[k] = pick[any](rng, nil, 1.5, "x", []any{}, map[string]any{"a": 1}, true, -1, strings.Repeat("9", 40))
					}
				}
				p, _ = json.Marshal(m)
				pk = "wrong-field-types"
			}
		case 3:
			var m map[string]any
			if json.Unmarshal(p, &m) == nil {
				m["swap_id"] = pick[any](rng, nil, "", "abcd", strings.Repeat("0", 64), strings.Repeat("z", 64), 5)
				p, _ = json.Marshal(m)
				pk = "swap-id-mangled"
			}
		case 4:
			p = append(p, p...)
			pk = "doubled"
		}
		payload = p
	}
	return typeStr, payload, kind + "/" + pk
}

func TestC21(t *testing.T) {
	r := newRun(t, "C21", "exploration")
	defer r.Finish()
	r.Rule = "(sending) every message sent by real nodes in a mix of two-node histories is checked against the numbering of docs/peer-protocol.md (odd, 42069..42085, payload strictly decodes into the message of that number, re-encodes to the same JSON value, hex type string maps back); generated extreme message values go through MarshalPeerswapMessage -> MessageTypeToHexString -> PeerswapCustomMessageType -> json.Unmarshal. (receiving) junk deliveries (odd type strings; null/{} /truncated/mutated/oversized payloads derived from harvested valid ones) to nodes holding swaps in assorted states: all persisted records and the active-swap identity must be unchanged, nothing may be sent, no panic. distinct = sent type / generated type / (junk kind, outcome)"
	r.Assumptions = []string{"malformed = the payload does not decode into the message of its type or fails the message's own field validation", "a payload that is a well-formed message for a live swap from its counterparty is not junk and is skipped by the junk oracle"}
	var mu sync.Mutex
	var harvested [][]byte
	// (sending) + harvest
	historyMix(r, r.N(4, 20), func(h *lcHist) {
		for _, e := range h.p.w.Events() {
			if e.Kind == "msg.send" {
				m := e.P.(sim.EvMsg)
				c21CheckSent(r, m, fmt.Sprintf("%s %s", e.Node, h.c))
				mu.Lock()
				if len(harvested) < 400 {
					harvested = append(harvested, m.Payload)
				}
				mu.Unlock()
			}
		}
		r.Eval()
	})
	// generated values through the codec
	rng := mrand.New(mrand.NewSource(r.Seed + 21))
	for i := 0; i < r.N(4000, 200000); i++ {
		typ := []int{42069, 42071, 42073, 42075, 42077, 42079, 42081}[i%7]
		v := c21GenValue(rng, typ)
		b, mt, err := swap.MarshalPeerswapMessage(v)
		r.Eval()
		if err != nil {
			r.Violate("codec", fmt.Sprintf("C21|marshal-fails|%d", typ), err.Error(), nil)
			continue
		}
		if mt != typ {
			r.Violate("numbering", fmt.Sprintf("C21|type-number-differs-from-protocol|%d", typ), fmt.Sprintf("MarshalPeerswapMessage says %d", mt), nil)
		}
		back, err := messages.PeerswapCustomMessageType(messages.MessageTypeToHexString(messages.MessageType(mt)))
		if err != nil || int(back) != typ {
			r.Violate("numbering", fmt.Sprintf("C21|hex-type-string-does-not-map-back|%d", typ), fmt.Sprint(err), nil)
		}
		out := docTypes[typ]()
		if err := json.Unmarshal(b, out); err != nil {
			r.Violate("codec", fmt.Sprintf("C21|own-encoding-does-not-decode|%d", typ), fmt.Sprintf("%v: %s", err, b), nil)
			continue
		}
		if !reflect.DeepEqual(reflect.ValueOf(v).Elem().Interface(), reflect.ValueOf(out).Elem().Interface()) {
			r.Violate("codec", fmt.Sprintf("C21|content-changes-in-roundtrip|%d", typ), fmt.Sprintf("in  %+v\nout %+v", v, out), nil)
		}
		r.Seen(fmt.Sprintf("generated/%d", typ))
	}
	// (receiving) junk
	junkN := r.N(1500, 20000)
	parallelDo(junkN, 12, func(i int) {
		seed := r.Seed*3571 + int64(i) + 1
		lr := mrand.New(mrand.NewSource(seed))
		p := newPair(seed, pairOpts{chain: pick(lr, "btc", "lbtc"), typ: pick(lr, "out", "in"), amount: 500_000})
		defer p.w.Close()
		if p.startNodes() != nil || p.begin(0) != nil {
			return
		}
		for k := 0; k < lr.Intn(9); k++ {
			p.w.Step()
		}
		target := p.A
		from := p.B.ID
		if lr.Intn(2) == 0 {
			target, from = p.B, p.A.ID
		}
		if lr.Intn(3) == 0 {
			from = hx(randBytes(33))
		}
		for k := 0; k < 5; k++ {
			mu.Lock()
			ts, payload, kind := c21Junk(lr, harvested, p.id)
			mu.Unlock()
			// is it accidentally a proper message? (then it is not junk) — decided by the protocol numbering itself (the
			// type string is a hexadecimal number, odd, 42069..42085), not by the code under test
			if mt, err := strconv.ParseInt(ts, 16, 64); err == nil && mt%2 == 1 && mt >= 42069 && mt <= 42085 && len(payload) <= 100*1024 {
				if mk, ok := docTypes[int(mt)]; ok {
					v := mk()
					// A payload that JSON-decodes (as a whole: json.Unmarshal rejects trailing data) into the message
					// of its type is a (possibly invalid) protocol message, not junk: invalid requests are answered
					// with cancel (C11), so only undecodable payloads, `null`, foreign types and oversized payloads
					// are judged here.
					if json.Unmarshal(payload, v) == nil && strings.TrimSpace(string(payload)) != "null" {
						r.Count("junk_skipped_because_decodable", 1)
						continue
					}
				}
			}
			before := c09Snapshot(target)
			mark := len(p.w.Events())
			errText, panicText := p.w.DeliverNow(from, target.Name, ts, payload)
			after := c09Snapshot(target)
			r.Eval()
			outcome := "ignored"
			if errText != "" {
				outcome = "error-returned"
			}
			r.Seen("junk/" + strings.SplitN(kind, ":", 2)[0] + "/" + outcome)
			det := fmt.Sprintf("type %q payload(%d bytes) %.120q from %s to %s; handler error %q; seed %d", ts, len(payload), payload, from[:8], target.Name, errText, seed)
			if panicText != "" {
				r.Violate("no-panic", "C21|panic-on-junk|"+strings.SplitN(kind, ":", 2)[0]+c21PanicSite(panicText), det+"\n"+panicText[:min(len(panicText), 900)], nil)
				return
			}
			changed := len(before.recs) != len(after.recs)
			for id, b := range before.recs {
				if !bytes.Equal(b, after.recs[id]) {
					changed = true
				}
			}
			for id, a := range before.active {
				if aa, ok := after.active[id]; !ok || aa.Machine != a.Machine || aa.Current != a.Current {
					changed = true
				}
			}
			if changed {
				r.Violate("ignored", "C21|junk-changed-a-swap|"+strings.SplitN(kind, ":", 2)[0], det, nil)
			}
			for _, e := range p.w.Events()[mark:] {
				if e.Node == target.Name && e.Kind == "msg.send" {
					r.Violate("ignored", "C21|junk-answered|"+strings.SplitN(kind, ":", 2)[0], det+fmt.Sprintf(" reply type %d", e.P.(sim.EvMsg).Type), nil)
				}
			}
		}
	})
	sc, _ := r.Extra["sent_messages_checked"].(int)
	r.Sample(map[string]any{"junk": "type a457 payload null", "expectation": "ignored, no panic"})
	r.Require(sc >= 100, fmt.Sprintf("only %d sent messages checked", sc))
}

func c21PanicSite(p string) string {
	for _, l := range strings.Split(p, "\n") {
		if strings.Contains(l, "peerswap/swap.") && !strings.Contains(l, "panic") {
			f := strings.TrimSpace(l)
			if i := strings.Index(f, "("); i > 0 {
				f = f[:i]
			}
			return "|" + f[strings.LastIndex(f, "/")+1:]
		}
	}
	return ""
}

// ---------------------------------------------------------------------------
// C23

type c23Secret struct {
	kind  string
	owner string // node name
	swap  string
	raw   []byte
}

func (s c23Secret) forms() [][]byte {
	h := hex.EncodeToString(s.raw)
	rev := make([]byte, len(s.raw))
	for i := range s.raw {
		rev[i] = s.raw[len(s.raw)-1-i]
	}
	// what fmt prints for a byte slice: "[246 156 3 ...]" (%v), "[f6 9c 03 ...]" (% x), and the JSON array of numbers
	dec := strings.Trim(fmt.Sprint(s.raw), "[]")
	spaced := fmt.Sprintf("% x", s.raw)
	return [][]byte{s.raw, []byte(h), []byte(strings.ToUpper(h)), []byte(base64.StdEncoding.EncodeToString(s.raw)), []byte(base64.RawURLEncoding.EncodeToString(s.raw)), []byte(hex.EncodeToString(rev)),
		[]byte(dec), []byte(strings.ReplaceAll(dec, " ", ",")), []byte(spaced)}
}

func c23Judge(r *Run, h *lcHist) {
	role := map[string]string{} // node -> maker|taker
	role[h.p.maker().Name], role[h.p.taker().Name] = "maker", "taker"
	c23Scan(r, h.p.w, role, []*sim.Node{h.p.A, h.p.B}, h.c.String())
	r.Seen(fmt.Sprintf("%s/%s/%s/final=%s+%s", h.c.chain, h.c.typ, h.c.variant, h.p.state(h.p.A), h.p.state(h.p.B)))
}

// c23Scan scans every message sent in world w for the secrets of its sender.
func c23Scan(r *Run, w *sim.World, role map[string]string, nodes []*sim.Node, caseDesc string) {
	var secrets []c23Secret
	seen := map[string]bool{}
	add := func(kind, owner, swapID string, raw []byte) {
		if len(raw) < 16 {
			return
		}
		k := kind + owner + string(raw)
		if !seen[k] {
			seen[k] = true
			secrets = append(secrets, c23Secret{kind, owner, swapID, raw})
		}
	}
	evs := w.Events()
	for _, e := range evs {
		switch e.Kind {
		case "store.write":
			x := e.P.(sim.EvStore)
			if v := viewRec(x.Bytes); v != nil && len(v.Data.PrivKey) > 0 {
				add("swap-key-of-"+role[e.Node], e.Node, x.SwapID, v.Data.PrivKey)
			}
		case "ln.invoice":
			x := e.P.(sim.EvInvoice)
			if inv := w.LN.Invoice(x.Payreq); inv != nil {
				kind := "claim-preimage"
				if x.Type == 2 {
					kind = "fee-preimage"
				}
				add(kind, e.Node, x.SwapID, unhex(inv.Preimage))
			}
		}
	}
	for _, n := range nodes {
		for _, a := range n.LbtcW.Addrs {
			add("wallet-blinding-key", n.Name, "", a.BlindKey.Serialize())
		}
	}
	msgs := 0
	for _, e := range evs {
		if e.Kind != "msg.send" {
			continue
		}
		m := e.P.(sim.EvMsg)
		msgs++
		for _, s := range secrets {
			if s.owner != e.Node {
				continue // a node can only leak what it knows as its own secret; the peer's preimage is learnt by paying
			}
			for fi, f := range s.forms() {
				if !bytes.Contains(m.Payload, f) {
					continue
				}
				// the one allowed disclosure
				if s.kind == "swap-key-of-taker" && m.Type == ref.MsgCoopClose && fi == 1 {
					var cc swap.CoopCloseMessage
					if json.Unmarshal(m.Payload, &cc) == nil && cc.Privkey == hex.EncodeToString(s.raw) && cc.SwapId.String() == s.swap &&
						strings.Count(string(m.Payload), cc.Privkey) == 1 {
						r.Count("allowed_coop_close_disclosures", 1)
						continue
					}
				}
				r.Violate("no-secret-in-messages", fmt.Sprintf("C23|%s-in-message-type-%d|form=%d", s.kind, m.Type, fi),
					fmt.Sprintf("node %s sent its %s inside a message of type %d; case %s; payload %.300s", e.Node, s.kind, m.Type, caseDesc, m.Payload), nil)
			}
		}
	}
	r.Count("messages_scanned", msgs)
	r.Count("secrets_tracked", len(secrets))
}

func TestC23(t *testing.T) {
	r := newRun(t, "C23", "exploration")
	defer r.Finish()
	r.Rule = "passive scan of every outgoing message of both real nodes in a mix of two-node histories (happy, payment failing -> coop_close, taker dead -> CSV refund, cancel, claim failing) × roles × chains, plus the crash/restart histories of the lifecycle sweep, for the node's own secrets (swap private keys from committed records, claim and fee preimages of invoices it created, wallet blinding keys) in raw, hex (both cases), base64 (std/url) and reversed-hex form; the only allowed hit is the taker's own swap key as `privkey` of the coop_close of that swap. distinct = (chain, type, variant, final states)"
	r.Rule += " In addition one real node in two swaps at once in opposite roles (maker for X with its retransmitter running every 5 ms, taker for Y ending in coop_close), in parallel worlds and one world at a time on a single-CPU process; every copy sent is scanned."
	r.Assumptions = []string{"Bitcoin wallet keys live in the simulated lightningd/bitcoind wallet and never enter the peerswap process", "logs are not scanned (the property speaks of messages)"}
	historyMix(r, r.N(3, 60), func(h *lcHist) { r.Eval(); c23Judge(r, h) })
	lcSweep(r, []string{"btc", "lbtc"}, "happy", false, nil, func(h *lcHist) { c23Judge(r, h) })
	// adversarial counterparties: the C12 histories (agreements with absurd premiums, fee invoices of any size, ...)
	// make the real initiator refuse with error texts; those messages are scanned as well
	{
		rng := mrand.New(mrand.NewSource(r.Seed + 23))
		var cases []c12Case
		for i := 0; i < r.N(120, 2000); i++ {
			amount := pick(rng, uint64(100_000), 250_000, 1_000_000)
			prem := pick(rng, int64(-1<<63), -int64(amount)-1, -int64(amount), -1, 0, 1<<63-1, int64(rng.Intn(5000)), 1<<40)
			c := c12Case{chain: pick(rng, "btc", "lbtc"), role: pick(rng, "out-initiator", "in-initiator"), premium: prem, limit: pick(rng, int64(0), 1000, 100_000), amount: amount,
				rich: rng.Intn(3) == 0, feeEst: "normal", feeSat: pick(rng, uint64(0), 700, 1<<40)}
			cases = append(cases, c)
		}
		var smu sync.Mutex
		c12WorldDone = func(w *sim.World, c c12Case) {
			smu.Lock()
			defer smu.Unlock()
			role := map[string]string{"alice": "maker"}
			if c.role == "out-initiator" {
				role["alice"] = "taker"
			}
			var nodes []*sim.Node
			for _, n := range w.Nodes {
				nodes = append(nodes, n)
			}
			r.Eval()
			c23Scan(r, w, role, nodes, fmt.Sprintf("adversarial responder %+v", c))
		}
		// the C12 judgments of these histories are not C23's business: they go to a run that is never finished
		sink := &Run{ID: "C12-as-workload", Tier: r.Tier, Seed: r.Seed, start: time.Now(), distinct: map[string]int{}, Extra: map[string]any{}}
		parallelDo(len(cases), 12, func(i int) { runC12(sink, r.Seed*7121+int64(i)+1, cases[i]) })
		c12WorldDone = nil
		r.Extra["adversarial_histories_scanned"] = len(cases)
	}
	// one node in two swaps at once, in opposite roles, with its retransmitter running in real time (5 ms)
	{
		swap.VerifSetRetryDur(5 * time.Millisecond)
		type ab struct{ a, b string }
		combos := []ab{{"btc", "btc"}, {"btc", "lbtc"}, {"lbtc", "btc"}, {"lbtc", "lbtc"}}
		parallelDo(len(combos)*r.N(1, 10), 4, func(i int) { runC23TwoRoles(r, r.Seed*2311+int64(i)+1, combos[i%len(combos)].a, combos[i%len(combos)].b) })
		// the same on a single-CPU machine, one world after the other: whatever the process shares between the
		// messages it encodes (pools, scratch buffers) is shared by consecutive messages of this one node
		prev := runtime.GOMAXPROCS(1)
		parallelDo(len(combos)*r.N(1, 4), 1, func(i int) { runC23TwoRoles(r, r.Seed*2333+int64(i)+1, combos[i%len(combos)].a, combos[i%len(combos)].b) })
		runtime.GOMAXPROCS(prev)
		swap.VerifSetRetryDur(time.Hour)
		if n, _ := r.Extra["two_role_worlds_with_coop_close"].(int); n < 2 {
			r.Inconclusive(fmt.Sprintf("only %d two-role worlds reached the coop_close", n))
		}
	}
	ms, _ := r.Extra["messages_scanned"].(int)
	cc, _ := r.Extra["allowed_coop_close_disclosures"].(int)
	r.Sample(map[string]any{"scan": "payload bytes vs {raw, hex, HEX, base64, base64url, reversed hex} of each secret of the sender"})
	r.Require(ms >= 1000 && cc >= 4, fmt.Sprintf("scanned %d messages, saw %d coop_close disclosures", ms, cc))
}
