package props

import (
	"context"
	"fmt"
	"os"
	"path/filepath"
	"regexp"
	"runtime"
	"sort"
	"strings"
	"sync"
	"time"

	"github.com/elementsproject/peerswap/lnd"
	"github.com/elementsproject/peerswap/lwk"
	"github.com/elementsproject/peerswap/onchain"
	"github.com/elementsproject/peerswap/swap"
	"github.com/elementsproject/peerswap/txwatcher"

	"verifharness/sim"
)

// realNode wires a sim node to the real chain watchers (rpc watcher for Bitcoin, rpc or electrum watcher for Liquid).
type realNode struct {
	n        *sim.Node
	ctx      context.Context
	cancel   context.CancelFunc
	btcRPC   *sim.RpcFacade
	lbtcRPC  *sim.RpcFacade
	electrum *sim.ElectrumFacade
	useEl    bool
	useLnd   bool // Bitcoin: the real lnd tx watcher over a fake chain notifier instead of the rpc watcher
	lndChain *sim.LndChainFake
	rpcDelay time.Duration // latency of every chain backend request (0 = none)
	mu       sync.Mutex
}

// start boots a new incarnation with fresh real watchers.
func (rn *realNode) start(noRecover bool) error {
	rn.mu.Lock()
	err := rn.startLocked()
	rn.mu.Unlock()
	if err == nil && !noRecover {
		rn.n.Recover()
	}
	return err
}

func (rn *realNode) startLocked() error {
	if rn.cancel != nil {
		rn.cancel()
	}
	rn.ctx, rn.cancel = context.WithCancel(context.Background())
	w := rn.n.World()
	lat := func(string) error { time.Sleep(rn.rpcDelay); return nil }
	rn.btcRPC = &sim.RpcFacade{C: w.BTC, Hook: lat}
	var bw swap.TxWatcher = txwatcher.NewBlockchainRpcTxWatcher(rn.ctx, rn.btcRPC, 3)
	if rn.useLnd {
		rn.lndChain = &sim.LndChainFake{C: w.BTC, Hook: lat}
		bw = lnd.VerifNewTxWatcher(rn.ctx, rn.lndChain, rn.lndChain, sim.BtcParams, 3, onchain.BitcoinCsv)
	}
	var lw swap.TxWatcher
	if rn.useEl {
		// every Electrum request takes a moment, as a network round trip does: this is where other
		// goroutines get to run between the steps of one observer sweep
		rn.electrum = &sim.ElectrumFacade{C: w.LBTC, Hook: func(string) error { time.Sleep(rn.rpcDelay); return nil }}
		ew, err := lwk.NewElectrumTxWatcher(rn.electrum)
		if err != nil {
			return err
		}
		lw = ew
	} else {
		rn.lbtcRPC = &sim.RpcFacade{C: w.LBTC, Hook: lat}
		lw = txwatcher.NewBlockchainRpcTxWatcher(rn.ctx, rn.lbtcRPC, 2)
	}
	if err := rn.n.Restart(sim.StartOpts{NoRecover: true, BtcWatcher: bw, LbtcWatcher: lw}); err != nil {
		return err
	}
	if err := bw.StartWatchingTxs(); err != nil {
		return err
	}
	if err := lw.StartWatchingTxs(); err != nil {
		return err
	}
	return nil
}

// notify tells the electrum facade about the new tip (the rpc watchers poll on their own).
func (rn *realNode) notify() {
	rn.mu.Lock()
	el := rn.electrum
	rn.mu.Unlock()
	if el != nil {
		el.NotifyTip()
	}
}

func (rn *realNode) stop() {
	rn.mu.Lock()
	defer rn.mu.Unlock()
	if rn.cancel != nil {
		rn.cancel()
	}
}

// pumps deliver queued items concurrently until stop is closed.
func startPumps(w *sim.World, n int) (stop func()) {
	done := make(chan struct{})
	var wg sync.WaitGroup
	for i := 0; i < n; i++ {
		wg.Add(1)
		go func() {
			defer wg.Done()
			for {
				select {
				case <-done:
					return
				default:
				}
				if !w.Step() {
					time.Sleep(150 * time.Microsecond)
				}
			}
		}()
	}
	return func() { close(done); wg.Wait() }
}

// waitUntil polls cond (real time; only used to let concurrent real components make progress).
func waitUntil(max time.Duration, cond func() bool) bool {
	deadline := time.Now().Add(max)
	for time.Now().Before(deadline) {
		if cond() {
			return true
		}
		time.Sleep(500 * time.Microsecond)
	}
	return cond()
}

// ---------------------------------------------------------------------------
// goroutine dump analysis (C18)

type gDump struct {
	id     string
	state  string
	frames []string // function names with argument lists, innermost first
}

func takeDump() []gDump {
	buf := make([]byte, 8<<20)
	n := runtime.Stack(buf, true)
	var res []gDump
	for _, blk := range strings.Split(string(buf[:n]), "\n\n") {
		lines := strings.Split(blk, "\n")
		if len(lines) == 0 || !strings.HasPrefix(lines[0], "goroutine ") {
			continue
		}
		g := gDump{}
		hdr := lines[0]
		g.id = strings.Fields(hdr)[1]
		if i := strings.Index(hdr, "["); i >= 0 {
			g.state = strings.TrimSuffix(hdr[i+1:], "]:")
		}
		for _, l := range lines[1:] {
			if strings.HasPrefix(l, "\t") || strings.HasPrefix(l, "created by") {
				continue
			}
			g.frames = append(g.frames, l)
		}
		res = append(res, g)
	}
	return res
}

var recvRe = regexp.MustCompile(`\(\*SwapStateMachine\)\.SendEvent\((0x[0-9a-f]+)`)

// lockCycle looks for the two lock-cycle shapes that can be read off the stacks without any inference
// about timing. It returns a normalised description ("" if none).
func lockCycle(d []gDump, ptr string) (string, string) {
	// ptr restricts the search to goroutines working on one SwapStateMachine (several worlds share the process)
	blockedInLock := func(g gDump) bool {
		if len(g.frames) < 2 {
			return false
		}
		top := strings.Join(g.frames[:min(4, len(g.frames))], " ")
		return strings.Contains(top, "sync.(*Mutex).Lock") || strings.Contains(top, "sync.(*Mutex).lockSlow") || strings.Contains(top, "sync.(*RWMutex).Lock")
	}
	innerPeerswap := func(g gDump) string {
		for _, f := range g.frames {
			if strings.Contains(f, "github.com/elementsproject/peerswap/") {
				return fnName(f)
			}
		}
		return ""
	}
	// (a) self-deadlock: the same state machine's SendEvent twice on one goroutine, innermost blocked on the mutex
	for _, g := range d {
		if !blockedInLock(g) {
			continue
		}
		seen := map[string]int{}
		var via []string
		for _, f := range g.frames {
			if m := recvRe.FindStringSubmatch(f); m != nil {
				seen[m[1]]++
			}
			if strings.Contains(f, "github.com/elementsproject/peerswap/") {
				via = append(via, fnName(f))
			}
		}
		for recv, n := range seen {
			if ptr != "" && recv != ptr {
				continue
			}
			if n >= 2 && strings.Contains(innerPeerswap(g), "SendEvent") {
				return "self-deadlock|" + c18Via(via), strings.Join(g.frames, "\n")
			}
		}
	}
	// (b) ABBA between a swap mutex and a watcher lock
	var holdsWatcherWantsSwap, holdsSwapWantsWatcher *gDump
	for i := range d {
		g := d[i]
		if !blockedInLock(g) {
			continue
		}
		all := strings.Join(g.frames, "\n")
		if ptr != "" && !strings.Contains(all, "SendEvent("+ptr) {
			continue
		}
		inner := innerPeerswap(g)
		switch {
		case strings.Contains(inner, "SendEvent") && (strings.Contains(all, "HandleCsvTx") || strings.Contains(all, "liquidBlockHeaderSubscriber).Update")):
			holdsWatcherWantsSwap = &d[i]
		case (strings.Contains(inner, "AddWaitFor") || strings.Contains(inner, "Register") || strings.Contains(inner, "TxClaimed")) && strings.Contains(all, "SendEvent"):
			holdsSwapWantsWatcher = &d[i]
		}
	}
	if holdsWatcherWantsSwap != nil && holdsSwapWantsWatcher != nil {
		a, b := innerOuter(*holdsWatcherWantsSwap), innerOuter(*holdsSwapWantsWatcher)
		return "abba|" + a + "~" + b, strings.Join(holdsWatcherWantsSwap.frames, "\n") + "\n----\n" + strings.Join(holdsSwapWantsWatcher.frames, "\n")
	}
	return "", ""
}

// stuckInEvent looks for a goroutine that is inside SendEvent of the given state machine (past its own lock,
// i.e. inside an action or a store write) and blocked on a channel, mutex or condition in peerswap code, with no
// harness frame (simulated service) between SendEvent and the blocking point. It returns a normalised
// description and the stack ("" if none). One dump proves nothing; the caller compares several dumps.
func stuckInEvent(d []gDump, ptr string) (string, string) {
	for _, g := range d {
		st := g.state
		if i := strings.Index(st, ","); i >= 0 {
			st = st[:i]
		}
		switch st {
		case "chan send", "chan receive", "select", "sync.Mutex.Lock", "sync.RWMutex.Lock", "sync.RWMutex.RLock", "sync.Cond.Wait", "semacquire", "sync.WaitGroup.Wait", "chan send (nil chan)", "chan receive (nil chan)", "select (no cases)":
		default:
			continue
		}
		// frames are innermost first: everything before the SendEvent(ptr) frame is inside the event handling
		at := -1
		for i, f := range g.frames {
			if strings.Contains(f, "(*SwapStateMachine).SendEvent("+ptr) {
				at = i
				break
			}
		}
		if at <= 0 {
			continue
		}
		// who performs the blocking operation: the innermost frame that is neither runtime nor sync machinery
		var inner []string
		harness := false
		for _, f := range g.frames[:at] {
			if strings.HasPrefix(f, "verifharness/") {
				if len(inner) == 0 {
					harness = true // blocked inside a simulated service (or parked by the harness)
					break
				}
				continue // a wrapper between the action and a real component further in
			}
			if strings.Contains(f, "github.com/elementsproject/peerswap/") {
				inner = append(inner, fnName(f))
			}
		}
		if harness || len(inner) == 0 {
			continue // waiting inside a simulated service, or at SendEvent's own lock
		}
		if len(inner) > 3 {
			inner = inner[:3]
		}
		return "stuck-in-event-handling|" + st + "|" + strings.Join(inner, "<"), strings.Join(g.frames, "\n")
	}
	return "", ""
}

func fnName(frame string) string {
	f := frame
	if i := strings.LastIndex(f, "("); i > 0 {
		f = f[:i]
	}
	f = strings.TrimPrefix(f, "github.com/elementsproject/peerswap/")
	return f
}

func c18Via(via []string) string {
	// name the frames between the two SendEvents (innermost first)
	var mid []string
	n := 0
	for _, f := range via {
		if strings.HasSuffix(f, "SendEvent") {
			n++
			if n == 2 {
				break
			}
			continue
		}
		if n == 1 {
			mid = append(mid, f)
		}
	}
	if len(mid) > 4 {
		mid = mid[:4]
	}
	return strings.Join(mid, "<")
}

func innerOuter(g gDump) string {
	var ps []string
	for _, f := range g.frames {
		if strings.Contains(f, "github.com/elementsproject/peerswap/") {
			ps = append(ps, fnName(f))
		}
	}
	if len(ps) == 0 {
		return "?"
	}
	if len(ps) > 3 {
		ps = ps[:3]
	}
	return strings.Join(ps, "<")
}

// ---------------------------------------------------------------------------
// race report parsing (C19)

type raceReport struct {
	text  string
	pair  string // unordered pair of the innermost peerswap frames
	inPS  bool   // both stacks contain a peerswap (non-verif) frame
	verif bool   // a verif hook frame is involved
	// thirdParty names the function performing a racing access when that function is not peerswap code
	// (a library's own unsynchronised state, e.g. go-secp256k1-zkp's shared context cache)
	thirdParty string
	// harnessAccess: one of the racing accesses is performed by harness code
	harnessAccess bool
}

func raceLogFiles() []string {
	g := os.Getenv("GORACE")
	var base string
	for _, f := range strings.Fields(g) {
		if strings.HasPrefix(f, "log_path=") {
			base = strings.TrimPrefix(f, "log_path=")
		}
	}
	if base == "" {
		return nil
	}
	m, _ := filepath.Glob(base + "." + fmt.Sprint(os.Getpid()))
	return m
}

var lineNoRe = regexp.MustCompile(`:\d+ \+0x[0-9a-f]+`)

func parseRaceReports(text string) []raceReport {
	var res []raceReport
	parts := strings.Split(text, "==================")
	for _, p := range parts {
		if !strings.Contains(p, "WARNING: DATA RACE") {
			continue
		}
		// split into access stacks: blocks start with "Read at", "Write at", "Previous read at", "Previous write at"
		var stacks [][]string
		var cur []string
		for _, l := range strings.Split(p, "\n") {
			t := strings.TrimSpace(l)
			if strings.HasPrefix(t, "Read at") || strings.HasPrefix(t, "Write at") || strings.HasPrefix(t, "Previous read at") || strings.HasPrefix(t, "Previous write at") ||
				strings.HasPrefix(t, "Atomic") || strings.HasPrefix(t, "Previous atomic") {
				if cur != nil {
					stacks = append(stacks, cur)
				}
				cur = []string{}
				continue
			}
			if strings.HasPrefix(t, "Goroutine ") {
				if cur != nil {
					stacks = append(stacks, cur)
				}
				cur = nil
				continue
			}
			if cur != nil && t != "" && !strings.HasPrefix(t, "/") {
				cur = append(cur, t)
			}
		}
		if cur != nil {
			stacks = append(stacks, cur)
		}
		if len(stacks) < 2 {
			continue
		}
		rr := raceReport{text: p, inPS: true}
		var inner, thirdParty []string
		for _, st := range stacks[:2] {
			found := ""
			// the function performing the racing access: first frame that is not runtime / sync machinery
			for _, f := range st {
				first := f
				if i := strings.Index(first, "/"); i >= 0 {
					first = first[:i]
				} else if i := strings.Index(first, "("); i >= 0 {
					first = first[:i]
				}
				if strings.HasPrefix(f, "verifharness/") {
					rr.harnessAccess = true
					break
				}
				if !strings.Contains(first, ".") || !strings.Contains(f, "/") {
					continue // standard library (no domain in the import path)
				}
				switch {
				case strings.Contains(f, "github.com/elementsproject/peerswap/"):
				case strings.HasPrefix(f, "verifharness/"):
					rr.harnessAccess = true
				default:
					thirdParty = append(thirdParty, fnName(f))
				}
				break
			}
			for _, f := range st {
				if strings.Contains(f, "github.com/elementsproject/peerswap/") {
					name := fnName(f)
					if strings.Contains(name, "Verif") || strings.Contains(name, "verif") {
						rr.verif = true
						continue
					}
					if found == "" {
						found = name
					}
				}
			}
			if found == "" {
				rr.inPS = false
			}
			inner = append(inner, found)
		}
		sort.Strings(inner)
		rr.pair = strings.Join(inner, "~")
		if len(thirdParty) == 2 {
			// both racing accesses are performed by library code on the library's own state
			sort.Strings(thirdParty)
			rr.thirdParty = strings.Join(thirdParty, "~")
		}
		res = append(res, rr)
	}
	return res
}

// caughtUp waits (bounded, real time; only to let the concurrent real watchers make progress, never a verdict) until
// the chain backends have answered something computed from the chains' current versions, then a moment longer for
// the calls that follow from it.
func (rn *realNode) caughtUp() {
	w := rn.n.World()
	rn.notify()
	rn.mu.Lock()
	type lv interface{ LastVersion() int64 }
	var btc, lbtc lv
	if rn.useLnd {
		btc = rn.lndChain
	} else {
		btc = rn.btcRPC
	}
	if rn.useEl {
		lbtc = rn.electrum
	} else {
		lbtc = rn.lbtcRPC
	}
	rn.mu.Unlock()
	waitUntil(time.Second, func() bool {
		return btc.LastVersion() >= w.BTC.VersionNow() && lbtc.LastVersion() >= w.LBTC.VersionNow()
	})
	time.Sleep(4 * time.Millisecond)
}
