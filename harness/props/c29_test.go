package props

import (
	"bytes"
	"encoding/hex"
	"encoding/json"
	"fmt"
	mrand "math/rand"
	"sort"
	"strings"
	"testing"

	"github.com/elementsproject/peerswap/swap"
	"github.com/elementsproject/peerswap/version"
	"go.etcd.io/bbolt"

	"verifharness/sim"
)

// ---------------------------------------------------------------------------
// C29  The database version changes only when no swap is active
//
// The real version.VersionService.SafeUpgrade is run with the real swap.SwapService
// (HasActiveSwaps -> real bbolt store -> IsFinished) of a node whose db file was filled with
// real records (harvested from world runs, rewritten through the store API with every state
// name of the four tables) and a planted stored version. Oracle (from the statement): a
// non-terminal persisted swap => error, stored version and swap bytes unchanged; otherwise
// stored version = current version and swap bytes unchanged.
// ---------------------------------------------------------------------------

var (
	c29VersionBucket = []byte("version")
	c29VersionKey    = []byte("version")
	c29Terminal      = map[swap.StateType]bool{
		swap.State_SwapCanceled: true, swap.State_ClaimedPreimage: true, swap.State_ClaimedCoop: true, swap.State_ClaimedCsv: true,
	}
)

// c29Version is a planted stored version.
type c29Version struct {
	Class  string // absent | current | older | newer | junk
	Name   string // normalised name of the concrete value
	Value  []byte
	NoKey  bool // bucket exists, key missing
	NoBuck bool // bucket missing
}

func c29Versions() []c29Version {
	cur := version.GetCurrentVersion()
	return []c29Version{
		{Class: "absent", Name: "no-key", NoKey: true},
		{Class: "absent", Name: "no-bucket", NoBuck: true},
		{Class: "current", Name: "current", Value: []byte(cur)},
		{Class: "older", Name: "v0.1", Value: []byte("v0.1")},
		{Class: "older", Name: "v0.1.9", Value: []byte("v0.1.9")},
		{Class: "older", Name: "v0.0.1-beta", Value: []byte("v0.0.1-beta")},
		{Class: "newer", Name: "current+.1", Value: []byte(cur + ".1")},
		{Class: "newer", Name: "v0.3", Value: []byte("v0.3")},
		{Class: "newer", Name: "v1.0.0", Value: []byte("v1.0.0")},
		{Class: "junk", Name: "empty-value", Value: []byte{}},
		{Class: "junk", Name: "garbage-text", Value: []byte("garbage")},
		{Class: "junk", Name: "binary", Value: []byte{0x00, 0xff, 0xfe, 0x80}},
		{Class: "junk", Name: "current+newline", Value: []byte(cur + "\n")},
		{Class: "junk", Name: "4KiB", Value: bytes.Repeat([]byte("9."), 2048)},
	}
}

type c29Rec struct {
	Base  *c14Write
	State swap.StateType // state written (override), or the harvested one if Keep
	Keep  bool
	NewID *swap.SwapId // replaces the id if non-nil (to keep ids distinct)
}

type c29Case struct {
	Recs    []c29Rec
	Ver     c29Version
	Restart bool // node restarted (fresh service on the reopened file) between planting and SafeUpgrade
	// Off: the restarted node runs with one chain switched off in its configuration ("btc" | "lbtc"; needs Restart):
	// a swap on a chain that is disabled now is still an active swap in the store
	Off   string
	Class string
	Desc    string
}

type c29Snap struct {
	swaps      map[string][]byte
	verPresent bool
	ver        []byte
}

func c29Snapshot(db *bbolt.DB) c29Snap {
	s := c29Snap{swaps: map[string][]byte{}}
	db.View(func(tx *bbolt.Tx) error {
		if b := tx.Bucket([]byte("swaps")); b != nil {
			b.ForEach(func(k, v []byte) error {
				s.swaps[hex.EncodeToString(k)] = append([]byte{}, v...)
				return nil
			})
		}
		if b := tx.Bucket(c29VersionBucket); b != nil {
			if v := b.Get(c29VersionKey); v != nil {
				s.verPresent = true
				s.ver = append([]byte{}, v...)
			}
		}
		return nil
	})
	return s
}

func (s c29Snap) verString() string {
	if !s.verPresent {
		return "(absent)"
	}
	if len(s.ver) > 40 {
		return fmt.Sprintf("%q…(%d bytes)", s.ver[:40], len(s.ver))
	}
	return fmt.Sprintf("%q", s.ver)
}

func c29SwapsEqual(a, b map[string][]byte) (bool, string) {
	if len(a) != len(b) {
		return false, fmt.Sprintf("%d records before, %d after", len(a), len(b))
	}
	for k, v := range a {
		if w, ok := b[k]; !ok {
			return false, "record " + k[:8] + "… disappeared"
		} else if !bytes.Equal(v, w) {
			return false, "record " + k[:8] + "… bytes changed"
		}
	}
	return true, ""
}

// c29Result is what one execution observed, already judged.
type c29Result struct {
	Active       []swap.StateType // non-terminal states planted
	Err          error
	Before       c29Snap
	After        c29Snap
	Verdicts     []string // violated clauses (normalised names)
	VerdictNotes map[string]string
}

type c29Driver struct {
	r   *Run
	w   *sim.World
	n   *sim.Node
	cur string
}

// run executes one case against the real code and judges it.
func (d *c29Driver) run(c *c29Case) (*c29Result, error) {
	inc := d.n.Inc()
	db := inc.DB
	// reset the two buckets and plant the version
	err := db.Update(func(tx *bbolt.Tx) error {
		if tx.Bucket([]byte("swaps")) != nil {
			if err := tx.DeleteBucket([]byte("swaps")); err != nil {
				return err
			}
		}
		if _, err := tx.CreateBucket([]byte("swaps")); err != nil {
			return err
		}
		if tx.Bucket(c29VersionBucket) != nil {
			if err := tx.DeleteBucket(c29VersionBucket); err != nil {
				return err
			}
		}
		if c.Ver.NoBuck {
			return nil
		}
		b, err := tx.CreateBucket(c29VersionBucket)
		if err != nil {
			return err
		}
		if c.Ver.NoKey {
			return nil
		}
		return b.Put(c29VersionKey, c.Ver.Value)
	})
	if err != nil {
		return nil, fmt.Errorf("reset db: %w", err)
	}
	res := &c29Result{VerdictNotes: map[string]string{}}
	// plant the records through the real store API
	for _, rec := range c.Recs {
		sm := &swap.SwapStateMachine{}
		if err := json.Unmarshal(rec.Base.Bytes, sm); err != nil {
			return nil, fmt.Errorf("harvested record undecodable: %w", err)
		}
		if !rec.Keep {
			sm.Current = rec.State
			if sm.Data != nil {
				sm.Data.FSMState = rec.State
			}
		}
		if rec.NewID != nil {
			sm.SwapId = rec.NewID
		}
		if !c29Terminal[sm.Current] {
			res.Active = append(res.Active, sm.Current)
		}
		if err := inc.Store.UpdateData(sm); err != nil {
			return nil, fmt.Errorf("plant record: %w", err)
		}
	}
	if c.Restart {
		d.n.Cfg.BitcoinEnabled, d.n.Cfg.LiquidEnabled = c.Off != "btc", c.Off != "lbtc"
		if err := d.n.Restart(sim.StartOpts{NoRecover: true}); err != nil {
			return nil, fmt.Errorf("restart: %w", err)
		}
		inc = d.n.Inc()
		db = inc.DB
		if c.Off != "" {
			// the next case gets a node with both chains again
			defer func() {
				d.n.Cfg.BitcoinEnabled, d.n.Cfg.LiquidEnabled = true, true
				d.n.Restart(sim.StartOpts{NoRecover: true})
			}()
		}
	}
	res.Before = c29Snapshot(db)
	if len(res.Before.swaps) != len(c.Recs) {
		return nil, fmt.Errorf("planted %d records, file has %d", len(c.Recs), len(res.Before.swaps))
	}
	vs, err := version.NewVersionService(db)
	if err != nil {
		return nil, fmt.Errorf("NewVersionService: %w", err)
	}
	res.Err = vs.SafeUpgrade(inc.Svc)
	res.After = c29Snapshot(db)

	// ---- oracle, written from the statement -------------------------------------
	add := func(v, note string) {
		res.Verdicts = append(res.Verdicts, v)
		res.VerdictNotes[v] = note
	}
	swapsSame, how := c29SwapsEqual(res.Before.swaps, res.After.swaps)
	if !swapsSame {
		add("swaps-changed", how)
	}
	verSame := res.Before.verPresent == res.After.verPresent && bytes.Equal(res.Before.ver, res.After.ver)
	if len(res.Active) > 0 {
		// "startup fails" is demanded only when the stored version would have to be replaced:
		// with the stored version already current nothing changes, and a restart with active
		// swaps is the ordinary recovery path (correction of an oracle that demanded more than
		// the statement; see DESIGN.md "Corrections").
		needsReplace := !(res.Before.verPresent && string(res.Before.ver) == d.cur)
		if res.Err == nil && needsReplace {
			add("no-error-with-active-swap", "SafeUpgrade returned nil")
		}
		if !verSame {
			add("version-changed-with-active-swap", fmt.Sprintf("stored version %s -> %s", res.Before.verString(), res.After.verString()))
		}
	} else {
		if res.Err != nil {
			add("error-without-active-swap", "SafeUpgrade returned: "+res.Err.Error())
		}
		if !res.After.verPresent || string(res.After.ver) != d.cur {
			add("version-not-current-after-upgrade", fmt.Sprintf("stored version %s -> %s, current is %q", res.Before.verString(), res.After.verString(), d.cur))
		}
	}
	return res, nil
}

func c29StateSet(l []swap.StateType) string {
	m := map[string]bool{}
	for _, s := range l {
		if s == "" {
			s = "(initial)"
		}
		m[string(s)] = true
	}
	var out []string
	for s := range m {
		out = append(out, s)
	}
	sort.Strings(out)
	return strings.Join(out, ",")
}

func TestC29(t *testing.T) {
	r := newRun(t, "C29", "exploration")
	defer r.Finish()
	r.Rule = "real version.NewVersionService(db).SafeUpgrade(real *swap.SwapService on the same bbolt file); the file holds 0-6 real swap records (harvested from two-node world runs of all four roles, rewritten through the real store API) and a planted stored version; swaps bucket bytes and stored version are read through independent transactions before and after. Exhaustive core: every (table, state) of the four state tables as a single-record store × 14 stored-version values of the classes {absent, current, older, newer, junk}, each with and without a node restart between planting and upgrade; plus the empty store × versions; then random mixtures of 0-6 records. distinct = single/(table/state/version value) ∪ mix/(n, #active, all-terminal?, version class)"
	r.Assumptions = []string{
		"SafeUpgrade is called with the swap service before Start/RecoverSwaps as in both mains (nodes are started with recovery disabled so that planted records are not driven forward)",
		"terminal states are exactly State_SwapCanceled, State_ClaimedPreimage, State_ClaimedCoop, State_ClaimedCsv",
	}
	rng := mrand.New(mrand.NewSource(r.Seed + 29))

	// ---- harvest real records ----------------------------------------------------
	writes, problems := c14Harvest(r.Seed, 0)
	for _, p := range problems {
		r.CountIn("harvest_problems", p)
	}
	baseByRole := map[string]*c14Write{} // richest record of each role (last write of the happy path)
	var pool []*c14Write
	for i := range writes {
		wr := &writes[i]
		sm := &swap.SwapStateMachine{}
		if json.Unmarshal(wr.Bytes, sm) != nil || sm.SwapId == nil {
			continue
		}
		pool = append(pool, wr)
		role := c14RoleName(sm)
		if sm.Current == swap.State_ClaimedPreimage && (wr.Scenario == "out-btc" || wr.Scenario == "in-btc") {
			baseByRole[role] = wr
		}
	}
	_, byTable := c14AllStates()
	tables := make([]string, 0, len(byTable))
	for k := range byTable {
		tables = append(tables, k)
	}
	sort.Strings(tables)
	for _, tab := range tables {
		if baseByRole[tab] == nil {
			r.Inconclusive("no completed real record harvested for role " + tab)
			return
		}
	}
	r.Extra["harvested_records"] = len(pool)

	w := sim.NewWorld(r.Seed + 2900)
	defer w.Close()
	n := w.AddNode("carol", sim.DefaultNodeConfig())
	if err := n.Start(sim.StartOpts{NoRecover: true}); err != nil {
		r.Inconclusive("cannot start node: " + err.Error())
		return
	}
	d := &c29Driver{r: r, w: w, n: n, cur: version.GetCurrentVersion()}
	versions := c29Versions()
	broken := 0
	exec := func(c *c29Case) *c29Result {
		res, err := d.run(c)
		if err != nil {
			broken++
			if broken <= 3 {
				r.Inconclusive("harness problem in case " + c.Desc + ": " + err.Error())
			}
			return nil
		}
		r.Eval()
		r.Seen(c.Class)
		if len(res.Active) > 0 {
			r.Count("cases_with_active_swap", 1)
		} else {
			r.Count("cases_all_terminal_or_empty", 1)
		}
		for _, vd := range res.Verdicts {
			r.CountIn("violating_cases_by_clause", vd+"|stored="+c.Ver.Class)
		}
		if res.Err != nil {
			r.Count("upgrade_refused", 1)
		} else {
			r.Count("upgrade_accepted", 1)
		}
		return res
	}

	// ---- exhaustive core: single-record stores --------------------------------------
	type cell struct{ ver, verdict string }
	singleBad := map[cell]map[string]string{} // -> state(with table) -> witness
	nonTerminalStates := map[string]bool{}
	for _, tab := range tables {
		for _, st := range byTable[tab] {
			if !c29Terminal[st] {
				nonTerminalStates[tab+"/"+string(st)] = true
			}
		}
	}
	sampled := 0
	for _, tab := range tables {
		for _, st := range byTable[tab] {
			for _, v := range versions {
				for _, mode := range []string{"", "restart", "restart-btc-off", "restart-lbtc-off"} {
					restart, off := mode != "", ""
					switch mode {
					case "restart-btc-off":
						off = "btc"
					case "restart-lbtc-off":
						off = "lbtc"
					}
					if off != "" && (v.Class == "current" || v.Class == "junk") {
						continue // (the chain switch matters where the stored version would be replaced)
					}
					stName := string(st)
					if stName == "" {
						stName = "(initial)"
					}
					offTag := ""
					if off != "" {
						offTag = "/" + off + "-disabled"
					}
					c := &c29Case{Recs: []c29Rec{{Base: baseByRole[tab], State: st}}, Ver: v, Restart: restart, Off: off,
						Class: fmt.Sprintf("single/%s/%s/stored=%s:%s%s", tab, stName, v.Class, v.Name, offTag),
						Desc:  fmt.Sprintf("one %s record (a Bitcoin swap) in state %s, stored version %s:%s, %s", tab, stName, v.Class, v.Name, mode)}
					res := exec(c)
					if res == nil {
						continue
					}
					if sampled < 3 && rng.Intn(200) == 0 {
						sampled++
						r.Sample(map[string]any{"case": c.Desc, "error": fmt.Sprint(res.Err), "version_before": res.Before.verString(), "version_after": res.After.verString()})
					}
					for _, vd := range res.Verdicts {
						k := cell{v.Class + ":" + v.Name, vd}
						if singleBad[k] == nil {
							singleBad[k] = map[string]string{}
						}
						if _, ok := singleBad[k][tab+"/"+stName]; !ok {
							singleBad[k][tab+"/"+stName] = fmt.Sprintf("%s: %s (error=%v, stored version %s -> %s)", c.Desc, res.VerdictNotes[vd], res.Err, res.Before.verString(), res.After.verString())
						}
					}
				}
			}
		}
	}
	// empty store
	for _, v := range versions {
		for _, restart := range []bool{false, true} {
			c := &c29Case{Ver: v, Restart: restart, Class: "empty/stored=" + v.Class + ":" + v.Name,
				Desc: fmt.Sprintf("empty store, stored version %s:%s, restart=%v", v.Class, v.Name, restart)}
			res := exec(c)
			if res == nil {
				continue
			}
			for _, vd := range res.Verdicts {
				r.Violate("exhaustive-empty", fmt.Sprintf("C29|%s|stored=%s|empty-store", vd, v.Class),
					fmt.Sprintf("%s: %s (error=%v)", c.Desc, res.VerdictNotes[vd], res.Err), nil)
			}
		}
	}
	// report the exhaustive core: one signature per root cause. If a clause fails for every
	// state where it applies, the state is not part of the cause.
	stateIndependent := map[string]bool{} // "class|verdict"
	var cells []cell
	for k := range singleBad {
		cells = append(cells, k)
	}
	sort.Slice(cells, func(i, j int) bool { return cells[i].ver+cells[i].verdict < cells[j].ver+cells[j].verdict })
	for _, k := range cells {
		m := singleBad[k]
		vclass := strings.SplitN(k.ver, ":", 2)[0]
		var sts []string
		for s := range m {
			sts = append(sts, s)
		}
		sort.Strings(sts)
		applies := len(nonTerminalStates)
		if strings.Contains(k.verdict, "without-active") || k.verdict == "version-not-current-after-upgrade" {
			applies = 0
			for _, tab := range tables {
				for _, st := range byTable[tab] {
					if c29Terminal[st] {
						applies++
					}
				}
			}
		}
		if k.verdict != "swaps-changed" && len(m) == applies {
			stateIndependent[vclass+"|"+k.verdict] = true
			r.Violate("exhaustive-single", fmt.Sprintf("C29|%s|stored=%s|any-state", k.verdict, vclass),
				fmt.Sprintf("holds for all %d applicable (table,state) pairs with stored version %s; minimal witness: %s", applies, k.ver, m[sts[0]]), nil)
			continue
		}
		for _, s := range sts {
			r.Violate("exhaustive-single", fmt.Sprintf("C29|%s|stored=%s|state=%s", k.verdict, vclass, s), m[s], nil)
		}
	}

	// ---- random mixtures -------------------------------------------------------------
	terminalList := []swap.StateType{swap.State_SwapCanceled, swap.State_ClaimedPreimage, swap.State_ClaimedCoop, swap.State_ClaimedCsv}
	nMix := r.N(1500, 60000)
	for i := 0; i < nMix; i++ {
		nrec := rng.Intn(7)
		mode := rng.Intn(10)
		v := versions[rng.Intn(len(versions))]
		c := &c29Case{Ver: v, Restart: rng.Intn(4) == 0}
		usedIDs := map[string]bool{}
		oneActiveAt := -1
		if nrec > 0 {
			oneActiveAt = rng.Intn(nrec)
		}
		for k := 0; k < nrec; k++ {
			base := pool[rng.Intn(len(pool))]
			rec := c29Rec{Base: base}
			sm := &swap.SwapStateMachine{}
			json.Unmarshal(base.Bytes, sm)
			tab := c14RoleName(sm)
			switch {
			case mode < 4: // all terminal
				rec.State = terminalList[rng.Intn(4)]
			case mode < 7: // exactly one non-terminal among terminal ones
				rec.State = terminalList[rng.Intn(4)]
				if k == oneActiveAt {
					for {
						rec.State = byTable[tab][rng.Intn(len(byTable[tab]))]
						if !c29Terminal[rec.State] {
							break
						}
					}
				}
			case mode < 9: // any state of the record's own table
				rec.State = byTable[tab][rng.Intn(len(byTable[tab]))]
			default: // the harvested records as they were written
				rec.Keep = true
			}
			if usedIDs[base.SwapID] {
				id := new(swap.SwapId)
				rng.Read(id[:])
				rec.NewID = id
			}
			usedIDs[base.SwapID] = true
			c.Recs = append(c.Recs, rec)
		}
		res := func() *c29Result {
			c.Desc = fmt.Sprintf("mixture #%d (seed %d): %d records, stored version %s:%s, restart=%v", i, r.Seed, nrec, v.Class, v.Name, c.Restart)
			// class needs the number of active records: known after planting; compute from the plan
			act := 0
			for _, rec := range c.Recs {
				st := rec.State
				if rec.Keep {
					sm := &swap.SwapStateMachine{}
					json.Unmarshal(rec.Base.Bytes, sm)
					st = sm.Current
				}
				if !c29Terminal[st] {
					act++
				}
			}
			ab := fmt.Sprint(act)
			if act >= 2 {
				ab = "2+"
			}
			c.Class = fmt.Sprintf("mix/n=%d/active=%s/stored=%s", nrec, ab, v.Class)
			return exec(c)
		}()
		if res == nil {
			continue
		}
		if i%400 == 7 {
			r.Sample(map[string]any{"case": c.Desc, "active_states": c29StateSet(res.Active), "error": fmt.Sprint(res.Err), "version_before": res.Before.verString(), "version_after": res.After.verString()})
		}
		for _, vd := range res.Verdicts {
			sig := fmt.Sprintf("C29|%s|stored=%s|mixture", vd, v.Class)
			if stateIndependent[v.Class+"|"+vd] {
				sig = fmt.Sprintf("C29|%s|stored=%s|any-state", vd, v.Class) // same cause as in the exhaustive core
			}
			r.Violate("mixture", sig, fmt.Sprintf("%s; non-terminal states present: [%s]: %s (error=%v, stored version %s -> %s)",
				c.Desc, c29StateSet(res.Active), res.VerdictNotes[vd], res.Err, res.Before.verString(), res.After.verString()), nil)
		}
	}
	r.Extra["exhaustive"] = true
	r.Extra["exhaustive_note"] = fmt.Sprintf("single-record stores: all %d (table,state) pairs × %d stored-version values × restart yes/no; empty store × versions × restart", func() int {
		c := 0
		for _, t := range tables {
			c += len(byTable[t])
		}
		return c
	}(), len(versions))
	r.Extra["harness_problems"] = broken
	r.Require(broken == 0, fmt.Sprintf("%d cases could not be executed", broken))
	ca, _ := r.Extra["cases_with_active_swap"].(int)
	ct, _ := r.Extra["cases_all_terminal_or_empty"].(int)
	r.Require(ca > 200 && ct > 200, "too few cases on one side of the oracle")
}
