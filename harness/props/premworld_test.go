package props

import (
	"context"
	"encoding/json"
	"fmt"
	"math/big"
	mrand "math/rand"

	"github.com/btcsuite/btcd/btcec/v2"
	"github.com/elementsproject/peerswap/premium"
	"github.com/elementsproject/peerswap/swap"

	"verifharness/ref"
	"verifharness/sim"
)

// built-in default rates (ppm) as documented: BTC swap-in 0 / swap-out 2000, L-BTC swap-in 0 / swap-out 1000
var premBuiltin = map[string]int64{"btc/in": 0, "btc/out": 2000, "lbtc/in": 0, "lbtc/out": 1000}

// runResponderPremium: a real responder node, permissive policy, with a rate table in which all twelve
// (layer, asset, direction) entries differ — peer-specific, stored global, built-in — and in which a configured rate of
// exactly 0 ppm sits in front of non-zero lower layers. Every (asset, direction) is requested once per layer setting; the
// premium in the agreement must be trunc(amount * selected rate / 10^6). The reference selection is made by the harness
// from the table it wrote, never read back from the node. sigPrefix distinguishes the property that runs it.
func runResponderPremium(r *Run, sigPrefix string, seed int64) {
	rng := mrand.New(mrand.NewSource(seed))
	w := sim.NewWorld(seed)
	defer w.Close()
	nc := sim.DefaultNodeConfig()
	nc.PolicyText = "accept_all_peers=true\nmin_swap_amount_msat=1000\n"
	nc.BtcBalance, nc.LbtcBalance = 1<<40, 1<<40
	node := w.AddNode("alice", nc)
	mal := w.AddPeer("mallory")
	if err := node.Start(); err != nil {
		r.Inconclusive("start: " + err.Error())
		return
	}
	ctx := context.Background()
	ps := node.Inc().Premium
	type slot struct {
		chain, typ string
		asset      premium.AssetType
		op         premium.OperationType
	}
	slots := []slot{{"btc", "in", premium.BTC, premium.SwapIn}, {"btc", "out", premium.BTC, premium.SwapOut},
		{"lbtc", "in", premium.LBTC, premium.SwapIn}, {"lbtc", "out", premium.LBTC, premium.SwapOut}}
	// layer settings: which layers are configured for the slot under test
	// the first four rounds never touch the peer's own entry: the only thing that changes between them is the stored
	// global rate (a node that remembers what it resolved for a peer would keep charging the old one)
	layers := []string{"builtin", "global", "global-changed", "global-zero", "global-again", "peer", "peer-zero-over-global", "peer-negative", "peer-removed-global-changed"}
	if seed%2 == 1 {
		layers = []string{"builtin", "peer-zero-over-builtin", "peer-over-builtin", "peer-removed", "global", "peer", "peer-zero-over-global", "global-zero", "peer-over-global-zero", "peer-negative"}
	}
	hadPeerRate := map[string]bool{}
	n := 0
	stored := map[string]int64{} // the stored-global reference table
	for _, layer := range layers {
		// fresh, pairwise different values for every slot so that a premium computed with another slot's rate shows
		global := map[string]int64{}
		peer := map[string]int64{}
		for i, s := range slots {
			k := s.chain + "/" + s.typ
			g := int64(3000 + 700*i + rng.Intn(300))
			p := int64(11000 + 900*i + rng.Intn(300))
			switch layer {
			case "builtin":
			case "global", "global-changed", "global-again", "peer-removed-global-changed":
				global[k] = g + int64(len(layer))*13
			case "peer-removed":
			case "peer":
				global[k], peer[k] = g, p
			case "peer-zero-over-global":
				global[k], peer[k] = g, 0
			case "global-zero":
				global[k] = 0
			case "peer-zero-over-builtin":
				peer[k] = 0
			case "peer-over-builtin", "peer-over-global-zero":
				peer[k] = p
			case "peer-negative":
				global[k], peer[k] = g, -p
			}
		}
		for _, s := range slots {
			k := s.chain + "/" + s.typ
			if _, keep := peer[k]; hadPeerRate[k] && !keep {
				ps.DeleteRate(ctx, mal.ID, s.asset, s.op)
				hadPeerRate[k] = false
			}
			if v, ok := global[k]; ok {
				pr, _ := premium.NewPremiumRate(s.asset, s.op, premium.NewPPM(v))
				if err := ps.SetDefaultRate(ctx, pr); err != nil {
					r.Inconclusive("SetDefaultRate: " + err.Error())
					return
				}
			}
			if v, ok := peer[k]; ok {
				pr, _ := premium.NewPremiumRate(s.asset, s.op, premium.NewPPM(v))
				if err := ps.SetRate(ctx, mal.ID, pr); err != nil {
					r.Inconclusive("SetRate: " + err.Error())
					return
				}
				hadPeerRate[k] = true
			}
		}
		// a stored global rate cannot be deleted through the API: from the first "global" layer on, the slot keeps a
		// stored global value; the reference tracks what was written last
		for _, s := range slots {
			k := s.chain + "/" + s.typ
			if v, ok := global[k]; ok {
				stored[k] = v
			}
		}
		for _, s := range slots {
			k := s.chain + "/" + s.typ
			rate, from := premBuiltin[k], "builtin"
			if v, ok := stored[k]; ok {
				rate, from = v, "global"
			}
			if v, ok := peer[k]; ok {
				rate, from = v, "peer"
			}
			n++
			scid := fmt.Sprintf("%dx1x0", 100+n)
			w.LN.OpenChannel(scid, node.ID, mal.ID, 5_000_000_000, 5_000_000_000)
			amount := pick(rng, uint64(100_000), 250_000, 999_999, 1_000_000, 1_234_567)
			key, _ := btcec.NewPrivateKey()
			asset, network := "", ""
			if s.chain == "lbtc" {
				asset = hx(sim.PolicyAsset())
			} else {
				network = sim.BtcParams.Name
			}
			id := swap.NewSwapId()
			before := len(mal.Inbox)
			if s.typ == "in" {
				mal.Send("alice", ref.MsgSwapInRequest, &swap.SwapInRequestMessage{ProtocolVersion: 7, SwapId: id, Network: network, Asset: asset, Scid: scid, Amount: amount, Pubkey: hx(key.PubKey().SerializeCompressed()), PremiumLimit: 1 << 40})
			} else {
				mal.Send("alice", ref.MsgSwapOutRequest, &swap.SwapOutRequestMessage{ProtocolVersion: 7, SwapId: id, Network: network, Asset: asset, Scid: scid, Amount: amount, Pubkey: hx(key.PubKey().SerializeCompressed()), PremiumLimit: 1 << 40})
			}
			w.Run()
			got, agreed := int64(0), false
			for _, m := range mal.Inbox[before:] {
				switch m.Type {
				case ref.MsgSwapInAgreement:
					var ag swap.SwapInAgreementMessage
					json.Unmarshal(m.Payload, &ag)
					got, agreed = ag.Premium, true
				case ref.MsgSwapOutAgreement:
					var ag swap.SwapOutAgreementMessage
					json.Unmarshal(m.Payload, &ag)
					got, agreed = ag.Premium, true
				}
			}
			// the swap is ended so that the next request is not refused for other reasons
			mal.Send("alice", ref.MsgCancel, &swap.CancelMessage{SwapId: id, Message: "done"})
			w.Run()
			r.Eval()
			r.Count("responder_premium_requests", 1)
			if !agreed {
				r.CountIn("responder_premium_not_agreed", k+"/"+layer)
				continue
			}
			r.Count("responder_premium_agreements", 1)
			want := new(big.Int).Mul(new(big.Int).SetUint64(amount), big.NewInt(rate))
			want.Quo(want, big.NewInt(1_000_000)) // truncation toward zero
			ok := want.Cmp(big.NewInt(got)) == 0
			r.Seen(fmt.Sprintf("responder-premium/%s/%s/rate-from=%s/zero=%v/ok=%v", k, layer, from, rate == 0, ok))
			if !ok {
				// which rate would explain the observed premium?
				expl := "no-configured-rate"
				for k2, v := range premBuiltin {
					if x := new(big.Int).Quo(new(big.Int).Mul(new(big.Int).SetUint64(amount), big.NewInt(v)), big.NewInt(1_000_000)); x.Cmp(big.NewInt(got)) == 0 {
						expl = "builtin-of-" + k2
					}
				}
				for k2, v := range stored {
					if x := new(big.Int).Quo(new(big.Int).Mul(new(big.Int).SetUint64(amount), big.NewInt(v)), big.NewInt(1_000_000)); x.Cmp(big.NewInt(got)) == 0 {
						expl = "global-of-" + k2
					}
				}
				for k2, v := range peer {
					if x := new(big.Int).Quo(new(big.Int).Mul(new(big.Int).SetUint64(amount), big.NewInt(v)), big.NewInt(1_000_000)); x.Cmp(big.NewInt(got)) == 0 {
						expl = "peer-rate-of-" + k2
					}
				}
				r.Violate("responder-premium", fmt.Sprintf("%s|%s|%s", sigPrefix, k, layer),
					fmt.Sprintf("agreement premium %d (as if %s), reference %s = trunc(%d * %d ppm (%s) / 10^6); seed %d", got, expl, want, amount, rate, from, seed), nil)
			}
		}
	}
}
