package props

import (
	"fmt"
	"strings"
	"sync"
	"testing"
	"time"

	"github.com/elementsproject/peerswap/swap"

	"verifharness/ref"
	"verifharness/sim"
)

type c06Case struct {
	chain, typ string
	pers       sim.Personality
	script     string // outcome sequence of claim payment attempts: S settle, F fail, P error-while-pending, E error-although-settled; last repeats
	resolve    string // what happens later to a pending HTLC: settle | fail | never
	timer      string // none | after-pay | late
	claimFail  int
	cancelAt   string // none | before-conf | after-pay
	crashAt    int64
	flavor     string
	crashOp    string
	downBlocks int // blocks that arrive while the crashed taker is down (past the payment window)
}

func (c c06Case) victim() string {
	if c.typ == "out" {
		return "alice"
	}
	return "bob"
}

func persName(p sim.Personality) string {
	if p == sim.LNDLike {
		return "LND"
	}
	return "CLN"
}

// runC06 executes one history and returns the history plus the number of coop_close messages judged.
func runC06(r *Run, seed int64, c c06Case, record bool) *lcHist {
	lc := lcCase{chain: c.chain, typ: c.typ, victim: c.victim(), variant: c.script + "/" + c.resolve, crashAt: c.crashAt, flavor: c.flavor, name: c.crashOp}
	var states []string
	h := lcRunCustom(seed, lc, func(h *lcHist) {
		w := h.p.w
		if strings.Contains(c.script, "P") {
			w.CallBlockLimit = 40 * time.Millisecond
		}
		w.LN.Pers[h.victim.ID] = c.pers
		w.LN.Script = func(payer string, inv *sim.Invoice, n int) sim.Outcome {
			if inv.Type != 1 {
				return sim.OutSettle
			}
			i := n - 1
			if i >= len(c.script) {
				i = len(c.script) - 1
			}
			switch c.script[i] {
			case 'F':
				return sim.OutFail
			case 'P':
				return sim.OutErrPending
			case 'E':
				return sim.OutErrSettled
			}
			return sim.OutSettle
		}
		if c.claimFail > 0 {
			n := 0
			h.victim.Fault = func(op string) error {
				if strings.HasSuffix(op, ".preimage") && n < c.claimFail {
					n++
					return fmt.Errorf("injected: claim broadcast failed")
				}
				return nil
			}
		}
		if record {
			h.victim.RecordCrossings = true
		}
		if c.downBlocks > 0 {
			h.whileDown = func(h *lcHist) { h.p.chainObj().Mine(c.downBlocks) }
		}
		// online oracle
		w.Subscribe(func(e *sim.Event) {
			if e.Node != h.victim.Name {
				return
			}
			switch e.Kind {
			case "store.write":
				x := e.P.(sim.EvStore)
				if len(states) == 0 || states[len(states)-1] != x.State {
					states = append(states, x.State)
				}
			case "msg.send":
				m := e.P.(sim.EvMsg)
				if m.Type != ref.MsgCoopClose {
					return
				}
				r.Count("coop_close_messages_judged", 1)
				pending, settled := false, false
				for _, inv := range w.LN.Invoices {
					if inv.SwapID != h.p.id || inv.Type != 1 {
						continue
					}
					for _, a := range w.LN.AttemptsLocked(h.victim.ID, inv.Hash) {
						switch a.State {
						case "pending":
							pending = true
						case "settled":
							settled = true
						}
					}
				}
				from := "?"
				for i := len(states) - 1; i >= 0; i-- {
					if !strings.Contains(states[i], "SendPrivkey") && !strings.Contains(states[i], "SendCoopClose") {
						from = states[i]
						break
					}
				}
				r.Seen(fmt.Sprintf("coop_close/%s/%s/from=%s/pending=%v/settled=%v/pers=%s", c.chain, h.victimRole(), from, pending, settled, persName(c.pers)))
				if pending || settled {
					st := "pending"
					if settled {
						st = "settled"
					}
					r.Violate("no-key-after-payment", fmt.Sprintf("C06|coop_close|payment=%s|%s|from=%s|pers=%s", st, h.victimRole(), from, persName(c.pers)),
						fmt.Sprintf("taker sent coop_close (its swap private key) while its claim payment is %s in the Lightning ground truth; case %+v seed %d", st, c, seed), nil)
				}
			}
		})
	}, func(h *lcHist) {
		p := h.p
		// --- after the normal run: later events
		if c.cancelAt == "after-pay" {
			h.peerSendCancel()
			h.settle()
		}
		if c.timer == "after-pay" || c.timer == "late" {
			p.w.Advance(11 * time.Minute)
			h.settle()
		}
		switch c.resolve {
		case "settle":
			p.w.LN.ResolveAllPending(h.victim.ID, true)
		case "fail":
			p.w.LN.ResolveAllPending(h.victim.ID, false)
		}
		idle := 2 * time.Second
		if c.resolve == "never" {
			idle = 5 * time.Millisecond // the node stays blocked on the HTLC that never resolves
		}
		p.w.WaitIdle(idle)
		h.settle()
		if c.timer == "late" {
			p.w.Advance(11 * time.Minute)
			h.settle()
		}
		// a claim broadcast that failed a few times (fewer than the retry budget of 20) is retried until it
		// succeeds, without the help of a restart
		if c.claimFail > 0 && c.claimFail <= 10 && c.crashAt == 0 && c.resolve != "never" && p.w.Blocked() == 0 {
			paid := false
			for _, inv := range p.w.LN.InvoicesOfSwap(p.id, 1) {
				_, s := p.w.LN.PendingOrSettled(h.victim.ID, inv.Hash)
				paid = paid || s
			}
			got := false
			for _, s := range h.spendsOK {
				if s.Op == "preimage" {
					got = true
				}
			}
			if paid && !got {
				r.Violate("claims-after-payment", fmt.Sprintf("C06|claim-not-retried-after-failed-broadcast|%s|pers=%s", h.victimRole(), persName(c.pers)),
					fmt.Sprintf("claim payment settled, the claim broadcast failed %d times and then worked again, but the taker made no further attempt (state %s) before any restart; case %+v seed %d", c.claimFail, p.state(h.victim), c, seed), traceOf(p.w))
			}
		}
		// a restart and some more blocks: the taker must keep trying to claim
		h.victim.Fault = nil
		h.victim.Restart()
		h.settle()
		p.mine(2)
		p.w.WaitIdle(idle)
		h.settle()
	})
	// offline clause: once the payment settled the taker ends with a preimage claim accepted by the chain
	settled := false
	for _, inv := range h.p.w.LN.InvoicesOfSwap(h.p.id, 1) {
		_, s := h.p.w.LN.PendingOrSettled(h.victim.ID, inv.Hash)
		settled = settled || s
	}
	final := h.p.state(h.victim)
	claimed := false
	for _, s := range h.spendsOK {
		if s.Op == "preimage" {
			claimed = true
		}
	}
	r.Seen(fmt.Sprintf("history/%s/%s/script=%s/resolve=%s/timer=%s/claimfail=%d/crash=%s:%s/settled=%v/final=%s", c.chain, h.victimRole(), c.script, c.resolve, c.timer, c.claimFail, c.flavor, c.crashOp, settled, final))
	if settled && !claimed && h.p.w.Blocked() == 0 {
		r.Violate("claims-after-payment", fmt.Sprintf("C06|paid-but-never-claimed|%s|final=%s|pers=%s", h.victimRole(), final, persName(c.pers)),
			fmt.Sprintf("claim payment settled but no preimage claim of the taker was accepted by the chain after the drain steps; case %+v seed %d", c, seed), traceOf(h.p.w))
	}
	if len(h.panics) > 0 {
		r.Violate("no-panic", "C06|panic|"+h.victimRole(), h.panics[0], nil)
	}
	return h
}

// peerSendCancel lets the (real) peer node's identity send a cancel for the swap.
func (h *lcHist) peerSendCancel() {
	id, err := swap.ParseSwapIdFromString(h.p.id)
	if err != nil {
		return
	}
	h.p.w.InjectMsg(h.peer.ID, h.victim.Name, ref.MsgCancel, mustJSON(&swap.CancelMessage{SwapId: id, Message: "peer cancels"}))
}

// lcRunCustom is lcRun with an extra phase after the standard script.
func lcRunCustom(seed int64, c lcCase, setup func(h *lcHist), after func(h *lcHist)) *lcHist {
	p := newPair(seed, pairOpts{chain: c.chain, typ: c.typ, amount: 1_000_000})
	h := &lcHist{c: c, p: p}
	h.victim, h.peer = p.A, p.B
	if c.victim == "bob" {
		h.victim, h.peer = p.B, p.A
	}
	h.attach()
	h.victim.CrashAt, h.victim.CrashFlavor = c.crashAt, c.flavor
	if setup != nil {
		setup(h)
	}
	if err := p.startNodes(); err != nil {
		return h
	}
	p.begin(0)
	findID := func() {
		if p.id == "" {
			for id := range p.A.StoredSwaps() {
				p.id = id
			}
		}
	}
	findID()
	h.settle()
	findID()
	for i := 0; i < 4; i++ {
		p.chainObj().Mine(1)
		h.settle()
		p.w.WaitIdle(20 * time.Millisecond)
	}
	if after != nil {
		after(h)
	}
	h.ops = append([]string(nil), h.victim.CrossOps...)
	return h
}

func TestC06(t *testing.T) {
	r := newRun(t, "C06", "fault_enumeration")
	defer r.Finish()
	r.Rule = "taker histories (swap-out sender, swap-in receiver; both chains; CLN-like and LND-like Lightning personalities) over scripted payment-attempt outcome sequences {settle, fail, error-while-HTLC-pending (later settled / failed / never resolved), error-although-settled}, negotiation timer fired after the payment / late, claim broadcast failing 0/3/25 times, peer cancel after the payment, and a crash at every boundary crossing of the payment/claim phase followed by Start+RecoverSwaps (the crashes around the first two payment calls also with the payment window elapsing while the taker is down, so that recovery reaches the key-revealing state without a new payment attempt); online oracle at every outgoing coop_close against the Lightning ground truth over all incarnations; offline: settled payment => preimage claim accepted by the chain after restart and blocks. distinct = coop_close classes (role, state it came from, payment state, personality) and history classes"
	r.Assumptions = []string{"error-while-pending models an RPC/stream failure of sendpay+waitsendpay / SendPaymentV2 while the HTLC stays in flight; a retry then answers in-flight (CLN: error, LND: payment in transition)", "RecoverClaimPayment blocks while the payment is in flight, as waitsendpay / TrackPaymentV2 do"}
	var cases []c06Case
	scripts := []struct{ s, res string }{{"S", ""}, {"FS", ""}, {"FFS", ""}, {"F", ""}, {"P", "settle"}, {"P", "fail"}, {"P", "never"}, {"FP", "settle"}, {"E", ""}, {"FE", ""}}
	for _, ch := range []string{"btc", "lbtc"} {
		for _, ty := range []string{"out", "in"} {
			for _, pers := range []sim.Personality{sim.CLNLike, sim.LNDLike} {
				for _, sc := range scripts {
					for _, tm := range []string{"none", "after-pay", "late"} {
						for _, cf := range []int{0, 3, 25} {
							if !r.Thorough() {
								// quick: a covering subset
								if (cf == 3 && tm != "none") || (cf == 25 && sc.s != "S" && sc.s != "E") || (tm == "late" && sc.s == "FFS") {
									continue
								}
							}
							cases = append(cases, c06Case{chain: ch, typ: ty, pers: pers, script: sc.s, resolve: sc.res, timer: tm, claimFail: cf, cancelAt: "none"})
						}
					}
					cases = append(cases, c06Case{chain: ch, typ: ty, pers: pers, script: sc.s, resolve: sc.res, timer: "none", cancelAt: "after-pay"})
				}
			}
		}
	}
	// crash enumeration over the payment/claim phase for the settle, err-pending and err-settled scripts
	var mu sync.Mutex
	var crashCases []c06Case
	type base struct {
		c c06Case
	}
	var bases []c06Case
	for _, ch := range []string{"btc", "lbtc"} {
		for _, ty := range []string{"out", "in"} {
			for _, pers := range []sim.Personality{sim.CLNLike, sim.LNDLike} {
				for _, sc := range []struct{ s, res string }{{"S", ""}, {"P", "settle"}, {"E", ""}, {"FS", ""}} {
					bases = append(bases, c06Case{chain: ch, typ: ty, pers: pers, script: sc.s, resolve: sc.res, timer: "after-pay", cancelAt: "none"})
				}
			}
		}
	}
	parallelDo(len(bases), 8, func(i int) {
		b := bases[i]
		h := runC06(r, r.Seed*8191+int64(i)+1, b, true)
		r.Eval()
		first := -1
		for k, op := range h.ops {
			if strings.HasSuffix(op, ".watchconf") && first < 0 {
				first = k
			}
		}
		if first < 0 {
			first = 0
		}
		mu.Lock()
		step := 1
		if !r.Thorough() {
			step = 2
		}
		payCalls := 0
		for k := first; k < len(h.ops); k++ {
			if strings.Contains(h.ops[k], "ln.rebalance") {
				payCalls++
			}
			// the first two payment calls and the crossing right after each are always crash points
			aroundPay := payCalls <= 2 && (strings.Contains(h.ops[k], "ln.rebalance") || (k > 0 && strings.Contains(h.ops[k-1], "ln.rebalance")))
			if (k-first)%step != 0 && !aroundPay {
				continue
			}
			for _, fl := range []string{"before", "after"} {
				c := b
				c.crashAt, c.flavor, c.crashOp = int64(k+1), fl, h.ops[k]
				crashCases = append(crashCases, c)
				// the same crash around the claim payment with the payment window over by the time the taker is
				// back: recovery then reaches the key-revealing state without a new payment attempt
				if aroundPay {
					c.downBlocks = 70
					if b.chain == "btc" {
						c.downBlocks = 510
					}
					crashCases = append(crashCases, c)
				}
			}
		}
		mu.Unlock()
		h.p.w.Close()
	})
	all := append(cases, crashCases...)
	parallelDo(len(all), 12, func(i int) {
		h := runC06(r, r.Seed*8191+int64(i)+10_000, all[i], false)
		r.Eval()
		if i%97 == 0 {
			r.Sample(map[string]any{"case": fmt.Sprintf("%+v", all[i]), "final": h.p.state(h.victim), "restarts": h.restarts})
		}
		h.p.w.Close()
	})
	r.Extra["scripted_histories"] = len(cases)
	r.Extra["crash_histories"] = len(crashCases)
	cc, _ := r.Extra["coop_close_messages_judged"].(int)
	r.Require(cc >= 30, fmt.Sprintf("only %d coop_close messages observed", cc))
}
