//go:build !race

package props

const raceEnabled = false
