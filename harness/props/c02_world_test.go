package props

import (
	"bytes"
	"encoding/json"
	"fmt"

	"github.com/btcsuite/btcd/btcec/v2"
	"github.com/elementsproject/peerswap/swap"

	"verifharness/ref"
	"verifharness/sim"
)

// runC02Funded: the script a real maker actually funds. The node requests / answers a protocol-7 swap; the scripted
// taker fills the fields of its own message that the maker does not validate with other values (protocol version of
// the agreement 0/6/8/255). If the maker broadcasts an opening transaction, the output it announces must carry the
// script of (taker key, maker key, invoice hash, CSV of the chain for protocol 7) – the three spending paths of the
// statement with that CSV and no other.
func runC02Funded(r *Run, seed int64, chainName, typ string, agVersion uint8) {
	w := sim.NewWorld(seed)
	defer w.Close()
	m := w.AddNode("alice", sim.DefaultNodeConfig())
	p := w.AddPeer("mallory")
	w.LN.OpenChannel("100x1x0", m.ID, p.ID, 5_000_000_000, 5_000_000_000)
	if m.Start() != nil {
		r.Inconclusive("start")
		return
	}
	chain := w.BTC
	if chainName == "lbtc" {
		chain = w.LBTC
	}
	takerKey, _ := btcec.NewPrivateKey()
	takerPub := takerKey.PubKey().SerializeCompressed()
	var makerPub []byte
	amount := uint64(400_000)
	if typ == "in" {
		sm, err, _ := m.SwapIn(p.ID, chainName, "100x1x0", amount, 100000)
		if err != nil || sm == nil {
			r.Inconclusive("swap-in not started")
			return
		}
		w.Run()
		rq := p.Take(ref.MsgSwapInRequest)
		if rq == nil {
			r.Inconclusive("no request")
			return
		}
		var req swap.SwapInRequestMessage
		json.Unmarshal(rq.Payload, &req)
		makerPub = unhex(req.Pubkey)
		p.Send("alice", ref.MsgSwapInAgreement, &swap.SwapInAgreementMessage{ProtocolVersion: agVersion, SwapId: sm.SwapId, Pubkey: hx(takerPub), Premium: 5})
		w.Run()
	} else {
		asset, network := "", sim.BtcParams.Name
		if chainName == "lbtc" {
			asset, network = hx(sim.PolicyAsset()), ""
		}
		id := swap.NewSwapId()
		p.Send("alice", ref.MsgSwapOutRequest, &swap.SwapOutRequestMessage{ProtocolVersion: 7, SwapId: id, Asset: asset, Network: network, Scid: "100x1x0", Amount: amount, Pubkey: hx(takerPub), PremiumLimit: 1_000_000})
		w.Run()
		ag := p.Take(ref.MsgSwapOutAgreement)
		if ag == nil {
			r.Inconclusive("no agreement")
			return
		}
		var a swap.SwapOutAgreementMessage
		json.Unmarshal(ag.Payload, &a)
		makerPub = unhex(a.Pubkey)
		w.LN.PeerPay(p.ID, a.Payreq)
		w.Run()
	}
	r.Eval()
	ann := p.Take(ref.MsgOpeningTxBroadcast)
	funded := chain.TxsBy("alice", "open")
	r.Seen(fmt.Sprintf("funded-script/%s/%s/agreement-version=%d/announced=%v/funded=%d", chainName, typ, agVersion, ann != nil, len(funded)))
	if ann == nil && len(funded) == 0 {
		return // refused: nothing locked
	}
	r.Count("funded_scripts_judged", 1)
	det := func(s string) string {
		return fmt.Sprintf("%s; chain %s, maker role %s, agreement protocol_version %d, seed %d", s, chainName, typ, agVersion, seed)
	}
	if ann == nil || len(funded) != 1 {
		r.Violate("funded-script", fmt.Sprintf("C02|funded-without-announcement|%s|%s", chainName, typ), det(fmt.Sprintf("announcement=%v, %d opening transactions", ann != nil, len(funded))), traceOf(w))
		return
	}
	var o swap.OpeningTxBroadcastedMessage
	json.Unmarshal(ann.Payload, &o)
	inv := w.LN.Invoice(o.Payreq)
	tx := funded[0]
	if inv == nil || tx.ID != o.TxId || int(o.ScriptOut) >= len(tx.Outs) {
		return // C08's subject
	}
	got := tx.Outs[o.ScriptOut].Script
	want := refPk(takerPub, makerPub, unhex(inv.Hash), ref.CSV(chainName, 7))
	if !bytes.Equal(got, want) {
		which := "another script"
		for _, csv := range []uint32{60, 1008, 10080, 1007, 59, 10079, 144} {
			if bytes.Equal(got, refPk(takerPub, makerPub, unhex(inv.Hash), csv)) {
				which = fmt.Sprintf("the script with CSV %d", csv)
			}
		}
		r.Violate("funded-script", fmt.Sprintf("C02|funded-output-has-other-script|%s|%s|agreement-version=%d", chainName, typ, agVersion),
			det(fmt.Sprintf("the maker locked its funds in %s instead of the protocol-7 script of this chain (CSV %d): %x", which, ref.CSV(chainName, 7), got)), traceOf(w))
	}
}
