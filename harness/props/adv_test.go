package props

import (
	"bytes"
	"crypto/rand"
	"crypto/sha256"
	"encoding/hex"
	"encoding/json"

	"github.com/btcsuite/btcd/btcec/v2"
	"github.com/btcsuite/btcd/chaincfg/chainhash"
	"github.com/btcsuite/btcd/wire"
	"github.com/elementsproject/peerswap/swap"
	"github.com/vulpemventures/go-elements/transaction"

	"verifharness/ref"
	"verifharness/sim"
)

// gtOut is what the adversary (and therefore ground truth) knows about one output it built.
type gtOut struct {
	Script []byte
	Value  uint64 // the value really committed to
	Asset  []byte // 32-byte asset id really committed to (nil for bitcoin)
}

type outSpec struct {
	Script []byte
	Value  uint64
	// liquid only
	Asset       []byte // 32 bytes, asset committed to
	Explicit    bool
	BlindPub    []byte
	RewindAsset []byte // asset claimed in the range proof message (forged disclosure)
	RewindAbf   []byte
	Abf         []byte
}

func randBytes(n int) []byte {
	b := make([]byte, n)
	rand.Read(b)
	return b
}

func p2wpkhScript() []byte { return append([]byte{0x00, 0x14}, randBytes(20)...) }

// buildBtcTx builds a funding transaction (fake wallet inputs) with the given outputs.
func buildBtcTx(inputs int, outs []outSpec) (string, []gtOut) {
	tx := wire.NewMsgTx(2)
	for i := 0; i < inputs; i++ {
		var h chainhash.Hash
		rand.Read(h[:])
		tx.AddTxIn(wire.NewTxIn(wire.NewOutPoint(&h, uint32(i)), nil, [][]byte{{0x30}, {0x02}}))
	}
	var gt []gtOut
	for _, o := range outs {
		tx.AddTxOut(wire.NewTxOut(int64(o.Value), o.Script))
		gt = append(gt, gtOut{Script: o.Script, Value: o.Value})
	}
	var buf bytes.Buffer
	tx.Serialize(&buf)
	return hex.EncodeToString(buf.Bytes()), gt
}

// attackerAsset is a 32-byte asset id different from the policy asset.
var attackerAsset = bytes.Repeat([]byte{0x42}, 32)

func policyAssetID() []byte { return sim.PolicyAsset()[1:] }

// buildLiquidTx builds a funding transaction with the given (blinded or explicit) outputs.
func buildLiquidTx(inputs int, outs []outSpec) (string, []gtOut, error) {
	var txo []*transaction.TxOutput
	var gt []gtOut
	for _, o := range outs {
		asset := o.Asset
		if asset == nil {
			asset = policyAssetID()
		}
		if o.Explicit {
			txo = append(txo, sim.ExplicitOut(append([]byte{0x01}, asset...), o.Value, o.Script))
		} else {
			bo, err := sim.BuildBlindedOutput(sim.BlindedOut{Script: o.Script, BlindPub: o.BlindPub, Value: o.Value, Asset: asset, RewindAsset: o.RewindAsset, Abf: o.Abf, RewindAbf: o.RewindAbf})
			if err != nil {
				return "", nil, err
			}
			txo = append(txo, bo)
		}
		gt = append(gt, gtOut{Script: o.Script, Value: o.Value, Asset: asset})
	}
	txo = append(txo, sim.ExplicitOut(sim.PolicyAsset(), 250, []byte{}))
	gt = append(gt, gtOut{Script: []byte{}, Value: 250, Asset: policyAssetID()})
	_, h := sim.FundLiquid(inputs, txo)
	return h, gt, nil
}

// advSwap is the adversary's view of one swap in which it plays the maker.
type advSwap struct {
	chain    string
	version  uint8
	id       *swap.SwapId
	makerKey *btcec.PrivateKey
	takerPub []byte
	amount   uint64 // requested amount
	premium  int64
	scid     string
	blindKey *btcec.PrivateKey
}

func (a *advSwap) makerPub() []byte { return a.makerKey.PubKey().SerializeCompressed() }

func mustJSON(v any) []byte {
	b, err := json.Marshal(v)
	if err != nil {
		panic(err)
	}
	return b
}

func sha(b []byte) []byte {
	h := sha256.Sum256(b)
	return h[:]
}

func hx(b []byte) string { return hex.EncodeToString(b) }

func unhex(s string) []byte {
	b, _ := hex.DecodeString(s)
	return b
}

// refPk is the reference P2WSH program for given parameters.
func refPk(takerPub, makerPub, hash []byte, csv uint32) []byte {
	return ref.P2WSH(ref.OpeningScript(takerPub, makerPub, hash, csv))
}
