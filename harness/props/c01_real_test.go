package props

import (
	"encoding/json"
	"fmt"
	"sync"
	"time"

	"github.com/btcsuite/btcd/btcec/v2"
	"github.com/elementsproject/peerswap/swap"

	"verifharness/ref"
	"verifharness/sim"
)

// c01Real: the depth clause with the REAL confirmation watchers in the loop. An honest opening transaction gets its
// first confirmation, the block is then replaced by an empty one (the reorganisation happens while the transaction
// is below the required depth, so no confirmation report can be in flight) and the transaction stays unconfirmed for
// a while or for good. A claim payment made while the transaction has fewer than the required confirmations on the
// best chain is a violation.
type c01Real struct {
	chain   string
	watcher string // btc: rpc | lnd; lbtc: rpc | electrum
	role    string // out-sender | in-receiver
	pattern string // plain | reorg-then-never | reorg-then-later | reorg-twice-then-later
}

func runC01Real(r *Run, seed int64, c c01Real) {
	w := sim.NewWorld(seed)
	defer w.Close()
	node := w.AddNode("alice", sim.DefaultNodeConfig())
	mal := w.AddPeer("mallory")
	scid := "100x1x0"
	w.LN.OpenChannel(scid, node.ID, mal.ID, 5_000_000_000, 5_000_000_000)
	rn := &realNode{n: node, useLnd: c.watcher == "lnd", useEl: c.watcher == "electrum"}
	defer rn.stop()
	if err := rn.start(false); err != nil {
		r.Inconclusive("start: " + err.Error())
		return
	}
	chain := w.BTC
	if c.chain == "lbtc" {
		chain = w.LBTC
	}
	need := ref.MinConfs(c.chain)
	amount := uint64(500_000)
	makerKey, _ := btcec.NewPrivateKey()
	blind, _ := btcec.NewPrivateKey()
	makerPub := makerKey.PubKey().SerializeCompressed()
	asset, network := "", ""
	if c.chain == "lbtc" {
		asset = hx(sim.PolicyAsset())
	} else {
		network = sim.BtcParams.Name
	}
	var id *swap.SwapId
	var takerPub []byte
	var onchainSat, claimMsat uint64
	if c.role == "out-sender" {
		sm, err, _ := node.SwapOut(mal.ID, c.chain, scid, amount, 100000)
		if err != nil || sm == nil {
			r.Inconclusive("swap-out not started")
			return
		}
		id = sm.SwapId
		w.Run()
		m := mal.Take(ref.MsgSwapOutRequest)
		if m == nil {
			r.Inconclusive("no request")
			return
		}
		var req swap.SwapOutRequestMessage
		json.Unmarshal(m.Payload, &req)
		takerPub = unhex(req.Pubkey)
		onchainSat, claimMsat = amount, (amount+7)*1000
		fee := w.LN.NewInvoice(mal.ID, 300_000, "", id.String(), "fee", 2, 600, 0)
		mal.Send("alice", ref.MsgSwapOutAgreement, &swap.SwapOutAgreementMessage{ProtocolVersion: 7, SwapId: id, Pubkey: hx(makerPub), Payreq: fee.Payreq, Premium: 7})
		w.Run()
	} else {
		id = swap.NewSwapId()
		mal.Send("alice", ref.MsgSwapInRequest, &swap.SwapInRequestMessage{ProtocolVersion: 7, SwapId: id, Network: network, Asset: asset, Scid: scid, Amount: amount, Pubkey: hx(makerPub), PremiumLimit: 1_000_000})
		w.Run()
		m := mal.Take(ref.MsgSwapInAgreement)
		if m == nil {
			r.Inconclusive("no agreement")
			return
		}
		var ag swap.SwapInAgreementMessage
		json.Unmarshal(m.Payload, &ag)
		takerPub = unhex(ag.Pubkey)
		onchainSat, claimMsat = uint64(int64(amount)+ag.Premium), amount*1000
	}
	exp := uint64(86400)
	cltv := int64(503)
	if c.chain == "lbtc" {
		exp, cltv = 3600, 29
	}
	inv := w.LN.NewInvoice(mal.ID, claimMsat, "", id.String(), "claim", 1, exp, cltv)
	pk := refPk(takerPub, makerPub, unhex(inv.Hash), ref.CSV(c.chain, 7))
	var hexTx string
	if c.chain == "btc" {
		hexTx, _ = buildBtcTx(1, []outSpec{{Script: pk, Value: onchainSat}})
	} else {
		hexTx, _, _ = buildLiquidTx(1, []outSpec{{Script: pk, Value: onchainSat, BlindPub: blind.PubKey().SerializeCompressed()}})
	}
	tx, err := chain.AddWalletTx(hexTx, "mallory", "open")
	if err != nil {
		r.Inconclusive("opening tx: " + err.Error())
		return
	}
	type pay struct{ depth, height uint32 }
	var mu sync.Mutex
	var pays []pay
	w.Subscribe(func(e *sim.Event) {
		if e.Node == "alice" && e.Kind == "ln.pay.try" {
			if p := e.P.(sim.EvPay); p.Op == "rebalance" {
				// ground truth at the payment crossing
				mu.Lock()
				pays = append(pays, pay{chain.ConfsLocked(tx.ID), chain.HeightLocked()})
				mu.Unlock()
			}
		}
	})
	msg := &swap.OpeningTxBroadcastedMessage{SwapId: id, Payreq: inv.Payreq, TxId: tx.ID}
	if c.chain == "lbtc" {
		msg.BlindingKey = hx(blind.Serialize())
	}
	mal.Send("alice", ref.MsgOpeningTxBroadcast, msg)
	w.Run()
	settle := func() {
		w.Run()
		rn.caughtUp() // lets the polling watchers run a pass
		w.Run()
	}
	mine := func(n int) {
		for i := 0; i < n; i++ {
			chain.Mine(1)
			settle()
		}
	}
	reorgOut := func() {
		// the transaction has exactly one confirmation (< required depth): its block is replaced by an empty one
		chain.Unconfirmable(tx.ID)
		chain.Reorg(1, 0, false)
		settle()
	}
	mine(1)
	switch c.pattern {
	case "plain":
		mine(int(need) + 1)
	case "reorg-then-never":
		reorgOut()
		mine(int(need) + 4)
	case "reorg-then-later":
		reorgOut()
		mine(int(need) + 1)
		chain.Confirmable(tx.ID)
		mine(int(need) + 1)
	case "crash-in-pay-then-reorg-then-restart":
		// the confirmation is reported and the taker starts paying; it is killed right at its payment call, the
		// confirming blocks are reorganised away (the tx is unconfirmed again) and the taker is restarted: its record
		// already holds the confirmed raw tx, but the depth clause holds for the chain as it is when it pays
		fired := false
		node.OnCrossing = func(k int64, op string) {
			if op == "ln.rebalance" && !fired {
				fired = true
				node.CrashAt, node.CrashFlavor = k, "before"
			}
		}
		mine(int(need))
		waitUntil(2*time.Second, func() bool { w.Run(); return !node.Alive() })
		if node.Alive() {
			r.CountIn("real_watcher_notes", "crash-in-pay: payment call never reached")
		}
		node.CrashAt, node.OnCrossing = 0, nil
		chain.Unconfirmable(tx.ID)
		chain.Reorg(int(need)+1, 0, false)
		if err := rn.start(false); err != nil {
			r.Inconclusive("restart: " + err.Error())
			return
		}
		settle()
		mine(2)
	case "reorg-twice-then-later":
		reorgOut()
		mine(1)
		chain.Confirmable(tx.ID)
		mine(1)
		reorgOut()
		mine(int(need))
		chain.Confirmable(tx.ID)
		mine(int(need) + 1)
	}
	// no verdict from elapsed time: wait while the world is doing something
	paid := func() bool { mu.Lock(); defer mu.Unlock(); return len(pays) > 0 }
	lastN, quietSince, t0 := len(w.Events()), time.Now(), time.Now()
	for time.Since(t0) < 60*time.Second {
		time.Sleep(2 * time.Millisecond)
		w.Run()
		rn.notify()
		if n := len(w.Events()); n != lastN || w.Blocked() > 0 {
			lastN, quietSince = n, time.Now()
			continue
		}
		quiet := 60 * time.Millisecond
		if !paid() && c.pattern != "reorg-then-never" && c.pattern != "crash-in-pay-then-reorg-then-restart" {
			quiet = 500 * time.Millisecond // the watcher may simply not have had its turn yet
		}
		if time.Since(quietSince) > quiet {
			break
		}
	}
	mu.Lock()
	ps := append([]pay(nil), pays...)
	mu.Unlock()
	r.Eval()
	r.Count("real_watcher_histories", 1)
	if len(ps) > 0 {
		r.Count("real_watcher_histories_paid", 1)
	}
	finalDepth := chain.Confs(tx.ID)
	r.Seen(fmt.Sprintf("real-%s-watcher/%s/%s/%s/paid=%v/final-depth>=need=%v", c.watcher, c.chain, c.role, c.pattern, len(ps) > 0, finalDepth >= need))
	for _, p := range ps {
		if p.depth < need {
			r.Violate("depth", fmt.Sprintf("C01|paid-without-required-depth|real-%s-watcher|%s|%s|%s", c.watcher, c.chain, c.role, c.pattern),
				fmt.Sprintf("claim payment attempted at height %d while the opening tx %s had %d confirmation(s) on the best chain (required %d); case %+v seed %d", p.height, tx.ID, p.depth, need, c, seed), traceOf(w))
			break
		}
	}
}

func c01RealCases() []c01Real {
	var cases []c01Real
	for _, cw := range [][2]string{{"btc", "rpc"}, {"btc", "lnd"}, {"lbtc", "rpc"}, {"lbtc", "electrum"}} {
		for _, role := range []string{"out-sender", "in-receiver"} {
			for _, p := range []string{"plain", "reorg-then-never", "reorg-then-later", "reorg-twice-then-later", "crash-in-pay-then-reorg-then-restart"} {
				cases = append(cases, c01Real{cw[0], cw[1], role, p})
			}
		}
	}
	return cases
}
