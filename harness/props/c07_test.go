package props

import (
	"bytes"
	"encoding/json"
	"fmt"
	mrand "math/rand"
	"strings"
	"sync"
	"testing"
	"time"

	"github.com/btcsuite/btcd/btcec/v2"
	"github.com/elementsproject/peerswap/swap"
	"github.com/elementsproject/peerswap/txwatcher"

	"verifharness/ref"
	"verifharness/sim"
)

// c07Judge applies the maker-funds oracle to the history of world w for maker node m and swap id.
// cause is a normalised description of the injected adversity (for signatures).
func c07Judge(r *Run, w *sim.World, m *sim.Node, chain *sim.Chain, chainName, role, swapID, cause string, drained bool, caseInfo string) {
	evs := w.Events()
	var open *sim.EvTx
	var openSeq int64
	for i := range evs {
		e := &evs[i]
		if e.Kind == "chain.accept" && e.Node == m.Name {
			if x := e.P.(sim.EvTx); x.Op == "open" && open == nil {
				xx := x
				open, openSeq = &xx, e.Seq
			}
		}
	}
	if open == nil {
		r.Seen(fmt.Sprintf("%s/%s/%s/no-opening-tx", chainName, role, cause))
		return
	}
	// a crash between the wallet broadcast and the next committed record is one root cause,
	// whichever crossing the process died at
	if strings.HasPrefix(cause, "crash=") {
		var crashSeq int64
		recorded := false
		for i := range evs {
			e := &evs[i]
			if e.Node != m.Name || e.Seq <= openSeq {
				continue
			}
			if e.Kind == "node.crash" && crashSeq == 0 {
				crashSeq = e.Seq
				break
			}
			if e.Kind == "store.write" {
				if v := viewRec(e.P.(sim.EvStore).Bytes); v != nil && v.Data.OpeningTx != nil {
					recorded = true
				}
			}
		}
		if crashSeq != 0 && !recorded {
			cause = "crash-after-wallet-broadcast-before-record"
		}
	}
	r.Count("histories_with_opening_tx", 1)
	ct := chain.Tx(open.TxID)
	// index of the swap output: the P2WSH output of the opening tx
	swapIdx := -1
	for i, o := range ct.Outs {
		if len(o.Script) == 34 && o.Script[0] == 0 && o.Script[1] == 0x20 {
			swapIdx = i
		}
	}
	// (a) every committed record after the broadcast names the transaction
	checkRec := func(b []byte, when string) {
		v := viewRec(b)
		var why string
		switch {
		case v == nil:
			why = "no-record"
		case v.Data.OpeningTx == nil:
			why = "no-opening_tx_broadcasted"
		case v.Data.OpeningTx.TxId != open.TxID:
			why = "other-txid"
		case int(v.Data.OpeningTx.ScriptOut) != swapIdx:
			why = "wrong-output-index"
		case v.Data.OpeningTxHex == "":
			why = "no-tx-hex"
		case v.Data.ClaimPreimage == "" || len(v.Data.PrivKey) == 0:
			why = "no-preimage-or-key"
		}
		if why != "" {
			r.Violate("durable-record", fmt.Sprintf("C07|record-does-not-name-broadcast-tx|%s|%s|%s", role, why, cause),
				fmt.Sprintf("opening tx %s is on chain/mempool but the maker's committed record (%s) says: %s; %s", open.TxID, when, why, caseInfo), traceOf(w))
		}
	}
	for i := range evs {
		e := &evs[i]
		if e.Seq > openSeq && e.Node == m.Name && e.Kind == "store.write" {
			x := e.P.(sim.EvStore)
			if x.SwapID == swapID && x.Err == "" {
				checkRec(x.Bytes, "at-later-write")
				break // the first write after the broadcast decides; later ones repeat the same finding
			}
		}
	}
	final := m.StoredSwaps()[swapID]
	checkRec(final, "final")
	fv := viewRec(final)
	// ground truth: invoice paid? output spent by the maker?
	paid := false
	for _, inv := range w.LN.InvoicesOfSwap(swapID, 1) {
		if inv.Payee == m.ID && inv.Paid {
			paid = true
		}
	}
	var spentBy *sim.ChainTx
	if swapIdx >= 0 {
		spentBy = chain.SpentBy(sim.OutRef{TxID: open.TxID, Vout: uint32(swapIdx)})
	}
	ownSpend := spentBy != nil && spentBy.By == m.Name
	finalState := ""
	if fv != nil {
		finalState = fv.Current
	}
	r.Seen(fmt.Sprintf("%s/%s/%s/final=%s/paid=%v/own-spend=%v", chainName, role, cause, finalState, paid, ownSpend))
	// (b) not finished unless paid or refunded
	if isTerminal(finalState) && !paid && !ownSpend {
		r.Violate("not-finished-with-funds-locked", fmt.Sprintf("C07|finished-with-funds-locked|%s|final=%s|%s", role, finalState, cause),
			fmt.Sprintf("maker considers the swap finished (%s) although the invoice is unpaid and its opening output %s:%d is not spent by it; %s", finalState, open.TxID, swapIdx, caseInfo), traceOf(w))
	}
	// (c) bounded progress: after the drain (CSV matured, services healed, restarts) the refund is on chain
	if drained && !paid && !ownSpend && spentBy == nil && !isTerminal(finalState) {
		r.Violate("refund-after-csv", fmt.Sprintf("C07|refund-never-broadcast|%s|state=%s|%s", role, finalState, cause),
			fmt.Sprintf("CSV matured long ago, invoice unpaid, yet the maker has not spent %s:%d back (state %s); %s", open.TxID, swapIdx, finalState, caseInfo), traceOf(w))
	}
	if ownSpend {
		r.CountIn("refund_kinds", spentBy.Kind)
	}
}

// ---------------------------------------------------------------------------
// part (ii): scripted malicious / silent takers

type c07Adv struct {
	chain, typ string // typ from the maker's view: in = maker initiates swap-in; out = maker answers swap-out
	behave     string
	fault      string
	layoutSwap int // index of the swap output among outputs
}

func runC07Adv(r *Run, seed int64, c c07Adv) {
	rng := mrand.New(mrand.NewSource(seed))
	w := sim.NewWorld(seed)
	defer w.Close()
	m := w.AddNode("alice", sim.DefaultNodeConfig())
	tk := w.AddPeer("mallory")
	scid := "100x1x0"
	w.LN.OpenChannel(scid, m.ID, tk.ID, 5_000_000_000, 5_000_000_000)
	m.BtcW.FundingLayout = func() (int, int, int) { return 1 + rng.Intn(3), c.layoutSwap, 2 }
	m.LbtcW.Layout = func() (int, int, bool) { return c.layoutSwap, 2, rng.Intn(2) == 0 }
	chain := w.BTC
	if c.chain == "lbtc" {
		chain = w.LBTC
	}
	// faults
	afterOpen := false
	nCsvFail := 0
	m.Fault = func(op string) error {
		switch c.fault {
		case "height-lookup-after-broadcast":
			if strings.HasSuffix(op, ".open") {
				afterOpen = true
			} else if afterOpen && strings.HasSuffix(op, ".height") {
				afterOpen = false
				return fmt.Errorf("injected: height lookup failed")
			}
		case "label-fails-after-broadcast":
			if strings.HasSuffix(op, ".open") {
				afterOpen = true
			} else if afterOpen && strings.HasSuffix(op, ".label") {
				afterOpen = false
				return fmt.Errorf("injected: wallet labelling call failed")
			}
		case "refund-broadcast-fails-5x":
			if strings.HasSuffix(op, ".csv") && nCsvFail < 5 {
				nCsvFail++
				return fmt.Errorf("injected: sendrawtransaction failed")
			}
		case "announcement-send-fails":
			if op == "msg.send:42077" {
				return fmt.Errorf("injected: peer not connected")
			}
		case "payreq-fails":
			if op == "ln.getpayreq" && afterOpen {
				return fmt.Errorf("injected")
			}
		}
		return nil
	}
	if err := m.Start(); err != nil {
		r.Inconclusive(err.Error())
		return
	}
	takerKey, _ := btcec.NewPrivateKey()
	amount := uint64(400_000 + rng.Intn(600_000))
	asset, network := "", ""
	if c.chain == "lbtc" {
		asset = hx(sim.PolicyAsset())
	} else {
		network = sim.BtcParams.Name
	}
	var id *swap.SwapId
	role := "in/sender"
	if c.typ == "in" {
		sm, err, _ := m.SwapIn(tk.ID, c.chain, scid, amount, 100000)
		if err != nil || sm == nil {
			r.Inconclusive(fmt.Sprintf("swapin: %v", err))
			return
		}
		id = sm.SwapId
		w.Run()
		tk.Send("alice", ref.MsgSwapInAgreement, &swap.SwapInAgreementMessage{ProtocolVersion: 7, SwapId: id, Pubkey: hx(takerKey.PubKey().SerializeCompressed()), Premium: int64(rng.Intn(500))})
		w.Run()
	} else {
		role = "out/receiver"
		id = swap.NewSwapId()
		tk.Send("alice", ref.MsgSwapOutRequest, &swap.SwapOutRequestMessage{ProtocolVersion: 7, SwapId: id, Asset: asset, Network: network, Scid: scid, Amount: amount, Pubkey: hx(takerKey.PubKey().SerializeCompressed()), PremiumLimit: 1_000_000})
		w.Run()
		ag := tk.Take(ref.MsgSwapOutAgreement)
		if ag == nil {
			r.Inconclusive("no swap_out_agreement")
			return
		}
		var a swap.SwapOutAgreementMessage
		json.Unmarshal(ag.Payload, &a)
		if _, err := w.LN.PeerPay(tk.ID, a.Payreq); err != nil {
			r.Inconclusive("fee payment failed: " + err.Error())
			return
		}
		w.Run()
	}
	sid := id.String()
	// the taker's behaviour after the announcement
	third, _ := btcec.NewPrivateKey()
	send := func(typ int, v any) { tk.Send("alice", typ, v); w.Run() }
	coop := func(k []byte) {
		send(ref.MsgCoopClose, &swap.CoopCloseMessage{SwapId: id, Message: "x", Privkey: hx(k)})
	}
	matureFirst := false
	switch c.behave {
	case "silence":
	case "cancel":
		send(ref.MsgCancel, &swap.CancelMessage{SwapId: id, Message: "no"})
	case "cancel-twice":
		send(ref.MsgCancel, &swap.CancelMessage{SwapId: id, Message: "no"})
		send(ref.MsgCancel, &swap.CancelMessage{SwapId: id, Message: "no"})
	case "coop-wrong-key":
		coop(third.Serialize())
	case "coop-malformed-key":
		send(ref.MsgCoopClose, &swap.CoopCloseMessage{SwapId: id, Message: "x", Privkey: "zz"})
	case "coop-short-key":
		coop([]byte{1, 2, 3})
	case "coop-zero-key":
		coop(make([]byte, 32))
	case "invalid-message":
		send(ref.MsgOpeningTxBroadcast, []byte(`{"swap_id":"`+sid+`","tx_id":"zz"}`))
	case "cancel-then-coop-wrong-key":
		send(ref.MsgCancel, &swap.CancelMessage{SwapId: id, Message: "no"})
		coop(third.Serialize())
	case "coop-wrong-key-after-csv":
		matureFirst = true
	case "good-coop":
		coop(takerKey.Serialize())
	}
	// chain advances: confirm, then well past the CSV with restarts (the drain)
	chain.Mine(1)
	w.Run()
	csv := int(ref.CSV(c.chain, 7))
	if matureFirst {
		chain.Mine(csv + 2)
		coop(third.Serialize())
	}
	for round := 0; round < 4; round++ {
		chain.Mine(csv/2 + 3)
		w.Run()
		if round >= 1 {
			m.Restart()
			w.Run()
		}
		w.Advance(11 * time.Minute)
		w.Run()
	}
	r.Eval()
	cause := "taker=" + c.behave
	if c.fault != "none" {
		cause = "fault=" + c.fault
	}
	c07Judge(r, w, m, chain, c.chain, role, sid, cause, true,
		fmt.Sprintf("case %+v seed %d", c, seed))
	r.CountIn("adversarial_behaviours", c.behave)
}

func TestC07(t *testing.T) {
	r := newRun(t, "C07", "fault_enumeration")
	defer r.Finish()
	r.Rule = "(i) crash-point enumeration over both maker roles × both chains with an honest peer (victim killed at every boundary crossing before/after the effect, restarted, drained past the CSV); (ii) scripted takers: silence, cancel, invalid message, coop_close with wrong / malformed / short / zero / third-party keys, cancel then coop_close, coop_close after CSV, each × injected faults (height lookup or wallet labelling call failing right after the wallet broadcast, refund broadcast failing 5×, announcement send failing) × wallet output orderings (swap output at index 0-2), followed by CSV maturity, restarts and timers. Oracle: committed record names the broadcast tx and the index of its swap output; terminal only if paid or own spend accepted by the chain; refund on chain after the drain. distinct = (chain, role, adversity, final state, paid, own spend)"
	r.Rule += " (iv) scripted takers that answer the announcement once (cancel, coop_close with a wrong or malformed key, nothing) and go silent, with the maker restarted while it waits for the CSV; oracle: the announced output is spent by a transaction of the node."
	r.Assumptions = []string{"reference watcher (W-det) watches the announced (txid, vout) like the real RPC watcher, so a wrong index shows as a refund that never matures", "bounded restatement of 'whenever the CSV matures ... the node broadcasts the refund': after 4 rounds of blocks, restarts and timers"}
	// (i)
	pts := 0
	judge := func(h *lcHist) {
		if !h.victimIsMaker() {
			return
		}
		cause := "honest-peer"
		if h.c.crashAt != 0 {
			cause = fmt.Sprintf("crash=%s:%s", h.c.flavor, h.c.name)
		}
		c07Judge(r, h.p.w, h.victim, h.p.chainObj(), h.c.chain, h.victimRole(), h.p.id, cause, true, "case "+h.c.String())
	}
	pts = lcSweepRoles(r, []string{"btc", "lbtc"}, true, judge)
	if r.Thorough() {
		// other worlds; drains that begin with a restart; histories whose claim payment fails (the taker asks for
		// the cooperative close and the maker has to claim with both keys)
		lcSeedOffset = 1_000_003
		pts += lcSweepRoles(r, []string{"btc", "lbtc"}, true, judge)
		lcSeedOffset, c07RestartFirst = 2_000_003, true
		pts += lcSweepRoles(r, []string{"btc", "lbtc"}, true, judge)
		lcSeedOffset, c07RestartFirst, c07PayFail = 3_000_003, false, true
		pts += lcSweepRoles(r, []string{"btc", "lbtc"}, true, judge)
		lcSeedOffset, c07PayFail = 0, false
	}
	r.Extra["crash_points_enumerated"] = pts
	// (ii)
	var adv []c07Adv
	behaves := []string{"silence", "cancel", "cancel-twice", "coop-wrong-key", "coop-malformed-key", "coop-short-key", "coop-zero-key", "invalid-message", "cancel-then-coop-wrong-key", "coop-wrong-key-after-csv", "good-coop"}
	faults := []string{"none", "height-lookup-after-broadcast", "label-fails-after-broadcast", "refund-broadcast-fails-5x", "announcement-send-fails"}
	for _, ch := range []string{"btc", "lbtc"} {
		for _, ty := range []string{"in", "out"} {
			for bi, b := range behaves {
				for fi, f := range faults {
					if !r.Thorough() && f != "none" && (bi+fi)%3 != 0 {
						continue
					}
					adv = append(adv, c07Adv{chain: ch, typ: ty, behave: b, fault: f, layoutSwap: (bi + fi) % 3})
				}
			}
		}
	}
	reps := r.N(1, 4) // thorough: every adversarial history in four worlds (amounts, keys)
	parallelDo(len(adv)*reps, 12, func(i int) { runC07Adv(r, r.Seed*2903+int64(i)+1, adv[i%len(adv)]) })
	r.Extra["adversarial_histories"] = len(adv) * reps
	// (iii) the real rpc watchers as back-end: the taker stays silent; while the maker waits, the chain backend
	// behaves as real ones do (does not know the output for a few calls, a reorganisation unconfirms the opening
	// transaction and it is mined again); then the CSV matures and the refund must get on chain
	txwatcher.VerifSetPolling(time.Millisecond, time.Millisecond)
	var rcases []c07Real
	for _, ch := range []string{"btc", "lbtc"} {
		for _, ty := range []string{"in", "out"} {
			for _, pat := range []string{"plain", "unknown-output-for-a-while", "reorg-unconfirms-then-remined", "unknown-output-then-reorg"} {
				for k := 0; k < r.N(1, 6); k++ {
					rcases = append(rcases, c07Real{ch, ty, pat})
				}
			}
		}
	}
	parallelDo(len(rcases), 6, func(i int) { runC07Real(r, r.Seed*8887+int64(i)+1, rcases[i]) })
	r.Extra["real_watcher_histories"] = len(rcases)
	// (iv) a scripted taker that answers the announcement once (cancel, unusable coop_close) and goes silent, with
	// the maker restarted while it waits for the CSV
	var sc []c26Case
	for _, ch := range []string{"btc", "lbtc"} {
		for _, ty := range []string{"in", "out"} {
			for _, b := range []string{"silence", "cancel", "coop-wrong-key", "coop-malformed-key"} {
				sc = append(sc, c26Case{ch, ty, b, false}, c26Case{ch, ty, b, true})
			}
		}
	}
	parallelDo(len(sc)*r.N(1, 6), 8, func(i int) { runC16Scripted(r, r.Seed*8893+int64(i)+1, sc[i%len(sc)], "C07") })
	ho, _ := r.Extra["histories_with_opening_tx"].(int)
	r.Sample(map[string]any{"case": "lbtc out/receiver, taker sends coop_close with a third-party key after a cancel, swap output at index 2", "expectation": "maker ends in ClaimedCsv with its CSV refund accepted by the chain"})
	r.Require(ho >= 100, fmt.Sprintf("only %d histories had an opening transaction", ho))
	_ = bytes.Equal
}

type c07Real struct{ chain, typ, pattern string }

// runC07Real: a real maker with the real rpc watchers, a silent taker and a chain backend with hiccups.
func runC07Real(r *Run, seed int64, c c07Real) {
	rng := mrand.New(mrand.NewSource(seed))
	w := sim.NewWorld(seed)
	defer w.Close()
	m := w.AddNode("alice", sim.DefaultNodeConfig())
	tk := w.AddPeer("mallory")
	w.LN.OpenChannel("100x1x0", m.ID, tk.ID, 5_000_000_000, 5_000_000_000)
	rn := &realNode{n: m}
	defer rn.stop()
	if err := rn.start(false); err != nil {
		r.Inconclusive("start: " + err.Error())
		return
	}
	chain, fac := w.BTC, rn.btcRPC
	if c.chain == "lbtc" {
		chain, fac = w.LBTC, rn.lbtcRPC
	}
	id, _, err := makerToAwaitPayment(w, rn, tk, c.chain, c.typ, rng)
	if err != nil {
		r.Inconclusive("setup: " + err.Error())
		return
	}
	settle := func() {
		w.Run()
		time.Sleep(4 * time.Millisecond) // lets the polling watcher run a pass
		w.Run()
	}
	chain.Mine(1)
	settle()
	unknown := func() {
		fac.UnknownOutputs.Store(int32(3 + rng.Intn(6)))
		for i := 0; i < 3; i++ {
			chain.Mine(1)
			settle()
		}
		fac.UnknownOutputs.Store(0)
	}
	reorg := func() {
		// the block with the opening transaction is replaced by an empty one, the transaction is mined again later
		chain.Reorg(1+rng.Intn(2), 0, false)
		settle()
		chain.Mine(2)
		settle()
	}
	switch c.pattern {
	case "unknown-output-for-a-while":
		unknown()
	case "reorg-unconfirms-then-remined":
		reorg()
	case "unknown-output-then-reorg":
		unknown()
		reorg()
	}
	chain.Mine(int(ref.CSV(c.chain, 7)) + 3)
	settle()
	state := func() string {
		if rec := m.StoredSwap(id.String()); rec != nil {
			return string(rec.Current)
		}
		return ""
	}
	done := func() bool { return state() == string(swap.State_ClaimedCsv) }
	ok := waitUntil(2*time.Second, func() bool { w.Run(); return done() })
	if !ok {
		// no verdict from elapsed time: wait while the world is doing something (new events, calls in flight)
		lastN, quietSince, t0 := len(w.Events()), time.Now(), time.Now()
		for !ok && time.Since(t0) < 90*time.Second {
			time.Sleep(50 * time.Millisecond)
			w.Run()
			ok = done()
			if n := len(w.Events()); n != lastN || w.Blocked() > 0 {
				lastN, quietSince = n, time.Now()
			} else if time.Since(quietSince) > 5*time.Second {
				break
			}
		}
		if !ok && time.Since(t0) >= 90*time.Second {
			r.Inconclusive(fmt.Sprintf("real-watcher history still busy after 90 s; case %+v", c))
			return
		}
	}
	r.Eval()
	r.Count("real_watcher_refunds", map[bool]int{true: 1}[ok])
	r.Seen(fmt.Sprintf("real-rpc-watcher/%s/%s/%s/final=%s", c.chain, c.typ, c.pattern, state()))
	if !ok {
		spent := false
		for _, tx := range chain.TxsBy("alice", "csv") {
			if tx != nil {
				spent = true
			}
		}
		r.Violate("refund-after-csv", fmt.Sprintf("C07|refund-never-broadcast|real-rpc-watcher|%s|%s|%s", c.chain, map[string]string{"in": "in/sender", "out": "out/receiver"}[c.typ], c.pattern),
			fmt.Sprintf("the taker stayed silent, the CSV matured %d blocks ago, the world is quiet, and the maker is still in %s (refund on chain: %v); case %+v seed %d", 3, state(), spent, c, seed), traceOf(w))
	}
}

// thorough-tier variations of lcSweepRoles
var c07RestartFirst, c07PayFail bool

// lcSweepRoles is lcSweep restricted to maker victims, with the drain.
func lcSweepRoles(r *Run, chains []string, makersOnly bool, judge func(h *lcHist)) int {
	variant := "happy"
	var setup func(h *lcHist)
	if c07PayFail {
		variant = "payfail"
		setup = func(h *lcHist) {
			h.p.w.LN.Script = func(payer string, inv *sim.Invoice, n int) sim.Outcome {
				if inv.Type == 1 {
					return sim.OutFail
				}
				return sim.OutSettle
			}
		}
	}
	type combo struct{ chain, typ, victim string }
	var combos []combo
	for _, ch := range chains {
		combos = append(combos, combo{ch, "in", "alice"}, combo{ch, "out", "bob"})
	}
	var mu sync.Mutex
	var cases []lcCase
	parallelDo(len(combos), 8, func(i int) {
		cb := combos[i]
		c := lcCase{chain: cb.chain, typ: cb.typ, victim: cb.victim, variant: variant, drain: true, restartFirst: c07RestartFirst}
		h := lcRun(r.Seed*733+lcSeedOffset+int64(i)+1, c, setup)
		r.Eval()
		judge(h)
		mu.Lock()
		for k := int64(1); k <= int64(len(h.ops)); k++ {
			for _, fl := range []string{"before", "after"} {
				cc := c
				cc.crashAt, cc.flavor, cc.name = k, fl, crossingOp(h.ops, k)
				cases = append(cases, cc)
				// the peer also dies after the crash: the maker is on its own
				c2 := cc
				c2.cutAt = k + 1
				cases = append(cases, c2)
			}
		}
		mu.Unlock()
		h.p.w.Close()
	})
	parallelDo(len(cases), 12, func(i int) {
		c := cases[i]
		h := lcRun(r.Seed*733+lcSeedOffset+int64(i)+20_000, c, setup)
		h.c.name = c.name
		r.Eval()
		r.CountIn("crash_points_by_op", c.name)
		judge(h)
		h.p.w.Close()
	})
	return len(cases)
}
