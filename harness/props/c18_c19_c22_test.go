package props

import (
	"context"
	"encoding/json"
	"fmt"
	mrand "math/rand"
	"os"
	"strings"
	"sync"
	"sync/atomic"
	"testing"
	"time"

	"github.com/btcsuite/btcd/btcec/v2"
	"github.com/elementsproject/peerswap/lnd"
	"github.com/elementsproject/peerswap/lwk"
	"github.com/elementsproject/peerswap/premium"
	"github.com/elementsproject/peerswap/swap"
	"github.com/elementsproject/peerswap/txwatcher"

	"verifharness/ref"
	"verifharness/sim"
)

// ---------------------------------------------------------------------------
// C18

type c18Case struct {
	chain    string
	typ      string // maker role: in | out
	watcher  string // rpc | electrum (liquid only)
	csvState string // not-yet | exact | long
	stimulus string // cancel | invalid-message | coop-bad-key | csv-callback-race
	noise    bool   // concurrent blocks / reads during the stimulus
	annFail  bool   // the taker is unreachable when the maker first sends opening_tx_broadcasted (that send fails)
}

// makerToAwaitPayment drives a real maker (with real watchers) against a scripted taker until the
// announcement went out. Returns the swap id and the taker key.
func makerToAwaitPayment(w *sim.World, rn *realNode, tk *sim.Peer, chainName, typ string, rng *mrand.Rand, announcementMayBeLost ...bool) (*swap.SwapId, *btcec.PrivateKey, error) {
	m := rn.n
	takerKey, _ := btcec.NewPrivateKey()
	asset, network := "", ""
	if chainName == "lbtc" {
		asset = hx(sim.PolicyAsset())
	} else {
		network = sim.BtcParams.Name
	}
	amount := uint64(300_000 + rng.Intn(400_000))
	var id *swap.SwapId
	if typ == "in" {
		sm, err, _ := m.SwapIn(tk.ID, chainName, "100x1x0", amount, 100000)
		if err != nil || sm == nil {
			return nil, nil, fmt.Errorf("swapin: %v", err)
		}
		id = sm.SwapId
		w.Run()
		tk.Send(m.Name, ref.MsgSwapInAgreement, &swap.SwapInAgreementMessage{ProtocolVersion: 7, SwapId: id, Pubkey: hx(takerKey.PubKey().SerializeCompressed()), Premium: 3})
		w.Run()
	} else {
		id = swap.NewSwapId()
		tk.Send(m.Name, ref.MsgSwapOutRequest, &swap.SwapOutRequestMessage{ProtocolVersion: 7, SwapId: id, Asset: asset, Network: network, Scid: "100x1x0", Amount: amount, Pubkey: hx(takerKey.PubKey().SerializeCompressed()), PremiumLimit: 1_000_000})
		w.Run()
		ag := tk.Take(ref.MsgSwapOutAgreement)
		if ag == nil {
			return nil, nil, fmt.Errorf("no agreement")
		}
		var a swap.SwapOutAgreementMessage
		json.Unmarshal(ag.Payload, &a)
		if _, err := w.LN.PeerPay(tk.ID, a.Payreq); err != nil {
			return nil, nil, err
		}
		w.Run()
	}
	if tk.Count(ref.MsgOpeningTxBroadcast) == 0 && !(len(announcementMayBeLost) > 0 && announcementMayBeLost[0]) {
		return nil, nil, fmt.Errorf("no announcement (state %v)", m.StoredSwap(id.String()))
	}
	return id, takerKey, nil
}

func runC18(r *Run, seed int64, c c18Case) {
	rng := mrand.New(mrand.NewSource(seed))
	w := sim.NewWorld(seed)
	defer w.Close()
	m := w.AddNode("alice", sim.DefaultNodeConfig())
	tk := w.AddPeer("mallory")
	w.LN.OpenChannel("100x1x0", m.ID, tk.ID, 5_000_000_000, 5_000_000_000)
	rn := &realNode{n: m, useEl: c.watcher == "electrum"}
	if c.noise {
		rn.rpcDelay = time.Duration(200+rng.Intn(1500)) * time.Microsecond
	}
	defer rn.stop()
	if err := rn.start(false); err != nil {
		r.Inconclusive("start: " + err.Error())
		return
	}
	chain := w.BTC
	if c.chain == "lbtc" {
		chain = w.LBTC
	}
	if c.annFail {
		first := true
		m.Fault = func(op string) error {
			if op == fmt.Sprintf("msg.send:%d", ref.MsgOpeningTxBroadcast) && first {
				first = false
				return fmt.Errorf("peer is not connected")
			}
			return nil
		}
	}
	id, _, err := makerToAwaitPayment(w, rn, tk, c.chain, c.typ, rng, c.annFail)
	if err != nil {
		r.Inconclusive("setup: " + err.Error())
		return
	}
	csv := int(ref.CSV(c.chain, 7))
	chain.Mine(1)
	switch c.csvState {
	case "not-yet":
		chain.Mine(5)
	case "exact":
		chain.Mine(csv - 1)
	case "long":
		chain.Mine(csv + 50)
	}
	// in the "exact"/"long" states the watchers would fire the refund on their own on the next poll; the point
	// of the scenario is a stimulus that arrives *before or while* that happens, so go on immediately
	w.CallBlockLimit = 1500 * time.Millisecond
	ptr := ""
	if inc := m.Inc(); inc != nil {
		for _, as := range inc.Svc.VerifActiveSwaps() {
			if as.Id == id.String() {
				ptr = fmt.Sprintf("%p", as.Machine)
			}
		}
	}
	third, _ := btcec.NewPrivateKey()
	var payload []byte
	mt := ref.MsgCancel
	switch c.stimulus {
	case "cancel":
		payload = mustJSON(&swap.CancelMessage{SwapId: id, Message: "no"})
	case "invalid-message":
		mt = ref.MsgCoopClose
		payload = mustJSON(&swap.CoopCloseMessage{SwapId: id, Message: "x", Privkey: "zz"})
	case "coop-bad-key":
		mt = ref.MsgCoopClose
		payload = mustJSON(&swap.CoopCloseMessage{SwapId: id, Message: "x", Privkey: hx(third.Serialize())})
	}
	stopNoise := make(chan struct{})
	var nwg sync.WaitGroup
	if c.noise {
		nwg.Add(1)
		nrng := mrand.New(mrand.NewSource(rng.Int63())) // the noise goroutine has its own source
		go func() {
			defer nwg.Done()
			for i := 0; i < 6; i++ {
				select {
				case <-stopNoise:
					return
				default:
				}
				chain.Mine(1)
				rn.notify()
				if inc := m.Inc(); inc != nil {
					inc.Svc.ListActiveSwaps()
					inc.Svc.HasActiveSwaps()
				}
				time.Sleep(time.Duration(nrng.Intn(3)) * time.Millisecond)
			}
		}()
	}
	rn.notify()
	if c.noise {
		// let the stimulus land while a watcher sweep for the new tip is under way
		time.Sleep(time.Duration(rng.Intn(2500)) * time.Microsecond)
	}
	w.DeliverNow(tk.ID, "alice", fmt.Sprintf("%x", mt), payload)
	close(stopNoise)
	nwg.Wait()
	returned := w.Blocked() == 0
	if !returned {
		returned = w.WaitIdle(1200 * time.Millisecond)
	}
	r.Eval()
	tag := fmt.Sprintf("%s|%s|%s|csv=%s|%s", c.chain, c.typ, c.watcher, c.csvState, c.stimulus)
	if c.annFail {
		tag += "|first-announcement-lost"
	}
	if !returned {
		// The delivery is still running. No verdict from elapsed time: dumps are taken once a second until the call
		// returns (slow machine: carry on), or the same lock cycle shows in two consecutive dumps, or the goroutine
		// handling the event sits at the same blocking operation in peerswap code in three consecutive dumps.
		// Inconclusive only after 90 s without any of these.
		var prevC, prevK, prevK2 string
		verdict := false
		for round := 0; round < 90 && !returned && !verdict; round++ {
			d := takeDump()
			cc, cs := lockCycle(d, ptr)
			kk, ks := stuckInEvent(d, ptr)
			switch {
			case cc != "" && cc == prevC:
				r.Violate("no-deadlock", "C18|"+cc+"|"+c.stimulus+"|csv="+c.csvState+"|"+c.watcher, fmt.Sprintf("delivery of %s did not return; the same lock cycle is visible in two goroutine dumps 1 s apart; case %+v seed %d\n%s", c.stimulus, c, seed, cs), traceOf(w))
				verdict = true
			case kk != "" && kk == prevK && kk == prevK2:
				r.Violate("no-deadlock", "C18|"+kk+"|"+c.stimulus+"|csv="+c.csvState+"|"+c.watcher, fmt.Sprintf("delivery of %s did not return; in three goroutine dumps 1 s apart the goroutine handling the event sits at the same blocking operation inside peerswap code while holding the swap's mutex; case %+v seed %d\n%s", c.stimulus, c, seed, ks), traceOf(w))
				verdict = true
			}
			prevC, prevK2, prevK = cc, prevK, kk
			if !verdict {
				returned = w.WaitIdle(time.Second)
			}
		}
		if verdict {
			r.Seen(tag + "/hung")
			return
		}
		if !returned {
			r.Inconclusive(fmt.Sprintf("stimulus did not return within 90 s and no stable lock cycle or blocked position was found; case %+v", c))
			r.Seen(tag + "/hung")
			return
		}
		r.Count("stimuli_returned_late", 1)
	}
	r.Count("stimuli_returned", 1)
	// afterwards the maker must get to its refund: mine past the CSV and let the real watchers work
	if c.csvState == "not-yet" {
		chain.Mine(csv + 2)
	} else {
		chain.Mine(2)
	}
	rn.notify()
	isRefunded := func() bool {
		rn.notify()
		st := ""
		if rec := m.StoredSwap(id.String()); rec != nil {
			st = string(rec.Current)
		}
		return st == string(swap.State_ClaimedCsv) || st == string(swap.State_ClaimedCoop)
	}
	refunded := waitUntil(3*time.Second, isRefunded)
	if !refunded {
		// no verdict from a wall-clock deadline: keep waiting while the world still does something; "no refund" is
		// only judged once nothing has happened for 5 s (no new event, no call in flight), 90 s at most
		lastN, quietSince, t0 := len(w.Events()), time.Now(), time.Now()
		for !refunded && time.Since(t0) < 90*time.Second {
			time.Sleep(50 * time.Millisecond)
			refunded = isRefunded()
			if n := len(w.Events()); n != lastN || w.Blocked() > 0 {
				lastN, quietSince = n, time.Now()
			} else if time.Since(quietSince) > 5*time.Second {
				break
			}
		}
		if !refunded && time.Since(t0) >= 90*time.Second {
			r.Inconclusive(fmt.Sprintf("refund not observed but the world was still busy after 90 s; case %+v", c))
			return
		}
	}
	final := ""
	if rec := m.StoredSwap(id.String()); rec != nil {
		final = string(rec.Current)
	}
	r.Seen(tag + "/returned/final=" + final)
	if !refunded {
		if w.Blocked() > 0 || !w.WaitIdle(200*time.Millisecond) {
			c1, s1 := lockCycle(takeDump(), ptr)
			time.Sleep(time.Second)
			c2, _ := lockCycle(takeDump(), ptr)
			if c1 != "" && c1 == c2 {
				r.Violate("no-deadlock", "C18|"+c1+"|after-"+c.stimulus+"|csv="+c.csvState+"|"+c.watcher, fmt.Sprintf("case %+v seed %d\n%s", c, seed, s1), traceOf(w))
				return
			}
		}
		c1, s1 := lockCycle(takeDump(), ptr)
		if c1 != "" {
			time.Sleep(time.Second)
			if c2, _ := lockCycle(takeDump(), ptr); c2 == c1 {
				r.Violate("no-deadlock", "C18|"+c1+"|after-"+c.stimulus+"|csv="+c.csvState+"|"+c.watcher, fmt.Sprintf("the refund never happened and a stable lock cycle exists; case %+v seed %d\n%s", c, seed, s1), traceOf(w))
				return
			}
		}
		r.Violate("leads-to-refund", fmt.Sprintf("C18|processed-but-no-refund|%s|csv=%s|%s|final=%s", c.stimulus, c.csvState, c.watcher, final), fmt.Sprintf("stimulus returned but the maker did not refund after the CSV matured (state %s); case %+v seed %d", final, c, seed), traceOf(w))
	}
}

// runC18Watcher replays one C20 block history against a real watcher whose confirmation consumer is slow, then
// asks: does the watcher still process chain notifications? A fresh CSV registration that matures afterwards must
// be reported. If it is not, a second, brand-new watcher over the same chain gets the same registration as a
// control: only if the control reports while the first watcher stays silent is the first one declared blocked.
func runC18Watcher(r *Run, seed int64, c c20Case) {
	c.seed = seed
	c.probe = func(watch c20Watch, chain *sim.Chain, offset uint32, pause func(), reports func() []c20Report) {
		script := append([]byte{0x00, 0x20}, randBytes(32)...)
		var txHex string
		if c.backend == "bitcoind" {
			txHex, _ = buildBtcTx(1, []outSpec{{Script: script, Value: 50_000}})
		} else {
			txHex, _, _ = buildLiquidTx(1, []outSpec{{Script: script, Value: 50_000, Explicit: true}})
		}
		tx, err := chain.AddWalletTx(txHex, "maker", "open")
		if err != nil {
			r.Inconclusive("probe tx: " + err.Error())
			return
		}
		chain.Mine(1)
		pause()
		id := swap.NewSwapId().String()
		start := chain.Height() + offset
		watch.AddWaitForCsvTx(id, tx.ID, 0, start, 4, script)
		got := func(want string) bool {
			for _, rp := range reports() {
				if rp.kind == "csv" && rp.swap == want {
					return true
				}
			}
			return false
		}
		for i := 0; i < 60 && !got(id); i++ {
			if i < 6 {
				chain.Mine(1)
			}
			pause()
		}
		r.Eval()
		tag := c.backend + "|" + c.pattern
		if got(id) {
			r.Seen("watcher-alive/" + tag)
			r.Count("watcher_probes_answered", 1)
			return
		}
		// control: a new watcher of the same kind over the same chain
		ctx, cancel := context.WithCancel(context.Background())
		defer cancel()
		var ctl c20Watch
		var el *sim.ElectrumFacade
		if c.backend == "electrum" {
			el = &sim.ElectrumFacade{C: chain}
			ew, err := lwk.NewElectrumTxWatcher(el)
			if err != nil {
				r.Inconclusive(err.Error())
				return
			}
			ctl = ew
		} else {
			confs := uint32(2)
			if c.backend == "bitcoind" {
				confs = 3
			}
			ctl = txwatcher.NewBlockchainRpcTxWatcher(ctx, &sim.RpcFacade{C: chain}, confs)
		}
		var cmu sync.Mutex
		ctlGot := false
		id2 := swap.NewSwapId().String()
		ctl.AddConfirmationCallback(func(string, string, error) error { return nil })
		ctl.AddCsvCallback(func(s string) error {
			cmu.Lock()
			if s == id2 {
				ctlGot = true
			}
			cmu.Unlock()
			return nil
		})
		if ctl.StartWatchingTxs() != nil {
			r.Inconclusive("control watcher did not start")
			return
		}
		ctl.AddWaitForCsvTx(id2, tx.ID, 0, start, 4, script)
		ok := false
		for i := 0; i < 60 && !ok; i++ {
			if i < 3 {
				chain.Mine(1)
			}
			if el != nil {
				el.NotifyTip()
			}
			pause()
			cmu.Lock()
			ok = ctlGot
			cmu.Unlock()
		}
		if ok && !got(id) {
			d := takeDump()
			var stacks []string
			for _, g := range d {
				all := strings.Join(g.frames, "\n")
				if (strings.HasPrefix(g.state, "chan send") || strings.HasPrefix(g.state, "sync.Mutex.Lock") || strings.HasPrefix(g.state, "sync.RWMutex")) &&
					(strings.Contains(all, "peerswap/txwatcher.") || strings.Contains(all, "peerswap/electrum.") || strings.Contains(all, "peerswap/lwk.")) {
					stacks = append(stacks, "["+g.state+"]\n"+all)
				}
			}
			if len(stacks) > 6 {
				stacks = stacks[:6]
			}
			r.Violate("no-deadlock", "C18|chain-notifications-no-longer-processed|"+tag,
				fmt.Sprintf("after the block history (confirmation consumer taking 8 ms) the watcher never reported a CSV registration that matured %d blocks ago, while a fresh watcher over the same chain reported the same registration at once; case %+v seed %d\nblocked watcher goroutines:\n%s", 6, c, seed, strings.Join(stacks, "\n--\n")), nil)
			return
		}
		r.Inconclusive(fmt.Sprintf("watcher probe unanswered but the control watcher was silent too (%s)", tag))
	}
	runC20(r, c)
}

func TestC18(t *testing.T) {
	txwatcher.VerifSetPolling(time.Millisecond, time.Millisecond)
	swap.VerifSetRetryDur(5 * time.Millisecond)
	r := newRun(t, "C18", "exploration")
	defer r.Finish()
	r.Rule = "real makers (both roles, both chains) with the REAL BlockchainRpcTxWatcher / LWK Electrum watcher behind the state machine are driven to their payment-waiting state; for each CSV state of the opening output {not yet, exactly matured, long matured} a stimulus {cancel, invalid message, coop_close with a wrong key} is delivered, with and without concurrent block notifications and ListActiveSwaps/HasActiveSwaps calls. A stimulus that does not return is a violation only if two goroutine dumps one second apart show the same lock cycle (same SwapStateMachine.SendEvent twice on one goroutine blocked in Mutex.Lock, or a swap-mutex/watcher-lock ABBA pair), or if three dumps over 2.5 s show the goroutine that handles the event (inside SendEvent, holding the swap mutex) at the same blocking channel/lock operation in peerswap code with no simulated service underneath; otherwise inconclusive. After the stimulus the refund must happen once the CSV has matured. (ii) C20's block histories against the real watchers with a confirmation consumer that takes 8 ms; afterwards a fresh CSV registration must be reported; an unanswered probe is a violation only if a brand-new control watcher over the same chain reports the same registration. distinct = (chain, role, watcher, csv state, stimulus, outcome) ∪ watcher-alive/(backend, pattern)"
	r.Assumptions = []string{"all simulated services answer instantly, so a goroutine blocked in Mutex.Lock for >1 s is not waiting for the environment", "the LND chain-notifier watcher is not exercised"}
	var cases []c18Case
	for _, ch := range []string{"btc", "lbtc"} {
		for _, ty := range []string{"in", "out"} {
			ws := []string{"rpc"}
			if ch == "lbtc" {
				ws = []string{"rpc", "electrum"}
			}
			for _, wt := range ws {
				for _, cs := range []string{"not-yet", "exact", "long"} {
					for _, st := range []string{"cancel", "invalid-message", "coop-bad-key"} {
						for _, noise := range []bool{false, true} {
							if !r.Thorough() && noise && cs == "not-yet" && st != "cancel" {
								continue
							}
							cases = append(cases, c18Case{ch, ty, wt, cs, st, noise, false})
							if !noise && wt == "rpc" && (cs != "long" || r.Thorough()) {
								cases = append(cases, c18Case{ch, ty, wt, cs, st, noise, true})
							}
						}
					}
				}
			}
		}
	}
	reps := r.N(1, 12)
	parallelDo(len(cases)*reps, 8, func(i int) { runC18(r, r.Seed*3167+int64(i)+1, cases[i%len(cases)]) })
	// (ii) chain-notification handling of the real watchers keeps going: block histories of C20 with a consumer that
	// takes 8 ms for a confirmation report (a taker paying), then a fresh CSV registration must be reported
	var wcases []c20Case
	for _, be := range []string{"bitcoind", "elementsd", "electrum"} {
		for _, pat := range []string{"plain", "burst", "blocks-between-calls", "registered-after-the-fact", "window-edge", "confirm-late-between-calls", "transient-errors", "reorg"} {
			for k := 0; k < r.N(2, 12); k++ {
				wcases = append(wcases, c20Case{backend: be, pattern: pat, slow: 8 * time.Millisecond})
			}
		}
	}
	parallelDo(len(wcases), 6, func(i int) { runC18Watcher(r, r.Seed*6151+int64(i)+1, wcases[i]) })
	sr, _ := r.Extra["stimuli_returned"].(int)
	r.Sample(map[string]any{"case": "btc swap-out maker, output 1058 blocks deep, taker sends cancel", "expectation": "cancel is processed, CSV refund follows"})
	r.Require(sr+len(r.Violations) >= len(cases)*reps*3/4, fmt.Sprintf("only %d stimuli returned in %d scenarios", sr, len(cases)*reps))
}

// ---------------------------------------------------------------------------
// C19

func runC19World(r *Run, seed int64) {
	rng := mrand.New(mrand.NewSource(seed))
	w := sim.NewWorld(seed)
	defer w.Close()
	a := w.AddNode("alice", sim.DefaultNodeConfig())
	b := w.AddNode("bob", sim.DefaultNodeConfig())
	mal := w.AddPeer("mallory")
	for ch := 0; ch < 3; ch++ {
		w.LN.OpenChannel(fmt.Sprintf("%dx1x0", 100+ch), a.ID, b.ID, 50_000_000_000, 50_000_000_000)
	}
	w.LN.OpenChannel("300x1x0", a.ID, mal.ID, 50_000_000_000, 50_000_000_000)
	ra := &realNode{n: a, useEl: rng.Intn(2) == 0}
	rb := &realNode{n: b}
	defer ra.stop()
	defer rb.stop()
	if ra.start(false) != nil || rb.start(false) != nil {
		return
	}
	stop := startPumps(w, 3)
	var wg sync.WaitGroup
	done := make(chan struct{})
	var rmu sync.Mutex
	lr := func(n int) int { rmu.Lock(); defer rmu.Unlock(); return rng.Intn(n) }
	bg := func(f func()) {
		wg.Add(1)
		go func() {
			defer wg.Done()
			for {
				select {
				case <-done:
					return
				default:
					f()
					time.Sleep(time.Duration(100+lr(400)) * time.Microsecond)
				}
			}
		}()
	}
	// swaps on three channels, both directions and chains
	var ids []string
	for ch := 0; ch < 3; ch++ {
		ini, peer := a, b
		if ch == 1 {
			ini, peer = b, a
		}
		chain := pick(rng, "btc", "lbtc")
		var sm *swap.SwapStateMachine
		var err error
		if ch%2 == 0 {
			sm, err, _ = ini.SwapOut(peer.ID, chain, fmt.Sprintf("%dx1x0", 100+ch), 300_000, 100000)
		} else {
			sm, err, _ = ini.SwapIn(peer.ID, chain, fmt.Sprintf("%dx1x0", 100+ch), 300_000, 100000)
		}
		if err == nil && sm != nil {
			ids = append(ids, sm.SwapId.String())
		}
	}
	// concurrent entry points
	var idMu sync.Mutex
	var timerHits, csvCalls atomic.Int32
	pickID := func() *swap.SwapId {
		idMu.Lock()
		defer idMu.Unlock()
		if len(ids) == 0 {
			return nil
		}
		id, _ := swap.ParseSwapIdFromString(ids[lr(len(ids))])
		return id
	}
	// in a third of the worlds the chains jump past the CSV depth once, so that the watchers' csv-passed callbacks
	// run while the swaps are still being paid, cancelled and restarted
	deep := rng.Intn(2) == 0
	var blockRounds atomic.Int32
	bg(func() { // blocks on both chains -> real watcher callbacks
		w.BTC.Mine(1)
		w.LBTC.Mine(1)
		if n := blockRounds.Add(1); deep && n == 12 {
			w.BTC.Mine(int(ref.CSV("btc", 7)) + 3)
			w.LBTC.Mine(int(ref.CSV("lbtc", 7)) + 3)
			// ... and at that moment the takers cancel / send an unusable coop_close for the swaps that are under way:
			// csv-passed callback and message handler of one swap at the same time
			idMu.Lock()
			cp := append([]string(nil), ids...)
			idMu.Unlock()
			for i, s := range cp {
				if id, err := swap.ParseSwapIdFromString(s); err == nil {
					if i%2 == 0 {
						w.InjectMsg(b.ID, "alice", ref.MsgCancel, mustJSON(&swap.CancelMessage{SwapId: id, Message: "now"}))
						w.InjectMsg(a.ID, "bob", ref.MsgCancel, mustJSON(&swap.CancelMessage{SwapId: id, Message: "now"}))
					} else {
						w.InjectMsg(b.ID, "alice", ref.MsgCoopClose, mustJSON(&swap.CoopCloseMessage{SwapId: id, Message: "x", Privkey: "zz"}))
						w.InjectMsg(a.ID, "bob", ref.MsgCoopClose, mustJSON(&swap.CoopCloseMessage{SwapId: id, Message: "x", Privkey: "zz"}))
					}
				}
			}
		}
		ra.notify()
		rb.notify()
		time.Sleep(time.Millisecond)
	})
	bg(func() { // rpc-style reads
		if inc := a.Inc(); inc != nil && inc.Svc != nil {
			// through Call: a call that is in flight when the incarnation is killed parks like any other
			// goroutine of that process
			inc.Call(func() {
				inc.Svc.ListSwaps()
				inc.Svc.ListActiveSwaps()
				inc.Svc.HasActiveSwaps()
				if id := pickID(); id != nil {
					inc.Svc.GetSwap(id.String())
				}
				inc.Svc.ListSwapsByPeer(b.ID)
			})
		}
	})
	bg(func() { // policy edits (operator RPCs)
		if inc := a.Inc(); inc != nil && inc.Policy != nil {
			p := inc.Policy
			k := hx(append([]byte{2}, randBytes(32)...))
			switch lr(4) {
			case 0:
				p.AddToAllowlist(k)
				p.RemoveFromAllowlist(k)
			case 1:
				p.ReloadFile()
			case 2:
				p.DisableSwaps()
				p.EnableSwaps()
			case 3:
				p.AddToSuspiciousPeerList(k)
				p.RemoveFromSuspiciousPeerList(k)
			}
		}
	})
	bg(func() { // policy readers (what request handling and peer-sync consult), concurrently with the edits
		if inc := a.Inc(); inc != nil && inc.Policy != nil {
			p := inc.Policy
			k := hx(append([]byte{2}, randBytes(32)...))
			p.NewSwapsAllowed()
			p.IsPeerAllowed(k)
			p.IsPeerSuspicious(k)
			p.Get()
			p.GetMinSwapAmountMsat()
			p.GetReserveOnchainMsat()
		}
	})
	bg(func() { // premium settings
		if inc := a.Inc(); inc != nil && inc.Premium != nil {
			ps := inc.Premium
			pr, _ := premium.NewPremiumRate(premium.BTC, premium.SwapOut, premium.NewPPM(int64(lr(5000))))
			ps.SetRate(context.Background(), b.ID, pr)
			ps.GetRate(b.ID, premium.BTC, premium.SwapOut)
			ps.Compute(b.ID, premium.LBTC, premium.SwapIn, 100000)
			ps.DeleteRate(context.Background(), b.ID, premium.BTC, premium.SwapOut)
		}
	})
	bg(func() { // swaps come and go: the counterparty cancels one now and then, new ones are started on free channels
		switch lr(6) {
		case 0:
			if id := pickID(); id != nil {
				w.InjectMsg(b.ID, "alice", ref.MsgCancel, mustJSON(&swap.CancelMessage{SwapId: id, Message: "peer gives up"}))
				w.InjectMsg(a.ID, "bob", ref.MsgCancel, mustJSON(&swap.CancelMessage{SwapId: id, Message: "peer gives up"}))
			}
		case 1, 2:
			ini, peer := a, b
			if lr(2) == 0 {
				ini, peer = b, a
			}
			ch := fmt.Sprintf("%dx1x0", 100+lr(3))
			chain := []string{"btc", "lbtc"}[lr(2)]
			var sm *swap.SwapStateMachine
			var err error
			if lr(2) == 0 {
				sm, err, _ = ini.SwapOut(peer.ID, chain, ch, 300_000, 100000)
			} else {
				sm, err, _ = ini.SwapIn(peer.ID, chain, ch, 300_000, 100000)
			}
			if err == nil && sm != nil {
				idMu.Lock()
				ids = append(ids, sm.SwapId.String())
				idMu.Unlock()
				if lr(2) == 0 && blockRounds.Load() > 24 && timerHits.Add(1) <= 6 {
					// ... and for the swap just started (its negotiation timer is armed, it is certainly active): the
					// timer becomes due while the peer's cancel for it is on its way
					time.Sleep(time.Millisecond)
					w.Advance(11 * time.Minute)
					w.InjectMsg(peer.ID, ini.Name, ref.MsgCancel, mustJSON(&swap.CancelMessage{SwapId: sm.SwapId, Message: "late"}))
				}
			}
		case 4:
			// the watcher entry point of a swap (csv-passed callback, as the watchers call it) at the moment a message
			// for the same swap is handled
			if id := pickID(); id != nil && csvCalls.Add(1) <= 12 {
				if inc := a.Inc(); inc != nil && inc.Svc != nil {
					go inc.Call(func() { inc.Svc.OnCsvPassed(id.String()) })
				}
				w.InjectMsg(b.ID, "alice", ref.MsgCancel, mustJSON(&swap.CancelMessage{SwapId: id, Message: "x"}))
			}
		case 3:
			// the negotiation timeout of a swap becomes due at the moment its counterparty's cancel (or an invalid
			// message) arrives: timer entry point and message entry point of one swap, delivered by different pumps
			// (a few times per world: every firing ends all swaps that are still negotiating)
			// (in the second part of a world: the first part runs its swaps without mass time-outs)
			if id := pickID(); id != nil && blockRounds.Load() > 24 && timerHits.Add(1) <= 6 {
				w.Advance(11 * time.Minute)
				if lr(2) == 0 {
					w.InjectMsg(b.ID, "alice", ref.MsgCancel, mustJSON(&swap.CancelMessage{SwapId: id, Message: "late"}))
					w.InjectMsg(a.ID, "bob", ref.MsgCancel, mustJSON(&swap.CancelMessage{SwapId: id, Message: "late"}))
				} else {
					w.InjectMsg(b.ID, "alice", ref.MsgCoopClose, mustJSON(&swap.CoopCloseMessage{SwapId: id, Message: "x", Privkey: "zz"}))
					w.InjectMsg(a.ID, "bob", ref.MsgCoopClose, mustJSON(&swap.CoopCloseMessage{SwapId: id, Message: "x", Privkey: "zz"}))
				}
			}
		}
		time.Sleep(2 * time.Millisecond)
	})
	bg(func() { // hostile and duplicate messages for live swaps and fresh requests from a third party
		id := pickID()
		if id == nil {
			return
		}
		switch lr(4) {
		case 0:
			mal.Send("alice", ref.MsgCancel, &swap.CancelMessage{SwapId: id, Message: "x"})
		case 1:
			mt, payload := c10Request([]string{"in", "out"}[lr(2)], swap.NewSwapId(), "300x1x0", "btc")
			mal.Send("alice", mt, payload)
		case 2:
			w.Advance(3 * time.Minute)
		case 3:
			if inc := a.Inc(); inc != nil && inc.Svc != nil {
				inc.Call(func() { inc.Svc.ResendLastMessage(id.String()) })
			}
		}
	})
	time.Sleep(time.Duration(r.N(120, 400)) * time.Millisecond)
	// restart alice while messages keep arriving (restart window), then let things run again
	ra.start(true)
	time.Sleep(5 * time.Millisecond)
	a.Recover()
	time.Sleep(time.Duration(r.N(60, 200)) * time.Millisecond)
	close(done)
	wg.Wait()
	stop()
	w.WaitIdle(2 * time.Second)
	r.Eval()
	r.Count("worlds", 1)
	r.Count("events_observed", len(w.Events()))
}

// runC19Watcher exercises one real watcher (rpc or Electrum) on its own: registrations keep arriving from several
// goroutines (as swap actions do), blocks and header notifications keep arriving, and the consumer of the reports
// answers like the swap service does (nil, "swap does not exist" for a swap that is gone, or another error).
func runC19Watcher(r *Run, seed int64, backend string) {
	rng := mrand.New(mrand.NewSource(seed))
	w := sim.NewWorld(seed)
	defer w.Close()
	chain, confs := w.LBTC, uint32(2)
	if backend == "bitcoind" || backend == "lnd" {
		chain, confs = w.BTC, 3
	}
	chain.Mine(1)
	ctx, cancel := context.WithCancel(context.Background())
	defer cancel()
	var watch c20Watch
	var el *sim.ElectrumFacade
	if backend == "electrum" {
		el = &sim.ElectrumFacade{C: chain}
		ew, err := lwk.NewElectrumTxWatcher(el)
		if err != nil {
			r.Inconclusive(err.Error())
			return
		}
		watch = ew
	} else if backend == "lnd" {
		lf := &sim.LndChainFake{C: chain}
		watch = lnd.VerifNewTxWatcher(ctx, lf, lf, sim.BtcParams, confs, 1008)
	} else {
		watch = txwatcher.NewBlockchainRpcTxWatcher(ctx, &sim.RpcFacade{C: chain}, confs)
	}
	var amu sync.Mutex
	answers := mrand.New(mrand.NewSource(seed ^ 77))
	answer := func() error {
		amu.Lock()
		defer amu.Unlock()
		switch answers.Intn(4) {
		case 0:
			return swap.ErrSwapDoesNotExist
		case 1:
			return fmt.Errorf("consumer busy")
		}
		return nil
	}
	var reports atomic.Int64
	watch.AddConfirmationCallback(func(string, string, error) error { reports.Add(1); return answer() })
	watch.AddCsvCallback(func(string) error { reports.Add(1); return answer() })
	if watch.StartWatchingTxs() != nil {
		r.Inconclusive("watcher did not start")
		return
	}
	// a handful of transactions to watch
	type wtx struct {
		id     string
		script []byte
	}
	var txs []wtx
	for i := 0; i < 4; i++ {
		script := append([]byte{0x00, 0x20}, randBytes(32)...)
		var hexTx string
		if backend == "bitcoind" || backend == "lnd" {
			hexTx, _ = buildBtcTx(1, []outSpec{{Script: script, Value: 70_000}})
		} else {
			hexTx, _, _ = buildLiquidTx(1, []outSpec{{Script: script, Value: 70_000, Explicit: true}})
		}
		if tx, err := chain.AddWalletTx(hexTx, "maker", "open"); err == nil {
			txs = append(txs, wtx{tx.ID, script})
		}
	}
	if len(txs) == 0 {
		return
	}
	done := make(chan struct{})
	var wg sync.WaitGroup
	for g := 0; g < 3; g++ {
		wg.Add(1)
		lr := mrand.New(mrand.NewSource(seed + int64(g)*13 + 5))
		go func() { // registrations
			defer wg.Done()
			for {
				select {
				case <-done:
					return
				default:
				}
				t := txs[lr.Intn(len(txs))]
				start := chain.Height()
				if lr.Intn(2) == 0 {
					watch.AddWaitForConfirmationTx(swap.NewSwapId().String(), t.id, 0, start, uint32(3+lr.Intn(20)), t.script)
				} else {
					watch.AddWaitForCsvTx(swap.NewSwapId().String(), t.id, 0, start, uint32(1+lr.Intn(5)), t.script)
				}
				time.Sleep(time.Duration(100+lr.Intn(600)) * time.Microsecond)
			}
		}()
	}
	wg.Add(1)
	go func() { // blocks
		defer wg.Done()
		for {
			select {
			case <-done:
				return
			default:
			}
			chain.Mine(1)
			if el != nil {
				el.NotifyTip()
			}
			time.Sleep(time.Duration(300+rng.Intn(900)) * time.Microsecond)
		}
	}()
	time.Sleep(time.Duration(r.N(80, 200)) * time.Millisecond)
	close(done)
	wg.Wait()
	cancel()
	r.Eval()
	r.Count("watcher_worlds", 1)
	r.Count("watcher_reports_observed", int(reports.Load()))
	r.Seen("watcher-world/" + backend)
}

func TestC19(t *testing.T) {
	txwatcher.VerifSetPolling(time.Millisecond, time.Millisecond)
	swap.VerifSetRetryDur(3 * time.Millisecond)
	r := newRun(t, "C19", "exploration")
	defer r.Finish()
	r.Rule = "race-detector build: worlds with two real nodes (real RPC / Electrum watchers, real retransmitters, 3 concurrent delivery pumps) run three swaps while goroutines concurrently mine blocks (watcher callbacks), call the RPC-style readers, edit/reload the policy, set/get/delete premium rates, inject cancels / third-party requests / timers / ResendLastMessage, and restart a node with messages arriving before RecoverSwaps; in addition the peer-sync sequences of C28 and the concurrent channel acquisition of C10 run in the same binary. Every DATA RACE report whose two stacks both contain a frame of the peerswap module is a violation, de-duplicated by the unordered pair of innermost peerswap frames. distinct = race pairs / worlds"
	r.Assumptions = []string{"reports with a verif-hook frame or without a peerswap frame on both sides are attributed to the harness and fail the check as broken, not as a violation", "a report whose two racing accesses are both performed by third-party library code on the library's own internal state (observed: go-secp256k1-zkp SharedContext cache, reached from concurrent Liquid blinding) is counted under third_party_library_reports and is not a verdict on peerswap's swap, policy, watcher or peer-sync state"}
	if !raceEnabled {
		r.Inconclusive("not a race-detector build (run through ./check, which builds with -race)")
		return
	}
	n := r.N(40, 400)
	parallelDo(n, 3, func(i int) { runC19World(r, r.Seed*4261+int64(i)+1) })
	// the real watchers on their own, with registrations, blocks and all kinds of consumer answers at once
	parallelDo(r.N(12, 80), 3, func(i int) {
		runC19Watcher(r, r.Seed*1277+int64(i)+1, []string{"electrum", "bitcoind", "elementsd", "lnd"}[i%4])
	})
	// concurrent channel acquisition and peersync under the race detector as well
	parallelDo(r.N(10, 100), 4, func(i int) { runC10Conc(r, r.Seed*977+int64(i)+1) })
	time.Sleep(50 * time.Millisecond)
	files := raceLogFiles()
	total, harness, third := 0, 0, 0
	for _, f := range files {
		b, err := os.ReadFile(f)
		if err != nil {
			continue
		}
		for _, rep := range parseRaceReports(string(b)) {
			total++
			if rep.thirdParty != "" {
				// both accesses are made by a library on its own internal state (not swap, policy, watcher or
				// peer-sync state): recorded, not a verdict about peerswap
				third++
				r.CountIn("third_party_library_reports", rep.thirdParty)
				continue
			}
			if !rep.inPS || rep.verif || rep.harnessAccess {
				harness++
				r.CountIn("harness_side_reports", rep.pair)
				continue
			}
			r.Seen("race/" + rep.pair)
			txt := rep.text
			if len(txt) > 3500 {
				txt = txt[:3500]
			}
			r.Violate("no-data-race", "C19|race|"+rep.pair, txt, nil)
		}
	}
	r.Extra["race_reports_total"] = total
	r.Extra["race_reports_harness_side"] = harness
	r.Extra["race_reports_third_party_library_state"] = third
	r.Extra["race_log_files"] = len(files)
	if os.Getenv("GORACE") == "" || !strings.Contains(os.Getenv("GORACE"), "log_path") {
		r.Inconclusive("GORACE log_path not set: race reports cannot be collected (run through ./check)")
	}
	r.Seen(fmt.Sprintf("worlds=%d", n))
	r.Seen("entry-points=messages+watchers+payments+timers+recovery+readers+policy+premium")
	r.Sample(map[string]any{"world": "3 swaps, 3 pumps, 5 background goroutines, restart with messages before RecoverSwaps", "reports": total})
	if harness > 0 {
		fmt.Printf("BROKEN: %d race reports are on the harness side (see evidence harness_side_reports)\n", harness)
	}
}

// ---------------------------------------------------------------------------
// C22

type c22Case struct {
	chain, typ string
	cont       string // payment | cancel | coop-good | coop-bad | csv | invalid | restart
}

func runC22(r *Run, seed int64, c c22Case) {
	rng := mrand.New(mrand.NewSource(seed))
	w := sim.NewWorld(seed)
	defer w.Close()
	m := w.AddNode("alice", sim.DefaultNodeConfig())
	tk := w.AddPeer("mallory")
	w.LN.OpenChannel("100x1x0", m.ID, tk.ID, 5_000_000_000, 5_000_000_000)
	var unreachable, lateOn atomic.Bool
	var lateAttempts atomic.Int32
	m.Fault = func(op string) error {
		if op == fmt.Sprintf("msg.send:%d", ref.MsgOpeningTxBroadcast) && unreachable.Load() {
			if lateOn.Load() {
				lateAttempts.Add(1)
			}
			return fmt.Errorf("peer is not connected")
		}
		return nil
	}
	if m.Start() != nil {
		return
	}
	chain := w.BTC
	if c.chain == "lbtc" {
		chain = w.LBTC
	}
	rn := &realNode{n: m}
	// the reference watcher is enough here; only the retransmitter is the real concurrent component
	id, takerKey, err := makerToAwaitPayment(w, rn, tk, c.chain, c.typ, rng)
	if err != nil {
		r.Inconclusive("setup: " + err.Error())
		return
	}
	interval := c22Interval
	time.Sleep(6 * interval) // a few retransmissions while waiting
	w.Run()
	third, _ := btcec.NewPrivateKey()
	switch c.cont {
	case "payment":
		var ann swap.OpeningTxBroadcastedMessage
		if mm := tk.Take(ref.MsgOpeningTxBroadcast); mm != nil {
			json.Unmarshal(mm.Payload, &ann)
			w.LN.PeerPay(tk.ID, ann.Payreq)
		}
	case "cancel":
		tk.Send("alice", ref.MsgCancel, &swap.CancelMessage{SwapId: id, Message: "no"})
	case "coop-good":
		tk.Send("alice", ref.MsgCoopClose, &swap.CoopCloseMessage{SwapId: id, Message: "x", Privkey: hx(takerKey.Serialize())})
	case "coop-bad":
		tk.Send("alice", ref.MsgCoopClose, &swap.CoopCloseMessage{SwapId: id, Message: "x", Privkey: hx(third.Serialize())})
	case "invalid":
		tk.Send("alice", ref.MsgCoopClose, &swap.CoopCloseMessage{SwapId: id, Message: "x", Privkey: "zz"})
	case "csv":
		chain.Mine(int(ref.CSV(c.chain, 7)) + 2)
	case "csv-slow-wallet":
		// the CSV matures and the wallet / chain backend takes 12 retry intervals to build and broadcast the refund:
		// the node is refunding, it is no longer waiting for the taker
		m.OnCrossing = func(k int64, op string) {
			if op == c.chain+".csv" {
				w.Emit("alice", 0, "c22.spend-begins", sim.EvNote{})
				time.Sleep(12 * interval)
				w.Emit("alice", 0, "c22.spend-ends", sim.EvNote{})
			}
		}
		chain.Mine(int(ref.CSV(c.chain, 7)) + 2)
	case "cancel-while-send-stalled":
		// the Lightning backend stalls (its send call has no deadline): every send of the announcement blocks for 20
		// retry intervals; 3 intervals into the stall the taker cancels
		var stallUntil atomic.Int64
		stallUntil.Store(time.Now().Add(20 * interval).UnixNano())
		m.OnCrossing = func(k int64, op string) {
			if op == fmt.Sprintf("msg.send:%d", ref.MsgOpeningTxBroadcast) {
				for time.Now().UnixNano() < stallUntil.Load() {
					time.Sleep(interval / 2)
				}
			}
		}
		time.Sleep(3 * interval)
		tk.Send("alice", ref.MsgCancel, &swap.CancelMessage{SwapId: id, Message: "no"})
	case "csv-unreachable":
		// the taker disconnects: every further send of the announcement fails; then the CSV matures
		unreachable.Store(true)
		time.Sleep(3 * interval)
		chain.Mine(int(ref.CSV(c.chain, 7)) + 2)
	case "restart":
		m.Restart()
	}
	w.Run()
	chain.Mine(1)
	w.Run()
	// >= 24 retry intervals after the swap moved on, with a marker in the log after the first half
	time.Sleep(12 * interval)
	w.Emit("alice", 0, "c22.late", sim.EvNote{Note: "12 retry intervals after the continuation"})
	lateOn.Store(true)
	if c.cont == "csv-unreachable" {
		time.Sleep(2300 * time.Millisecond) // send attempts to an unreachable peer may be paced in seconds
	} else {
		time.Sleep(12 * interval)
	}
	w.Run()
	if n := lateAttempts.Load(); n > 1 {
		r.Violate("stops-when-moved-on", fmt.Sprintf("C22|send-attempts-continue-while-peer-unreachable|%s|%s", c.typ, c.cont),
			fmt.Sprintf("%d attempts to send opening_tx_broadcasted to the unreachable peer later than 12 retry intervals after the swap had moved on; case %+v seed %d", n, c, seed), traceOf(w))
	}
	// ---- oracle ------------------------------------------------------------------------
	waiting := map[string]bool{"State_SwapInSender_SendTxBroadcastedMessage": true, "State_SwapInSender_AwaitClaimPayment": true,
		"State_SwapOutReceiver_SendTxBroadcastedMessage": true, "State_SwapOutReceiver_AwaitClaimInvoicePayment": true}
	var movedOn int64
	var first []byte
	copiesAfter, copies, copiesLate := 0, 0, 0
	inSpend, copiesInSpend := false, 0
	var late int64
	liveMax := 0
	incOfMove := 0
	for _, e := range w.Events() {
		if e.Node != "alice" {
			continue
		}
		switch e.Kind {
		case "c22.spend-begins":
			inSpend = true
		case "c22.spend-ends":
			inSpend = false
		case "c22.late":
			late = e.Seq
		case "store.write":
			x := e.P.(sim.EvStore)
			if movedOn == 0 && copies > 0 && !waiting[x.State] && x.State != "State_SwapInSender_BroadcastOpeningTx" && x.State != "State_SwapOutReceiver_BroadcastOpeningTx" {
				movedOn = e.Seq
				incOfMove = e.Inc
			}
		case "msg.send":
			x := e.P.(sim.EvMsg)
			if x.Type != ref.MsgOpeningTxBroadcast {
				continue
			}
			copies++
			if inSpend {
				copiesInSpend++
			}
			if first == nil {
				first = x.Payload
			} else if string(first) != string(x.Payload) {
				r.Violate("copies-identical", "C22|retransmitted-copy-differs|"+c.cont, fmt.Sprintf("case %+v", c), nil)
			}
			if movedOn != 0 && e.Seq > movedOn && e.Inc == incOfMove {
				copiesAfter++
				if late != 0 && e.Seq > late {
					copiesLate++
				}
			}
		case "sender.add", "sender.remove":
			x := e.P.(sim.EvSender)
			if x.Live > liveMax {
				liveMax = x.Live
			}
		}
	}
	final := ""
	if rec := m.StoredSwap(id.String()); rec != nil {
		final = string(rec.Current)
	}
	r.Eval()
	r.Count("announcement_copies_seen", copies)
	r.Seen(fmt.Sprintf("%s/%s/%s/final=%s/copies-after-move=%d", c.chain, c.typ, c.cont, final, min(copiesAfter, 3)))
	det := fmt.Sprintf("%d copies in total, %d after the swap moved on, %d of them more than 12 retry intervals later (state %s); case %+v seed %d", copies, copiesAfter, copiesLate, final, c, seed)
	if copiesInSpend > 2 { // (a stopped sender may still find one or two ticks already due)
		r.Violate("stops-when-moved-on", fmt.Sprintf("C22|retransmission-while-refunding|%s|%s", c.typ, c.cont),
			fmt.Sprintf("%d copies of opening_tx_broadcasted were sent while the node was building / broadcasting its refund (12 retry intervals); case %+v seed %d", copiesInSpend, c, seed), traceOf(w))
	}
	if liveMax > 1 {
		r.Violate("one-retransmitter", "C22|more-than-one-retransmitter|"+c.cont, det, nil)
	}
	if copiesAfter > 1 {
		// more than one copy right after the move: ticks that were already due while the stopped sender was
		// still busy (its select may take a ready tick before it sees the stop); counted, judged below
		r.CountIn("extra_due_copies_after_move", fmt.Sprintf("%s/%s=%d", c.typ, c.cont, copiesAfter))
	}
	if c.cont == "cancel-while-send-stalled" {
		// the one send that was blocked when the swap moved on goes out when the backend recovers, and the stopped
		// sender may find a tick or two due; more than that means sends piled up behind the stalled one
		if movedOn != 0 && copiesLate > 3 {
			r.Violate("stops-when-moved-on", fmt.Sprintf("C22|copies-pile-up-behind-a-stalled-send|%s|%s", c.typ, c.cont), det, traceOf(w))
		}
	} else if movedOn != 0 && copiesLate > 1 {
		r.Violate("stops-when-moved-on", fmt.Sprintf("C22|retransmission-continues|%s|%s|final=%s", c.typ, c.cont, final), det, traceOf(w))
	}
	if c.cont == "restart" {
		// after a restart the swap is waiting again: retransmission may resume (one retransmitter)
		return
	}
	if movedOn == 0 && c.cont != "restart" {
		r.CountIn("never_moved_on", c.cont+"/"+final)
	}
}

// c22Interval is the retransmission interval in the C22 worlds (10 s in production).
const c22Interval = 5 * time.Millisecond

func TestC22(t *testing.T) {
	swap.VerifSetRetryDur(c22Interval)
	r := newRun(t, "C22", "exploration")
	defer r.Finish()
	r.Rule = "real makers (both roles, both chains) with the real RedundantMessenger goroutines (retry interval 5 ms through the verif hook) announce their opening tx to a scripted taker; after a few retransmissions the history continues with {payment, cancel, good coop_close, coop_close with a wrong key, invalid message, CSV maturity, restart, CSV maturity while the taker is unreachable (every send fails; observed for 2.3 s, send attempts counted at the boundary)} and runs for >= 24 more retry intervals, with a marker written to the log after the first 12. Oracle over the recorded log: copies byte-identical, never more than one live retransmitter per swap (AddSender/RemoveSender seen through a decorator of the real Manager), and retransmission has stopped: at most one copy after the marker once the first committed record in a non-waiting state exists (within that incarnation). Copies between the move and the marker beyond the first are counted (extra_due_copies_after_move), not judged: with the interval shrunk from 10 s to 5 ms a stopped sender can find further ticks already due. distinct = (chain, role, continuation, final state, copies after move)"
	r.Assumptions = []string{"wall-clock time only decides how many copies are observed; the verdict compares positions in the event log", "a stopped sender does not find ticks due for 12 consecutive intervals (it leaves its loop with probability 1/2 per due tick)"}
	var cases []c22Case
	for _, ch := range []string{"btc", "lbtc"} {
		for _, ty := range []string{"in", "out"} {
			for _, ct := range []string{"payment", "cancel", "coop-good", "coop-bad", "invalid", "csv", "restart", "csv-unreachable", "csv-slow-wallet", "cancel-while-send-stalled"} {
				cases = append(cases, c22Case{ch, ty, ct})
			}
		}
	}
	reps := r.N(2, 30)
	parallelDo(len(cases)*reps, 8, func(i int) { runC22(r, r.Seed*2713+int64(i)+1, cases[i%len(cases)]) })
	cs, _ := r.Extra["announcement_copies_seen"].(int)
	r.Sample(map[string]any{"case": "lbtc out/receiver, taker cancels", "expectation": "at most one more opening_tx_broadcasted after the record left AwaitClaimInvoicePayment"})
	r.Require(cs >= len(cases)*reps*3, fmt.Sprintf("only %d announcement copies observed", cs))
}
