package props

import (
	"bytes"
	"fmt"
	mrand "math/rand"
	"sort"
	"testing"

	"github.com/btcsuite/btcd/btcec/v2"
	"github.com/elementsproject/peerswap/swap"

	"verifharness/ref"
	"verifharness/sim"
)

var c09MsgTypes = []int{ref.MsgSwapInRequest, ref.MsgSwapOutRequest, ref.MsgSwapInAgreement, ref.MsgSwapOutAgreement, ref.MsgOpeningTxBroadcast, ref.MsgCancel, ref.MsgCoopClose}

var c09EventOf = map[int]swap.EventType{
	ref.MsgSwapInAgreement:    swap.Event_SwapInSender_OnAgreementReceived,
	ref.MsgSwapOutAgreement:   swap.Event_OnFeeInvoiceReceived,
	ref.MsgOpeningTxBroadcast: swap.Event_OnTxOpenedMessage,
	ref.MsgCancel:             swap.Event_OnCancelReceived,
	ref.MsgCoopClose:          swap.Event_OnCoopCloseReceived,
}

var c09TypeName = map[int]string{
	ref.MsgSwapInRequest: "swap_in_request", ref.MsgSwapOutRequest: "swap_out_request", ref.MsgSwapInAgreement: "swap_in_agreement",
	ref.MsgSwapOutAgreement: "swap_out_agreement", ref.MsgOpeningTxBroadcast: "opening_tx_broadcasted", ref.MsgCancel: "cancel", ref.MsgCoopClose: "coop_close",
}

type c09Snap struct {
	recs   map[string][]byte
	active map[string]swap.VerifActiveSwap
}

func c09Snapshot(n *sim.Node) c09Snap {
	s := c09Snap{recs: n.StoredSwaps(), active: map[string]swap.VerifActiveSwap{}}
	if inc := n.Inc(); inc != nil && inc.Svc != nil {
		for _, a := range inc.Svc.VerifActiveSwaps() {
			s.active[a.Id] = a
		}
	}
	return s
}

// c09Payload builds a well-formed payload of the given type for swap id.
func c09Payload(rng *mrand.Rand, typ int, id *swap.SwapId, scid, chain string, w *sim.World, payee string, malformed bool) []byte {
	k, _ := btcec.NewPrivateKey()
	pub := hx(k.PubKey().SerializeCompressed())
	if malformed {
		// decodes into the message of its type but fails the message's own validation
		switch typ {
		case ref.MsgSwapInAgreement:
			return mustJSON(&swap.SwapInAgreementMessage{ProtocolVersion: 7, SwapId: id, Pubkey: pick(rng, "02", "zz", pub[:64]), Premium: 10})
		case ref.MsgSwapOutAgreement:
			return mustJSON(&swap.SwapOutAgreementMessage{ProtocolVersion: 7, SwapId: id, Pubkey: pick(rng, "02", "zz", pub[:64]), Payreq: "", Premium: 10})
		case ref.MsgOpeningTxBroadcast:
			return mustJSON(&swap.OpeningTxBroadcastedMessage{SwapId: id, Payreq: "", TxId: pick(rng, "zz", "", "00"), ScriptOut: 0})
		case ref.MsgCoopClose:
			return mustJSON(&swap.CoopCloseMessage{SwapId: id, Message: "coop from adversary", Privkey: pick(rng, "zz", "01", "")})
		case ref.MsgSwapInRequest:
			return mustJSON(&swap.SwapInRequestMessage{ProtocolVersion: 7, SwapId: id, Scid: scid, Amount: 300_000, Pubkey: "02"})
		case ref.MsgSwapOutRequest:
			return mustJSON(&swap.SwapOutRequestMessage{ProtocolVersion: 7, SwapId: id, Scid: scid, Amount: 300_000, Pubkey: "02"})
		}
	}
	asset, network := "", ""
	if chain == "lbtc" {
		asset = hx(sim.PolicyAsset())
	} else {
		network = sim.BtcParams.Name
	}
	switch typ {
	case ref.MsgSwapInRequest:
		return mustJSON(&swap.SwapInRequestMessage{ProtocolVersion: 7, SwapId: id, Network: network, Asset: asset, Scid: scid, Amount: 300_000, Pubkey: pub, PremiumLimit: 1_000_000})
	case ref.MsgSwapOutRequest:
		return mustJSON(&swap.SwapOutRequestMessage{ProtocolVersion: 7, SwapId: id, Network: network, Asset: asset, Scid: scid, Amount: 300_000, Pubkey: pub, PremiumLimit: 1_000_000})
	case ref.MsgSwapInAgreement:
		return mustJSON(&swap.SwapInAgreementMessage{ProtocolVersion: 7, SwapId: id, Pubkey: pub, Premium: 10})
	case ref.MsgSwapOutAgreement:
		inv := w.LN.NewInvoice(payee, 200_000, "", id.String(), "fee", 2, 600, 0)
		return mustJSON(&swap.SwapOutAgreementMessage{ProtocolVersion: 7, SwapId: id, Pubkey: pub, Payreq: inv.Payreq, Premium: 10})
	case ref.MsgOpeningTxBroadcast:
		inv := w.LN.NewInvoice(payee, 300_000_000, "", id.String(), "claim", 1, 3600, 29)
		return mustJSON(&swap.OpeningTxBroadcastedMessage{SwapId: id, Payreq: inv.Payreq, TxId: hx(randBytes(32)), ScriptOut: uint32(rng.Intn(2)), BlindingKey: hx(randBytes(32))})
	case ref.MsgCancel:
		return mustJSON(&swap.CancelMessage{SwapId: id, Message: "cancel from adversary"})
	case ref.MsgCoopClose:
		return mustJSON(&swap.CoopCloseMessage{SwapId: id, Message: "coop from adversary", Privkey: hx(k.Serialize())})
	}
	return nil
}

type c09Plan struct {
	chain, typ string
	aliceInit  bool // alice (node under test) initiates the main swap
	steps      int  // queue steps executed after the start
	blocks     int
	window     bool // restart window: Start without RecoverSwaps
	msgType    int
	third      bool   // sender is a third party
	idKind     string // live | finished | unknown
	scidKind   string // same | other | malformed
	malformed  bool   // the payload fails the message's own field validation
	// continueAfter: after the delivery the history is continued to its end and compared with the same world
	// without the delivery
	continueAfter bool
}

func runC09(r *Run, seed int64, pl c09Plan) {
	rng := mrand.New(mrand.NewSource(seed))
	w := sim.NewWorld(seed)
	defer w.Close()
	a := w.AddNode("alice", sim.DefaultNodeConfig())
	b := w.AddNode("bob", sim.DefaultNodeConfig())
	mal := w.AddPeer("mallory")
	w.LN.OpenChannel("100x1x0", a.ID, b.ID, 5_000_000_000, 5_000_000_000)
	w.LN.OpenChannel("200x1x0", a.ID, b.ID, 5_000_000_000, 5_000_000_000)
	w.LN.OpenChannel("300x1x0", a.ID, mal.ID, 5_000_000_000, 5_000_000_000)
	if a.Start() != nil || b.Start() != nil {
		r.Inconclusive("start failed")
		return
	}
	// a finished swap on another channel
	fsm, err, _ := a.SwapOut(b.ID, "btc", "200x1x0", 250_000, 100000)
	if err != nil || fsm == nil {
		r.Inconclusive("finished swap could not be started")
		return
	}
	w.Run()
	for i := 0; i < 4; i++ {
		w.BTC.Mine(1)
		w.Run()
	}
	finishedID := fsm.SwapId
	// the main swap, stopped after pl.steps queue steps
	ini, _ := a, b
	if !pl.aliceInit {
		ini = b
	}
	peerOfAlice := b.ID
	var sm *swap.SwapStateMachine
	otherID := a.ID
	if pl.aliceInit {
		otherID = b.ID
	}
	if pl.typ == "out" {
		sm, err, _ = ini.SwapOut(otherID, pl.chain, "100x1x0", 400_000, 100000)
	} else {
		sm, err, _ = ini.SwapIn(otherID, pl.chain, "100x1x0", 400_000, 100000)
	}
	if err != nil || sm == nil {
		r.Inconclusive(fmt.Sprintf("main swap could not be started: %v", err))
		return
	}
	liveID := sm.SwapId
	chain := w.BTC
	if pl.chain == "lbtc" {
		chain = w.LBTC
	}
	for i := 0; i < pl.steps; i++ {
		if !w.Step() {
			break
		}
	}
	for i := 0; i < pl.blocks; i++ {
		chain.Mine(1)
		for j := 0; j < 2; j++ {
			w.Step()
		}
	}
	if pl.window {
		if err := a.Restart(sim.StartOpts{NoRecover: true}); err != nil {
			r.Inconclusive("restart: " + err.Error())
			return
		}
	}
	// ---- the adversarial delivery ------------------------------------------------------
	var id *swap.SwapId
	switch pl.idKind {
	case "live":
		id = liveID
	case "finished":
		id = finishedID
	default:
		id = swap.NewSwapId()
	}
	scid := "100x1x0"
	switch pl.scidKind {
	case "other":
		scid = "300x1x0"
	case "malformed":
		scid = "300:1"
	}
	sender := peerOfAlice
	if pl.third {
		sender = mal.ID
	}
	payload := c09Payload(rng, pl.msgType, id, scid, pl.chain, w, sender, pl.malformed)
	before := c09Snapshot(a)
	mark := len(w.Events())
	errText, panicText := w.DeliverNow(sender, "alice", fmt.Sprintf("%x", pl.msgType), payload)
	after := c09Snapshot(a)
	var replies []sim.EvMsg
	for _, e := range w.Events()[mark:] {
		if e.Node == "alice" && e.Kind == "msg.send" {
			replies = append(replies, e.P.(sim.EvMsg))
		}
	}
	r.Eval()
	// ---- oracle ------------------------------------------------------------------------
	tid := id.String()
	tRec, known := before.recs[tid]
	tAct, active := before.active[tid]
	stateOfT := "absent"
	roleOfT := ""
	if known {
		var v struct {
			Current string `json:"current"`
			Type    int    `json:"type"`
			Role    int    `json:"role"`
			Data    struct {
				Peer string `json:"peer_node_id"`
			} `json:"data"`
		}
		decodeMsg(tRec, &v)
		stateOfT = v.Current
		roleOfT = roleName(v.Type, v.Role)
		_ = v
	}
	isReq := pl.msgType == ref.MsgSwapInRequest || pl.msgType == ref.MsgSwapOutRequest
	allowed := false
	if active && !isReq && sender == tAct.Peer {
		if tbl, ok := swap.VerifStateTables()[roleOfT]; ok {
			if st, ok := tbl[tAct.Current]; ok {
				if _, ok := st.Events[c09EventOf[pl.msgType]]; ok {
					allowed = true
				}
			}
		}
	}
	who := "counterparty"
	if pl.third {
		who = "third-party"
	}
	recov := "recovered"
	if pl.window {
		recov = "restart-window"
	}
	class := fmt.Sprintf("%s/%s/id=%s/%s/%s/state=%s/allowed=%v", c09TypeName[pl.msgType], who, pl.idKind, recov, roleOfT, stateOfT, allowed)
	r.Seen(class)
	r.CountIn("state_x_message_pairs", roleOfT+"/"+stateOfT+"/"+c09TypeName[pl.msgType])
	det := func(s string) string {
		return fmt.Sprintf("%s; delivery: type=%s from %s id-kind=%s scid=%s; target swap role=%s state=%s active=%v; handler error=%q; plan %+v seed %d", s, c09TypeName[pl.msgType], who, pl.idKind, scid, roleOfT, stateOfT, active, errText, pl, seed)
	}
	if panicText != "" {
		r.Violate("no-panic", fmt.Sprintf("C09|panic|%s|%s|id=%s|%s", c09TypeName[pl.msgType], who, pl.idKind, stateOfT), det(panicText[:min(len(panicText), 600)]), nil)
		return
	}
	// every other swap is untouched
	ids := make([]string, 0, len(before.recs))
	for k := range before.recs {
		ids = append(ids, k)
	}
	sort.Strings(ids)
	for _, k := range ids {
		if k == tid {
			continue
		}
		if !bytes.Equal(before.recs[k], after.recs[k]) {
			r.Violate("others-untouched", fmt.Sprintf("C09|other-swap-changed|%s|%s", c09TypeName[pl.msgType], who), det("record of another swap changed"), nil)
		}
	}
	if known && !allowed {
		changed := !bytes.Equal(tRec, after.recs[tid])
		sameObj := true
		if active {
			aa, still := after.active[tid]
			sameObj = still && aa.Machine == tAct.Machine && aa.Current == tAct.Current
		}
		kind := "non-request"
		if isReq {
			kind = "request"
		}
		why := "unacceptable-in-state"
		switch {
		case pl.third:
			why = "third-party"
		case !active && pl.window:
			why = "not-yet-recovered"
		case !active:
			why = "finished-swap"
		case isReq:
			why = "id-reuse-by-counterparty"
		}
		if changed {
			r.Violate("swap-untouched", fmt.Sprintf("C09|record-changed|%s|%s|%s", kind, why, c09TypeName[pl.msgType]), det("the persisted record of the swap changed"), nil)
		}
		if !sameObj {
			r.Violate("swap-untouched", fmt.Sprintf("C09|active-swap-replaced-or-moved|%s|%s|%s", kind, why, c09TypeName[pl.msgType]), det("the in-memory swap was replaced, removed or changed state"), nil)
		}
		if isReq {
			gotCancel, gotAgreement := false, false
			for _, m := range replies {
				if m.Peer != sender {
					continue
				}
				switch m.Type {
				case ref.MsgCancel:
					gotCancel = true
				case ref.MsgSwapInAgreement, ref.MsgSwapOutAgreement:
					gotAgreement = true
				}
			}
			if gotAgreement {
				r.Violate("id-reuse-refused", fmt.Sprintf("C09|request-with-known-id-answered-with-agreement|%s", why), det("agreement sent"), nil)
			} else if !gotCancel {
				r.Violate("id-reuse-refused", fmt.Sprintf("C09|request-with-known-id-not-refused-with-cancel|%s", why), det("no cancel sent to the requester"), nil)
			}
		}
	}
	if seed%211 == 0 {
		r.Sample(map[string]any{"class": class, "handler_error": errText, "replies": len(replies)})
	}
	// ---- progress is untouched as well: a delivery that must not count (third party, finished / unknown id,
	// unacceptable in the state) leaves the live swap able to go on exactly as in the same world without it
	// (only for swaps the node already knows at that moment; a counterparty that itself sends a conflicting request
	// with the live id is answered with a cancel carrying that id, which its own node then obeys — not judged)
	if _, liveKnown := before.recs[liveID.String()]; !allowed && pl.continueAfter && liveKnown && !(isReq && !pl.third) {
		finish := func(w *sim.World, a *sim.Node, chain *sim.Chain, window bool, live string) string {
			if window {
				a.Recover()
			}
			w.Run()
			for i := 0; i < 6; i++ {
				chain.Mine(1)
				w.Run()
			}
			st := "absent"
			if rec := a.StoredSwap(live); rec != nil {
				st = string(rec.Current)
			}
			return st
		}
		got := finish(w, a, chain, pl.window, liveID.String())
		tw := c09Twin(seed, pl)
		if tw == nil {
			return
		}
		defer tw.w.Close()
		want := finish(tw.w, tw.a, tw.chain, pl.window, tw.live)
		r.Count("continuations_compared", 1)
		r.Seen(fmt.Sprintf("continuation/%s/%s/final=%s/undisturbed=%s", c09TypeName[pl.msgType], who, got, want))
		if got != want {
			r.Violate("progress-untouched", fmt.Sprintf("C09|live-swap-ends-differently-after-ignored-message|%s|%s|id=%s|%s", c09TypeName[pl.msgType], who, pl.idKind, recov),
				det(fmt.Sprintf("the live swap (state %s at the delivery) ends in %s; in the same world without the delivery it ends in %s", stateOfLive(before, liveID.String()), got, want)), traceOf(w))
		}
	}
}

func stateOfLive(s c09Snap, id string) string {
	if a, ok := s.active[id]; ok {
		return string(a.Current)
	}
	return "?"
}

type c09TwinWorld struct {
	w     *sim.World
	a     *sim.Node
	chain *sim.Chain
	live  string
}

// c09Twin rebuilds the world of runC09 for the same seed and plan up to the point of the adversarial delivery,
// without delivering anything.
func c09Twin(seed int64, pl c09Plan) *c09TwinWorld {
	w := sim.NewWorld(seed)
	a := w.AddNode("alice", sim.DefaultNodeConfig())
	b := w.AddNode("bob", sim.DefaultNodeConfig())
	mal := w.AddPeer("mallory")
	w.LN.OpenChannel("100x1x0", a.ID, b.ID, 5_000_000_000, 5_000_000_000)
	w.LN.OpenChannel("200x1x0", a.ID, b.ID, 5_000_000_000, 5_000_000_000)
	w.LN.OpenChannel("300x1x0", a.ID, mal.ID, 5_000_000_000, 5_000_000_000)
	fail := func() *c09TwinWorld { w.Close(); return nil }
	if a.Start() != nil || b.Start() != nil {
		return fail()
	}
	fsm, err, _ := a.SwapOut(b.ID, "btc", "200x1x0", 250_000, 100000)
	if err != nil || fsm == nil {
		return fail()
	}
	w.Run()
	for i := 0; i < 4; i++ {
		w.BTC.Mine(1)
		w.Run()
	}
	ini, otherID := a, b.ID
	if !pl.aliceInit {
		ini, otherID = b, a.ID
	}
	var sm *swap.SwapStateMachine
	if pl.typ == "out" {
		sm, err, _ = ini.SwapOut(otherID, pl.chain, "100x1x0", 400_000, 100000)
	} else {
		sm, err, _ = ini.SwapIn(otherID, pl.chain, "100x1x0", 400_000, 100000)
	}
	if err != nil || sm == nil {
		return fail()
	}
	chain := w.BTC
	if pl.chain == "lbtc" {
		chain = w.LBTC
	}
	for i := 0; i < pl.steps; i++ {
		if !w.Step() {
			break
		}
	}
	for i := 0; i < pl.blocks; i++ {
		chain.Mine(1)
		for j := 0; j < 2; j++ {
			w.Step()
		}
	}
	if pl.window {
		if a.Restart(sim.StartOpts{NoRecover: true}) != nil {
			return fail()
		}
	}
	return &c09TwinWorld{w: w, a: a, chain: chain, live: sm.SwapId.String()}
}

func TestC09(t *testing.T) {
	r := newRun(t, "C09", "exploration")
	defer r.Finish()
	r.Rule = "one adversarial delivery per history: a real node holding a finished swap and a live swap stopped at a seed-chosen point of an honest run (all four roles, both chains, optionally in the restart window before RecoverSwaps) receives one well-formed message of each of the 7 types from the counterparty or a third party carrying the id of the live / finished / an unknown swap on the same / another / a malformed channel id; oracle compares all persisted records (bytes) and the active-swap identity (same machine object, same state) before and after, and inspects the replies. distinct = (message type, sender, id kind, recovered?, role, state, allowed)"
	r.Assumptions = []string{"acceptability = the message's event is listed in the state-table row of the swap's current state (tables read through the verif export)"}
	var plans []c09Plan
	rng := mrand.New(mrand.NewSource(r.Seed + 9))
	n := r.N(2600, 60000)
	for i := 0; i < n; i++ {
		pl := c09Plan{
			chain: pick(rng, "btc", "lbtc"), typ: pick(rng, "out", "in"), aliceInit: rng.Intn(2) == 0,
			steps: rng.Intn(9), blocks: pick(rng, 0, 0, 1, 3, 4),
			window:  rng.Intn(5) == 0,
			msgType: c09MsgTypes[i%len(c09MsgTypes)],
			third:   rng.Intn(2) == 0,
			idKind:  pick(rng, "live", "live", "live", "finished", "unknown"),
			scidKind: pick(rng, "same", "same", "other", "malformed"),
			malformed: rng.Intn(4) == 0, continueAfter: rng.Intn(3) == 0,
		}
		plans = append(plans, pl)
	}
	parallelDo(len(plans), 12, func(i int) { runC09(r, r.Seed*6007+int64(i)+1, plans[i]) })
	pairs, _ := r.Extra["state_x_message_pairs"].(map[string]int)
	r.Extra["distinct_state_message_pairs"] = len(pairs)
	r.Require(len(pairs) >= 60,fmt.Sprintf("only %d (state, message type) pairs reached", len(pairs)))
}
