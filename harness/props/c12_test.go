package props

import (
	"bytes"
	"encoding/json"
	"fmt"
	"math/big"
	mrand "math/rand"
	"testing"

	"github.com/btcsuite/btcd/btcec/v2"
	"github.com/elementsproject/peerswap/swap"
	"github.com/vulpemventures/go-elements/confidential"
	"github.com/vulpemventures/go-elements/transaction"

	"verifharness/ref"
	"verifharness/sim"
)

func bigU(v uint64) *big.Int { return new(big.Int).SetUint64(v) }
func bigI(v int64) *big.Int  { return big.NewInt(v) }

type c12Case struct {
	chain   string
	role    string // out-initiator | in-initiator
	premium int64  // premium the adversary puts into its agreement
	feeSat  uint64 // fee invoice amount (swap-out)
	limit   int64  // premium limit rate ppm of the honest node
	amount  uint64
	rich    bool // wallet with practically unlimited balance
	feeEst  string
	// extraMsat is added to the claim invoice the scripted maker sends (0 = exactly amount+premium)
	extraMsat uint64
}

// c12WorldDone, if set, is called with every finished C12 world before it is closed.
var c12WorldDone func(w *sim.World, c c12Case)

func runC12(r *Run, seed int64, c c12Case) {
	rng := mrand.New(mrand.NewSource(seed))
	w := sim.NewWorld(seed)
	defer w.Close()
	if c12WorldDone != nil {
		// another monitor wants to look at the finished world (C23 scans the messages of these adversarial histories)
		defer func() { c12WorldDone(w, c) }()
	}
	cfg := sim.DefaultNodeConfig()
	if c.rich {
		cfg.BtcBalance, cfg.LbtcBalance = 1<<63, 1<<63
	}
	switch c.feeEst {
	case "zero":
		cfg.BtcFeePerKw, cfg.LbtcFee = 0, 0
	case "error":
		cfg.BtcFeePerKw = -1
	case "one":
		cfg.BtcFeePerKw, cfg.LbtcFee = 1, 1
	}
	n := w.AddNode("alice", cfg)
	mal := w.AddPeer("mallory")
	scid := "100x1x0"
	chanBal := uint64(5_000_000_000)
	w.LN.OpenChannel(scid, n.ID, mal.ID, chanBal, chanBal)
	if n.Start() != nil {
		r.Inconclusive("start")
		return
	}
	chain := w.BTC
	if c.chain == "lbtc" {
		chain = w.LBTC
	}
	_ = rng
	limitSat := new(big.Int).Quo(new(big.Int).Mul(bigU(c.amount), bigI(c.limit)), bigI(1_000_000))
	key, _ := btcec.NewPrivateKey()
	blind, _ := btcec.NewPrivateKey()
	pub := key.PubKey().SerializeCompressed()
	tag := c.chain + "|" + c.role
	det := func(s string) string { return fmt.Sprintf("%s; case %+v seed %d", s, c, seed) }
	premClass := func() string {
		p := bigI(c.premium)
		switch {
		case p.Cmp(limitSat) > 0:
			return "above-limit"
		case p.Sign() < 0 && new(big.Int).Neg(p).Cmp(bigU(c.amount)) > 0:
			return "below-minus-amount"
		case p.Sign() < 0:
			return "negative"
		default:
			return "within-limit"
		}
	}()
	if c.role == "out-initiator" {
		ownFee := uint64(0)
		if c.chain == "btc" {
			ownFee, _ = n.BtcW.OnChain().GetFee(350)
		} else {
			ownFee = cfg.LbtcFee
		}
		var feePaid, claimPaid *sim.EvPay
		w.Subscribe(func(e *sim.Event) {
			if e.Node != "alice" || e.Kind != "ln.pay.try" {
				return
			}
			p := e.P.(sim.EvPay)
			inv := w.LN.InvoiceLocked(p.Payreq)
			if inv == nil {
				return
			}
			switch p.Op {
			case "fee":
				pp := p
				feePaid = &pp
				feeSat := inv.Msat / 1000
				if bigU(feeSat).Cmp(new(big.Int).Mul(bigU(ownFee), bigI(3))) > 0 {
					r.Violate("fee-bound", "C12|fee-invoice-above-3x-estimate-paid|"+tag, det(fmt.Sprintf("fee invoice %d sat, own estimate %d", feeSat, ownFee)), nil)
				}
				need := new(big.Int).Add(new(big.Int).Mul(bigU(c.amount), bigI(1000)), bigU(inv.Msat))
				if need.Cmp(bigU(chanBal)) > 0 {
					r.Violate("fee-bound", "C12|fee-paid-although-channel-cannot-carry-amount-plus-fee|"+tag, det(fmt.Sprintf("need %s msat, spendable %d", need, chanBal)), nil)
				}
			case "rebalance":
				pp := p
				claimPaid = &pp
				want := new(big.Int).Mul(new(big.Int).Add(bigU(c.amount), bigI(c.premium)), bigI(1000))
				if bigU(inv.Msat).Cmp(want) != 0 {
					r.Violate("claim-amount", "C12|claim-invoice-not-amount-plus-premium|"+tag+"|premium="+premClass, det(fmt.Sprintf("paid %d msat, amount+premium = %s msat", inv.Msat, want)), nil)
				}
				if bigI(c.premium).Cmp(limitSat) > 0 {
					r.Violate("premium-limit", "C12|claim-paid-with-premium-above-limit|"+tag, det(fmt.Sprintf("premium %d, limit %s", c.premium, limitSat)), nil)
				}
			}
		})
		sm, err, _ := n.SwapOut(mal.ID, c.chain, scid, c.amount, c.limit)
		if err != nil || sm == nil {
			r.Seen(tag + "/initiation-refused")
			return
		}
		w.Run()
		req := mal.Take(ref.MsgSwapOutRequest)
		if req == nil {
			return
		}
		var rq swap.SwapOutRequestMessage
		json.Unmarshal(req.Payload, &rq)
		if bigI(rq.PremiumLimit).Cmp(limitSat) != 0 {
			r.Violate("limit-in-request", "C12|request-limit-differs-from-rate|"+tag, det(fmt.Sprintf("acceptable_premium %d, amount*rate/1e6 = %s", rq.PremiumLimit, limitSat)), nil)
		}
		feeInv := w.LN.NewInvoice(mal.ID, c.feeSat*1000, "", sm.SwapId.String(), "fee", 2, 600, 0)
		mal.Send("alice", ref.MsgSwapOutAgreement, &swap.SwapOutAgreementMessage{ProtocolVersion: 7, SwapId: sm.SwapId, Pubkey: hx(pub), Payreq: feeInv.Payreq, Premium: c.premium})
		w.Run()
		// the maker announces an opening tx for the requested amount and an invoice for whatever the
		// taker's own arithmetic makes of amount+premium
		claimSat := uint64(int64(c.amount) + c.premium)
		inv := w.LN.NewInvoice(mal.ID, claimSat*1000+c.extraMsat, "", sm.SwapId.String(), "claim", 1, 3600, map[string]int64{"btc": 503, "lbtc": 29}[c.chain])
		pk := refPk(unhex(rq.Pubkey), pub, unhex(inv.Hash), ref.CSV(c.chain, 7))
		var txHex string
		if c.chain == "btc" {
			txHex, _ = buildBtcTx(1, []outSpec{{Script: pk, Value: c.amount}})
		} else {
			txHex, _, _ = buildLiquidTx(1, []outSpec{{Script: pk, Value: c.amount, BlindPub: blind.PubKey().SerializeCompressed()}})
		}
		ct, err := chain.AddWalletTx(txHex, "mallory", "open")
		if err != nil {
			return
		}
		msg := &swap.OpeningTxBroadcastedMessage{SwapId: sm.SwapId, Payreq: inv.Payreq, TxId: ct.ID}
		if c.chain == "lbtc" {
			msg.BlindingKey = hx(blind.Serialize())
		}
		mal.Send("alice", ref.MsgOpeningTxBroadcast, msg)
		w.Run()
		for i := 0; i < 4; i++ {
			chain.Mine(1)
			w.Run()
		}
		r.Eval()
		r.Seen(fmt.Sprintf("%s/premium=%s/fee=%s/fee-paid=%v/claim-paid=%v", tag, premClass, c12FeeClass(c.feeSat, ownFee), feePaid != nil, claimPaid != nil))
		return
	}
	// ---- swap-in initiator: locks amount+premium on chain, asks for amount over Lightning
	var opened *sim.EvTx
	var claimInv *sim.EvInvoice
	w.Subscribe(func(e *sim.Event) {
		if e.Node != "alice" {
			return
		}
		switch e.Kind {
		case "wallet.open":
			x := e.P.(sim.EvTx)
			if x.Err == "" {
				opened = &x
			}
		case "ln.invoice":
			x := e.P.(sim.EvInvoice)
			if x.Type == 1 {
				claimInv = &x
			}
		}
	})
	sm, err, _ := n.SwapIn(mal.ID, c.chain, scid, c.amount, c.limit)
	if err != nil || sm == nil {
		r.Seen(tag + "/initiation-refused")
		return
	}
	w.Run()
	req := mal.Take(ref.MsgSwapInRequest)
	if req == nil {
		return
	}
	var rq swap.SwapInRequestMessage
	json.Unmarshal(req.Payload, &rq)
	if bigI(rq.PremiumLimit).Cmp(limitSat) != 0 {
		r.Violate("limit-in-request", "C12|request-limit-differs-from-rate|"+tag, det(fmt.Sprintf("acceptable_premium %d, amount*rate/1e6 = %s", rq.PremiumLimit, limitSat)), nil)
	}
	mal.Send("alice", ref.MsgSwapInAgreement, &swap.SwapInAgreementMessage{ProtocolVersion: 7, SwapId: sm.SwapId, Pubkey: hx(pub), Premium: c.premium})
	w.Run()
	r.Eval()
	r.Seen(fmt.Sprintf("%s/premium=%s/rich=%v/opened=%v", tag, premClass, c.rich, opened != nil))
	if opened == nil {
		return
	}
	want := new(big.Int).Add(bigU(c.amount), bigI(c.premium))
	if bigI(c.premium).Cmp(limitSat) > 0 {
		r.Violate("premium-limit", "C12|funds-locked-with-premium-above-limit|"+tag, det(fmt.Sprintf("premium %d, limit %s", c.premium, limitSat)), nil)
	}
	// value of the swap output in the transaction the wallet broadcast
	ct := chain.Tx(opened.TxID)
	var got *big.Int
	if ct != nil {
		for _, o := range ct.Outs {
			if len(o.Script) == 34 && o.Script[0] == 0 && o.Script[1] == 0x20 {
				if c.chain == "btc" {
					got = bigI(o.Value)
				} else if rec := n.StoredSwap(sm.SwapId.String()); rec != nil && rec.Data.OpeningTxBroadcasted != nil {
					if ub, err := confidential.UnblindOutputWithKey(o.Raw.(*transaction.TxOutput), unhex(rec.Data.OpeningTxBroadcasted.BlindingKey)); err == nil {
						got = bigU(ub.Value)
						if !bytes.Equal(ub.Asset, policyAssetID()) {
							r.Violate("asset", "C12|locked-other-asset|"+tag, det(""), nil)
						}
					}
				}
			}
		}
	}
	if got == nil || got.Cmp(want) != 0 {
		r.Violate("locks-exactly", "C12|locked-amount-not-amount-plus-premium|"+tag+"|premium="+premClass, det(fmt.Sprintf("swap output carries %v sat, amount+premium = %s", got, want)), nil)
	}
	if claimInv == nil || claimInv.Msat != c.amount*1000 {
		r.Violate("requests-exactly", "C12|claim-invoice-not-amount|"+tag, det(fmt.Sprintf("invoice %+v", claimInv)), nil)
	}
}

func c12FeeClass(fee, own uint64) string {
	switch {
	case fee == 0:
		return "0"
	case fee <= own:
		return "<=est"
	case fee <= 3*own:
		return "<=3est"
	case fee == 3*own+1:
		return "3est+1"
	}
	return "huge"
}

func TestC12(t *testing.T) {
	r := newRun(t, "C12", "exploration")
	defer r.Finish()
	r.Rule = "a real initiator (swap-out: pays fee and claim invoices; swap-in: funds the opening output and creates the claim invoice) against a scripted responder choosing the premium in {-2^63, -amount-1, -amount, -1, 0, limit, limit+1, 2^63-1, random}, fee invoices in {0, est, 3est, 3est+1, huge}, claim invoices of amount+premium plus {0, 1, 500, 999, 1000} msat, fee estimates {normal, 0, 1, error}, limit rates up to ±10^6 ppm, amounts up to 2^63/1000 sat, wallets with finite and practically unlimited balance; every money-moving crossing is compared with the statement's bounds in math/big. The responder clause (premium charged = rate arithmetic) is checked on every agreement of the C11 workload. distinct = (chain, role, premium class, fee class / wallet, paid / opened)"
	r.Rule += " Responder clause also on a rate table whose twelve (layer, asset, direction) entries all differ: per layer sequence {built-in, stored global (changed, zero, changed again), peer-specific (non-zero, zero, negative, removed)} every (asset, direction) is requested and the agreement premium must be trunc(amount * selected rate / 10^6), the selection made by the harness from what it wrote."
	r.Assumptions = []string{"own opening-fee estimate read from the node's wallet object", "value locked on Liquid read by unblinding with the announced blinding key (go-elements)"}
	rng := mrand.New(mrand.NewSource(r.Seed + 12))
	var cases []c12Case
	n := r.N(500, 12000)
	for i := 0; i < n; i++ {
		amount := pick(rng, uint64(100_000), 250_000, 1_000_000, 4_000_000, 1<<62/1000, 1<<63/1000)
		limit := pick(rng, int64(0), 1, 1000, 10_000, 100_000, 1_000_000, -1000, -1_000_000)
		ls := new(big.Int).Quo(new(big.Int).Mul(bigU(amount), bigI(limit)), bigI(1_000_000)).Int64()
		prem := pick(rng, int64(-1<<63), -int64(amount)-1, -int64(amount), -1, 0, ls, ls+1, ls-1, 1<<63-1, int64(rng.Intn(5000)), -int64(rng.Intn(5000)))
		c := c12Case{chain: pick(rng, "btc", "lbtc"), role: pick(rng, "out-initiator", "in-initiator"), premium: prem, limit: limit, amount: amount,
			rich: rng.Intn(3) == 0, feeEst: pick(rng, "normal", "normal", "normal", "zero", "one", "error")}
		est := uint64(1400)
		if c.chain == "lbtc" {
			est = 300
		}
		c.feeSat = pick(rng, uint64(0), est/2, est, 3*est, 3*est+1, 100*est, 1<<40)
		c.extraMsat = pick(rng, uint64(0), 0, 0, 0, 1, 500, 999, 1000)
		cases = append(cases, c)
	}
	parallelDo(len(cases), 12, func(i int) { runC12(r, r.Seed*7121+int64(i)+1, cases[i]) })
	// responder clause on a slice of the C11 workload
	parallelDo(r.N(30, 600), 8, func(i int) { runC11World(r, r.Seed*911+int64(i)+1, 6) })
	// ... and on a rate table whose twelve entries all differ, with zero rates in front of non-zero ones
	parallelDo(r.N(3, 60), 8, func(i int) { runResponderPremium(r, "C12|responder-premium-differs", r.Seed*433+int64(i)+1) })
	r.Sample(map[string]any{"role": "in-initiator", "amount": 1_000_000, "limit_ppm": 10_000, "agreement_premium": -1_000_001, "expectation": "no funding, or a swap output of exactly amount+premium"})
}
