package props

import (
	"sync/atomic"
	"encoding/json"
	"fmt"
	"math"
	mrand "math/rand"
	"strings"
	"testing"
	"time"

	"github.com/btcsuite/btcd/btcec/v2"
	"github.com/elementsproject/glightning/glightning"
	"github.com/elementsproject/peerswap/clightning"
	"github.com/elementsproject/peerswap/lnd"
	"github.com/elementsproject/peerswap/swap"
	"github.com/elementsproject/peerswap/txwatcher"
	"github.com/lightningnetwork/lnd/lnrpc"
	"go.etcd.io/bbolt"

	"verifharness/ref"
	"verifharness/sim"
)

// lndBlockPadding is lnd's routing.BlockPadding (sender-side final hop padding).
const lndBlockPadding = 3

// builderLimits runs both real route builders for an invoice with final CLTV f and the given total limit and
// returns the HTLC expiry delta each one permits (CLN: hop delay; LND: CltvLimit-1), or errors.
func builderLimits(f int64, maxTotal uint32, payee, scid string, msat uint64) (clnDelay int64, clnErr error, lndLimit int64, lndErr error, route []glightning.RouteHop, lreq *lndReqView) {
	b11 := &glightning.DecodedBolt11{Payee: payee, AmountMsat: glightning.AmountFromMSat(msat), MinFinalCltvExpiry: int(f), PaymentHash: strings.Repeat("ab", 32)}
	route, clnErr = clightning.VerifBuildDirectClaimRoute(b11, scid, maxTotal)
	if clnErr == nil && len(route) > 0 {
		clnDelay = int64(route[len(route)-1].Delay)
	}
	dec := &lnrpc.PayReq{Destination: payee, NumSatoshis: int64(msat / 1000), NumMsat: int64(msat), CltvExpiry: f, PaymentHash: strings.Repeat("ab", 32)}
	ch := &lnrpc.Channel{ChanId: 123456789, RemotePubkey: payee}
	req, err := lnd.VerifBuildDirectClaimPaymentRequest("lnbc-payreq", dec, ch, maxTotal)
	lndErr = err
	if err == nil {
		lndLimit = int64(req.CltvLimit) - 1
		lreq = &lndReqView{Out: req.OutgoingChanIds, MaxParts: req.MaxParts, Payreq: req.PaymentRequest, Amt: req.Amt, AmtMsat: req.AmtMsat, CltvLimit: req.CltvLimit, Dest: req.Dest, FinalCltv: req.FinalCltvDelta}
	}
	return
}

type lndReqView struct {
	Out       []uint64
	MaxParts  uint32
	Payreq    string
	Amt       int64
	AmtMsat   int64
	CltvLimit int32
	Dest      []byte
	FinalCltv int32
}

// ---------------------------------------------------------------------------
// shared scripted-maker scenario with full control over heights

type tlCase struct {
	chain     string
	role      string // out-sender | in-receiver
	cltv      int64  // final CLTV of the claim invoice
	preBlocks int    // blocks mined between negotiation end and announcement
	confEarly int    // opening tx confirmed this many blocks BEFORE the negotiation ended (maker pre-broadcast; swap-out only)
	waitConf  int    // blocks mined between announcement and (first) confirmation delivery... the tx confirms in the first
	lateBlks  int    // extra blocks mined (after the tx has its confirmations) before the confirmation is delivered
	failFirst int    // first n payment attempts fail
	mineRetry int    // blocks mined before every payment attempt
	offset    uint32 // height offset (tips near 2^32)
	restartAt string // "" | before-conf | in-pay
	lieBelow  bool   // backend reports a tip below the anchor at payment time
	lieDelta  int    // ... exactly this many blocks below the anchor (0 = far below)
	heightErrOnRetry int // the first n height lookups after a failed payment attempt return an error
	legacy    bool   // protocol 6 record (Liquid)
	bcastEarly bool  // the maker broadcasts right after the negotiation (after confGap blocks) and announces at start+preBlocks
	confGap    int
}

type tlObs struct {
	attempts   []sim.EvPay
	recovers   int
	anchor     uint32
	anchorSet  bool
	confHeight uint32 // reported (offset) height of the block that confirmed the opening tx
	start      uint32
	paid       bool
	lastHeight uint32 // last height the backend reported to the node on the swap's chain
}

func runTimelock(r *Run, seed int64, c tlCase, onAttempt func(w *sim.World, o *tlObs, p sim.EvPay, inv *sim.Invoice)) *tlObs {
	rng := mrand.New(mrand.NewSource(seed))
	w := sim.NewWorld(seed)
	defer w.Close()
	chain := w.BTC
	if c.chain == "lbtc" {
		chain = w.LBTC
	}
	chain.HeightOffset = c.offset
	node := w.AddNode("alice", sim.DefaultNodeConfig())
	mal := w.AddPeer("mallory")
	scid := "100x1x0"
	w.LN.OpenChannel(scid, node.ID, mal.ID, 5_000_000_000, 5_000_000_000)
	o := &tlObs{}
	if node.Start() != nil {
		return o
	}
	amount := uint64(500_000)
	makerKey, _ := btcec.NewPrivateKey()
	blind, _ := btcec.NewPrivateKey()
	makerPub := makerKey.PubKey().SerializeCompressed()
	failed := 0
	var blocksDue atomic.Int32 // blocks that arrive while the node waits for its next payment attempt
	w.LN.Script = func(payer string, inv *sim.Invoice, n int) sim.Outcome {
		if inv.Type == 1 && failed < c.failFirst {
			failed++
			blocksDue.Store(int32(c.mineRetry))
			return sim.OutFail
		}
		return sim.OutSettle
	}
	lie := false
	announced := false
	confirmed := false
	heightErrLeft := c.heightErrOnRetry
	node.Fault = func(op string) error {
		// the chain backend fails the height lookups that follow a failed payment attempt (the new blocks are
		// there all the same)
		if op == c.chain+".height" && failed > 0 && heightErrLeft > 0 {
			heightErrLeft--
			return fmt.Errorf("injected: chain backend unavailable")
		}
		return nil
	}
	node.OnCrossing = func(k int64, op string) {
		// blocks arrive right before a height lookup of the payment phase, so the node can see them
		if confirmed && op == c.chain+".height" && c.mineRetry > 0 {
			blocksDue.Store(0)
			chain.Mine(c.mineRetry)
			return
		}
		// blocks that arrived during the pause after a failed attempt are there at whatever the node does
		// next (on the unchanged tree that is the height lookup above); nothing is ever mined between a
		// height lookup and the payment that follows it
		if n := blocksDue.Swap(0); n > 0 && confirmed {
			chain.Mine(int(n))
		}
	}
	_ = announced
	w.Subscribe(func(e *sim.Event) {
		if e.Node != "alice" {
			return
		}
		switch e.Kind {
		case "watch.height":
			if x := e.P.(sim.EvWatch); x.Chain == c.chain && x.Err == "" {
				o.lastHeight = x.Height
			}
		case "ln.pay.try":
			p := e.P.(sim.EvPay)
			if p.Op == "rebalance" {
				// p.BtcTip / p.LbtcTip: the chain's tip at this instant; o.lastHeight: what the backend last told
				// the node (equal unless the backend lies or the node did not ask)
				o.attempts = append(o.attempts, p)
				if rec := node.StoredSwapLocked(swapIDOf(w, node)); rec != nil {
					o.anchor, o.anchorSet = rec.Data.StartingBlockHeight, rec.Data.StartingBlockHeightSet
					o.start = rec.Data.StartingBlockHeight
				}
				if onAttempt != nil {
					onAttempt(w, o, p, w.LN.InvoiceLocked(p.Payreq))
				}
			}
		case "ln.pay":
			p := e.P.(sim.EvPay)
			if p.Op == "rebalance" && p.Err == "" {
				o.paid = true
			}
		case "ln.recover":
			o.recovers++
		}
	})
	var id *swap.SwapId
	var takerPub []byte
	var onchainSat, claimMsat uint64
	asset, network := "", ""
	if c.chain == "lbtc" {
		asset = hx(sim.PolicyAsset())
	} else {
		network = sim.BtcParams.Name
	}
	// a maker that pre-broadcasts needs the taker key, which it learns from the swap-out request
	var preTx *sim.ChainTx
	var inv *sim.Invoice
	build := func() (string, []gtOut) {
		pk := refPk(takerPub, makerPub, unhex(inv.Hash), ref.CSV(c.chain, map[bool]uint8{false: 7, true: 6}[c.legacy]))
		if c.chain == "btc" {
			return buildBtcTx(1, []outSpec{{Script: pk, Value: onchainSat}})
		}
		h, g, _ := buildLiquidTx(1, []outSpec{{Script: pk, Value: onchainSat, BlindPub: blind.PubKey().SerializeCompressed()}})
		return h, g
	}
	mkInv := func() {
		exp := uint64(86400)
		if c.chain == "lbtc" {
			exp = 3600
		}
		inv = w.LN.NewInvoice(mal.ID, claimMsat, "", id.String(), "claim", 1, exp, c.cltv)
	}
	if c.role == "out-sender" {
		sm, err, _ := node.SwapOut(mal.ID, c.chain, scid, amount, 100000)
		if err != nil || sm == nil {
			return o
		}
		id = sm.SwapId
		w.Run()
		m := mal.Take(ref.MsgSwapOutRequest)
		if m == nil {
			return o
		}
		var req swap.SwapOutRequestMessage
		json.Unmarshal(m.Payload, &req)
		takerPub = unhex(req.Pubkey)
		onchainSat, claimMsat = amount, (amount+7)*1000
		mkInv()
		if c.confEarly > 0 {
			h, _ := build()
			preTx, _ = chain.AddWalletTx(h, "mallory", "open")
			chain.Mine(c.confEarly)
			w.Run()
		}
		fee := w.LN.NewInvoice(mal.ID, 300_000, "", id.String(), "fee", 2, 600, 0)
		mal.Send("alice", ref.MsgSwapOutAgreement, &swap.SwapOutAgreementMessage{ProtocolVersion: 7, SwapId: id, Pubkey: hx(makerPub), Payreq: fee.Payreq, Premium: 7})
		w.Run()
	} else {
		id = swap.NewSwapId()
		mal.Send("alice", ref.MsgSwapInRequest, &swap.SwapInRequestMessage{ProtocolVersion: 7, SwapId: id, Network: network, Asset: asset, Scid: scid, Amount: amount, Pubkey: hx(makerPub), PremiumLimit: 1_000_000})
		w.Run()
		m := mal.Take(ref.MsgSwapInAgreement)
		if m == nil {
			return o
		}
		var ag swap.SwapInAgreementMessage
		json.Unmarshal(m.Payload, &ag)
		takerPub = unhex(ag.Pubkey)
		onchainSat, claimMsat = uint64(int64(amount)+ag.Premium), amount*1000
		mkInv()
	}
	if c.legacy {
		// turn the persisted record into a protocol-6 swap, as left behind by an older version
		node.Stop()
		patchRecordVersion(node, id.String(), 6)
		node.Start()
		w.Run()
	}
	startReal := chain.Height() // the taker's start height (read when the negotiation ended)
	tx := preTx
	if tx == nil && c.bcastEarly {
		// the maker broadcasts right away (after confGap blocks) but announces late
		if c.confGap > 0 {
			chain.Mine(c.confGap)
		}
		h, _ := build()
		tx, _ = chain.AddWalletTx(h, "mallory", "open")
		chain.Mine(1)
		w.Run()
	}
	for chain.Height() < startReal+uint32(c.preBlocks) {
		chain.Mine(1)
	}
	w.Run()
	if tx == nil {
		h, _ := build()
		var err error
		tx, err = chain.AddWalletTx(h, "mallory", "open")
		if err != nil {
			return o
		}
	}
	if c.restartAt == "before-announce" {
		// the taker is restarted while it waits for the announcement, long after its start
		node.Restart()
		w.Run()
	}
	announced = true
	msg := &swap.OpeningTxBroadcastedMessage{SwapId: id, Payreq: inv.Payreq, TxId: tx.ID}
	if c.chain == "lbtc" {
		msg.BlindingKey = hx(blind.Serialize())
	}
	mal.Send("alice", ref.MsgOpeningTxBroadcast, msg)
	w.Run()
	if c.restartAt == "before-conf" {
		node.Restart()
		w.Run()
	}
	// confirmations: the watcher notification is held back while lateBlks more blocks arrive
	hold := c.lateBlks > 0
	if hold {
		w.Sched = func(w *sim.World, it *sim.QView) sim.Decision {
			if it.Kind == "confirm" && hold {
				return sim.Defer
			}
			return sim.Deliver
		}
	}
	need := int(ref.MinConfs(c.chain))
	confirmed = true
	for i := 0; i < need && chain.Confs(tx.ID) < uint32(need); i++ {
		chain.Mine(1)
		if !hold {
			w.Run()
		}
	}
	if t := chain.Tx(tx.ID); t != nil {
		o.confHeight = t.Height + c.offset
	}
	if hold {
		chain.Mine(c.lateBlks)
		hold = false
	}
	if c.lieBelow {
		lie = true
		if inc := node.Inc(); inc != nil {
			wt := inc.LbtcWat
			if c.chain == "btc" {
				wt = inc.BtcWat
			}
			// the lagging backend is 1, 2 or many blocks behind the committed anchor
			var anchor uint32
			if rec := node.StoredSwap(id.String()); rec != nil && rec.Data.StartingBlockHeightSet {
				anchor = rec.Data.StartingBlockHeight
			}
			wt.HeightOverride = func() (uint32, error) {
				if lie && anchor > 3 && c.lieDelta > 0 {
					return anchor - uint32(c.lieDelta), nil
				}
				if lie {
					return chain.Height() + c.offset - 1 - uint32(c.preBlocks) - uint32(need) - 5, nil
				}
				return chain.Height() + c.offset, nil
			}
		}
	}
	w.Run()
	if c.restartAt == "in-pay" {
		node.Restart()
		w.Run()
	}
	chain.Mine(1)
	w.Run()
	_ = rng
	return o
}

func swapIDOf(w *sim.World, n *sim.Node) string {
	for id := range n.StoredSwaps() {
		return id
	}
	return ""
}

// patchRecordVersion rewrites protocol_version of the request inside a committed record (node must be down).
func patchRecordVersion(n *sim.Node, id string, v int) {
	db, err := bbolt.Open(n.DBPath(), 0o700, &bbolt.Options{NoSync: true, Timeout: 3 * time.Second})
	if err != nil {
		return
	}
	defer db.Close()
	db.Update(func(tx *bbolt.Tx) error {
		b := tx.Bucket([]byte("swaps"))
		k := unhex(id)
		var rec map[string]any
		if json.Unmarshal(b.Get(k), &rec) != nil {
			return nil
		}
		data, _ := rec["data"].(map[string]any)
		for _, f := range []string{"swap_in_request", "swap_out_request", "swap_in_agreement", "swap_out_agreement"} {
			if m, ok := data[f].(map[string]any); ok {
				m["protocol_version"] = v
			}
		}
		delete(data, "opening_block_height_set")
		out, _ := json.Marshal(rec)
		return b.Put(k, out)
	})
}

// ---------------------------------------------------------------------------
// C04

func TestC04(t *testing.T) {
	r := newRun(t, "C04", "exploration")
	defer r.Finish()
	r.Rule = "(i) real Liquid taker state machines (both roles) against a scripted maker with scheduler-controlled Liquid tips: blocks before the announcement, confirmation notification delayed by 0..70 blocks, tip moving between retries (1-40 blocks per attempt), first attempts failing, restart before confirmation / inside the payment, backend reporting a tip below the anchor, heights offset to just below 2^32, invoice final CLTV in 0..40/negative/2^31, and planted protocol-6 records; oracle at every RebalancePayment crossing: committed anchor set, anchor <= tip < anchor+60 (64-bit), invoice CLTV <= 29, maxTotalCLTVDelta == 32; legacy swaps: no RebalancePayment at all. (ii) exhaustive grid over final CLTV in [-2,600] plus extremes × limit {0,32} through both real builders (CLN route, LND request): with limit 32 the permitted HTLC delta is <= 32 (CLN delay = f+1, LND CltvLimit-1). distinct = (role, tip position class, attempt index, cltv class, outcome)"
	r.Assumptions = []string{"tip at an attempt = the height the simulated backend reports at that instant", "LND sender padding BlockPadding=3"}
	// (ii) builder grid
	grid := 0
	var fs []int64
	for f := int64(-2); f <= 600; f++ {
		fs = append(fs, f)
	}
	fs = append(fs, math.MaxInt32-1, math.MaxInt32, math.MaxInt32+1, math.MaxUint32-1, math.MaxUint32, math.MaxUint32+1, math.MinInt64, math.MaxInt64)
	for _, f := range fs {
		for _, lim := range []uint32{0, 32} {
			cd, ce, ll, le, route, lreq := builderLimits(f, lim, strings.Repeat("02", 33), "100x1x0", 1_000_000)
			grid++
			r.Eval()
			cls := func(err error) string {
				if err != nil {
					return "refused"
				}
				return "built"
			}
			fc := "f<=29"
			switch {
			case f < 0:
				fc = "f<0"
			case f > 31:
				fc = "f>31"
			case f > 29:
				fc = "f=30..31"
			}
			r.Seen(fmt.Sprintf("grid/%s/limit=%d/cln=%s/lnd=%s", fc, lim, cls(ce), cls(le)))
			if lim == 32 {
				if ce == nil && (cd > 32 || cd != f+1 || len(route) != 1) {
					r.Violate("route-cltv", "C04|cln-route-delay-above-limit", fmt.Sprintf("final cltv %d, limit 32: hop delay %d, hops %d", f, cd, len(route)), nil)
				}
				if le == nil && (ll > 32 || f+lndBlockPadding > 32 || lreq.MaxParts != 1 || len(lreq.Out) != 1) {
					r.Violate("route-cltv", "C04|lnd-request-cltv-above-limit", fmt.Sprintf("final cltv %d, limit 32: CltvLimit %d, request %+v", f, ll+1, lreq), nil)
				}
				if f >= 0 && f <= 29 && (ce != nil || le != nil) {
					r.Violate("route-cltv", "C04|builder-refuses-acceptable-invoice", fmt.Sprintf("final cltv %d: cln err %v, lnd err %v", f, ce, le), nil)
				}
			}
		}
	}
	r.Extra["builder_grid_points"] = grid
	r.Extra["exhaustive"] = true
	r.Extra["exhaustive_note"] = "builder grid: every final CLTV in [-2,600] plus 8 extreme values × limit {0,32} × both builders"
	// (i) world runs
	var cases []tlCase
	rng := mrand.New(mrand.NewSource(r.Seed + 4))
	n := r.N(260, 6000)
	for i := 0; i < n; i++ {
		c := tlCase{chain: "lbtc", role: pick(rng, "out-sender", "in-receiver"), cltv: pick(rng, int64(29), 29, 29, 29, 29, 29, 29, 29, 29, 29, 29, 29, 0, 1, 28, 30, 31, 32, 40, -1, 1<<31, 1<<32, 1<<32+20, 1<<32+29, 1<<33+5, 1<<40+29),
			preBlocks: pick(rng, 0, 0, 0, 1, 10, 30, 50, 55, 56, 57, 58, 59, 60, 61, 70), lateBlks: pick(rng, 0, 0, 0, 0, 0, 1, 10, 40, 57, 58, 59, 60, 70),
			failFirst: pick(rng, 0, 0, 1, 3, 8), mineRetry: pick(rng, 0, 0, 0, 1, 1, 5, 20, 40),
			restartAt: pick(rng, "", "", "", "before-conf", "in-pay", "before-announce"), lieBelow: rng.Intn(6) == 0, lieDelta: pick(rng, 0, 1, 1, 2, 3)}
		if c.failFirst > 0 && rng.Intn(3) == 0 {
			c.heightErrOnRetry = pick(rng, 1, 1, 2, 5)
		}
		if rng.Intn(4) == 0 {
			// heights just below 2^32: start of the chain is 1000, leave room for the blocks of the case
			room := uint32(c.preBlocks + c.lateBlks + 64 + c.failFirst*c.mineRetry + c.mineRetry)
			c.offset = math.MaxUint32 - 1000 - room - uint32(rng.Intn(3))
			if rng.Intn(2) == 0 {
				c.offset = math.MaxUint32 - 1000 - uint32(pick(rng, 0, 1, 30, 59, 60, 61)) - uint32(c.preBlocks)
				c.lateBlks, c.mineRetry, c.failFirst = 0, 0, 0
				if int(c.offset)+1000+c.preBlocks+4 < 0 {
					c.offset -= 8
				}
			}
		}
		if rng.Intn(12) == 0 {
			c.legacy = true
			c.cltv = 29
		}
		cases = append(cases, c)
	}
	parallelDo(len(cases), 12, func(i int) {
		c := cases[i]
		seed := r.Seed*4423 + int64(i) + 1
		// keep the chain below 2^32 for offset cases: total blocks mined must fit
		if c.offset != 0 {
			total := uint64(c.offset) + 1000 + uint64(c.preBlocks+c.lateBlks+8+(c.failFirst+1)*c.mineRetry)
			if total > math.MaxUint32 {
				c.offset -= uint32(total - math.MaxUint32)
			}
		}
		o := runTimelock(r, seed, c, func(w *sim.World, o *tlObs, p sim.EvPay, inv *sim.Invoice) {
			det := fmt.Sprintf("attempt %d at real tip %d (last tip reported to the node %d), anchor(set=%v) %d, invoice cltv %d, maxTotalCLTVDelta %d; case %+v seed %d", len(o.attempts), p.LbtcTip, o.lastHeight, o.anchorSet, o.anchor, c.cltv, p.MaxCLTV, c, seed)
			if c.legacy {
				r.Violate("legacy-no-new-payment", "C04|legacy-swap-created-claim-payment", det, nil)
				return
			}
			if !o.anchorSet {
				r.Violate("anchored-window", "C04|payment-without-anchor", det, nil)
			}
			// lower bound: judged on what the backend told the node (a lagging backend must stop the payment);
			// upper bound: judged on the later of reported and real tip (blocks that arrived while the node
			// paused between two attempts count)
			reported, a := uint64(o.lastHeight), uint64(o.anchor)
			tip := max(reported, uint64(p.LbtcTip))
			if c.lieBelow {
				tip = reported
			}
			pos := "inside"
			switch {
			case reported < a:
				pos = "below-anchor"
			case tip >= a+60:
				pos = "at-or-after-deadline"
			case tip == a+59:
				pos = "last-block"
			}
			r.Seen(fmt.Sprintf("world/%s/tip=%s/attempt=%d/cltv=%d/offset=%v", c.role, pos, min(len(o.attempts), 4), c.cltv, c.offset != 0))
			if pos == "below-anchor" || pos == "at-or-after-deadline" {
				r.Violate("anchored-window", fmt.Sprintf("C04|payment-attempt-outside-window|%s|attempt=%s", pos, map[bool]string{true: "first", false: "retry"}[len(o.attempts) == 1]), det, nil)
			}
			if inv != nil && (inv.Cltv < 0 || inv.Cltv > 29) {
				r.Violate("invoice-cltv", "C04|paid-invoice-with-cltv-above-29", det, nil)
			}
			if p.MaxCLTV != 32 {
				r.Violate("route-cltv", fmt.Sprintf("C04|max-total-cltv-delta=%d", p.MaxCLTV), det, nil)
			}
		})
		r.Eval()
		if c.legacy {
			r.Seen(fmt.Sprintf("world/legacy/%s/attempts=%d/recover-calls=%d", c.role, len(o.attempts), min(o.recovers, 2)))
			r.Count("legacy_histories", 1)
		}
		if len(o.attempts) > 0 {
			r.Count("histories_with_payment_attempts", 1)
		} else {
			r.Count("histories_without_payment", 1)
		}
		r.Count("payment_attempts_judged", len(o.attempts))
	})
	pa, _ := r.Extra["payment_attempts_judged"].(int)
	np, _ := r.Extra["histories_without_payment"].(int)
	r.Sample(map[string]any{"case": "in-receiver, 58 blocks before the announcement, first 3 attempts fail, 1 block mined per attempt", "expectation": "attempts at anchor+58, +59 only; none at +60"})
	r.Require(pa >= n/5 && np >= n/10, fmt.Sprintf("%d attempts judged, %d histories without payment", pa, np))
}

// ---------------------------------------------------------------------------
// C05

func TestC05(t *testing.T) {
	r := newRun(t, "C05", "exploration")
	defer r.Finish()
	r.Rule = "real Bitcoin taker state machines (both roles) against a scripted maker with scheduler-controlled heights: the maker pre-broadcasts the opening tx 0..3 blocks before the taker's start (swap-out), 0..510 blocks pass before the announcement, the confirmation notification is delayed, blocks arrive while the node pauses between payment attempts, restarts (before the announcement, before the confirmation, inside the payment), invoice final CLTV in {0,9,144,500..506}; oracle at every RebalancePayment crossing with exact integers: now + permitted(f) < h_conf + 1008 with now = the later of the chain's tip and the last tip reported to the node, where permitted(f) is read from the request the real builder produces for that invoice (CLN hop delay f+1; LND CltvLimit-1 = f+BlockPadding). distinct = (role, backend, now-start class, cltv, h_conf-start class, verdict)"
	r.Rule += " In addition whole-node swap-out takers with the REAL rpc watcher (CLN) and the REAL lnd watcher over a fake chain notifier: the maker broadcasts as soon as it has the taker's key and delays the taker's start by 1..1100 blocks (held fee payment), announces 0..504 blocks later; failing first payments with blocks in between, restarts, lnd's GetInfo failing once after the confirmation event. Same oracle; findings are classified by formula (slack <= route delta - (h_conf-start); lnd first attempt: slack <= 1)."
	r.Assumptions = []string{"now = height reported by the backend at the attempt; h_conf = height of the block that confirmed the opening tx in ground truth", "a payment can still be settled until its HTLC expiry = now + total CLTV delta the request permits"}
	var cases []tlCase
	rng := mrand.New(mrand.NewSource(r.Seed + 5))
	n := r.N(300, 8000)
	for i := 0; i < n; i++ {
		c := tlCase{chain: "btc", role: pick(rng, "out-sender", "in-receiver"), cltv: pick(rng, int64(503), 503, 0, 9, 144, 500, 502, 504, 505, 506),
			preBlocks: pick(rng, 0, 0, 1, 100, 400, 495, 499, 500, 501, 502, 503, 504, 505, 510), lateBlks: pick(rng, 0, 0, 0, 1, 3, 100, 400, 499, 500, 501, 502, 503),
			failFirst: pick(rng, 0, 0, 1, 3), mineRetry: pick(rng, 0, 0, 1, 100, 250),
			restartAt: pick(rng, "", "", "", "before-conf", "in-pay", "before-announce")}
		if c.failFirst > 0 && rng.Intn(3) == 0 {
			c.heightErrOnRetry = pick(rng, 1, 1, 2, 5)
		}
		if c.role == "out-sender" {
			c.confEarly = pick(rng, 0, 0, 1, 2, 3)
			if c.confEarly > 0 {
				c.preBlocks = pick(rng, 0, 100, 400, 498, 499, 500, 501, 502, 503, 504)
			}
		}
		cases = append(cases, c)
	}
	// systematic corner grid (identical for every seed): the maker confirms its opening tx as early as it can
	// (h_conf - start in -2..+3) and announces late, so that the payment happens at start+(499..506) with an
	// invoice CLTV of 499..505
	for _, role := range []string{"out-sender", "in-receiver"} {
		for rel := -2; rel <= 3; rel++ {
			if role == "in-receiver" && rel < 1 {
				continue // the maker learns the taker key only with the agreement, i.e. at the taker's start
			}
			for ann := 499; ann <= 506; ann++ {
				for _, f := range []int64{499, 502, 503, 504, 505} {
					c := tlCase{chain: "btc", role: role, cltv: f, preBlocks: ann}
					if rel < 1 {
						c.confEarly = 1 - rel
					} else {
						c.bcastEarly, c.confGap = true, rel-1
					}
					cases = append(cases, c)
				}
			}
		}
	}
	// restarts while waiting for the announcement: the maker has confirmed its opening tx right after the
	// negotiation, announces 300..700 blocks later, and the taker is restarted just before that
	for _, role := range []string{"out-sender", "in-receiver"} {
		for _, ann := range []int{300, 503, 505, 506, 510, 700} {
			for _, f := range []int64{144, 503, 504} {
				c := tlCase{chain: "btc", role: role, cltv: f, preBlocks: ann, restartAt: "before-announce", bcastEarly: true}
				cases = append(cases, c)
				if role == "out-sender" {
					c.bcastEarly, c.confEarly = false, 1
					cases = append(cases, c)
				}
			}
		}
	}
	parallelDo(len(cases), 12, func(i int) {
		c := cases[i]
		seed := r.Seed*5519 + int64(i) + 1
		var conf func() uint32
		o := runTimelock(r, seed, c, func(w *sim.World, o *tlObs, p sim.EvPay, inv *sim.Invoice) {
			if inv == nil {
				return
			}
			now := max(int64(p.BtcTip), int64(o.lastHeight)) // the later of the real tip and the last tip the node was told
			hc := int64(0)
			// confirmation height from ground truth
			for _, tx := range w.BTC.TxsByLocked("mallory", "open") {
				if tx.Height != 0 {
					hc = int64(tx.Height)
				}
			}
			_ = conf
			cd, ce, ll, le, _, _ := builderLimits(inv.Cltv, p.MaxCLTV, inv.Payee, p.Scid, inv.Msat)
			for _, be := range []struct {
				name string
				perm int64
				err  error
			}{{"cln", cd, ce}, {"lnd", ll, le}} {
				if be.err != nil {
					continue
				}
				ok := now+be.perm < hc+1008
				dc := "conf-after-start"
				if hc <= int64(o.start) {
					dc = "conf-at-or-before-start"
				} else if hc == int64(o.start)+1 {
					dc = "conf=start+1"
				}
				r.Seen(fmt.Sprintf("%s/%s/now-start=%s/cltv=%d/%s/safe=%v", c.role, be.name, c05Band(now-int64(o.start)), inv.Cltv, dc, ok))
				if !ok {
					// slack = how many blocks the HTLC can outlive the first block in which the refund confirms
					slack := now + be.perm - (hc + 1008)
					// The unchanged tree pays while now-start <= 504 and accepts a final CLTV <= 504; with the
					// route's own delta (CLN +1, LND +3) the slack for a confirmation at start+rel is therefore
					// at most bound = (1|3) - rel. A larger slack is a different defect and gets its own signature.
					rel := hc - int64(o.start)
					bound := map[string]int64{"cln": 1, "lnd": 3}[be.name] - rel
					sl := fmt.Sprintf("slack<=%d", bound)
					if slack > bound {
						sl = fmt.Sprintf("slack=%d>bound=%d", slack, bound)
					}
					r.CountIn("c05_slack_histogram", fmt.Sprintf("%s/rel=%d/slack=%d", be.name, rel, slack))
					r.Violate("htlc-before-csv", fmt.Sprintf("C05|htlc-can-outlive-csv|%s|%s|h_conf-start=%d|%s", be.name, c.role, rel, sl),
						fmt.Sprintf("payment at height %d (start %d, now-start %d), invoice final cltv %d, %s permits an HTLC expiry delta of %d => settleable until %d; opening tx confirmed at %d => CSV refund confirmable from %d; case %+v seed %d",
							now, o.start, now-int64(o.start), inv.Cltv, be.name, be.perm, now+be.perm, hc, hc+1008, c, seed), nil)
				}
			}
		})
		r.Eval()
		r.Count("payment_attempts_judged", len(o.attempts))
		if len(o.attempts) == 0 {
			r.Count("histories_without_payment", 1)
		}
	})
	// the same judgement with the real confirmation watchers in the loop (rpc and lnd), for opening transactions that
	// confirmed long before the taker's start
	txwatcher.VerifSetPolling(time.Millisecond, time.Millisecond)
	rc := c05RealCases(r)
	parallelDo(len(rc), 8, func(i int) { runC05Real(r, r.Seed*7529+int64(i)+1, rc[i]) })
	rh, _ := r.Extra["real_watcher_histories"].(int)
	r.Require(rh >= len(rc)*3/4, fmt.Sprintf("only %d of %d real-watcher histories completed", rh, len(rc)))
	pa, _ := r.Extra["payment_attempts_judged"].(int)
	r.Sample(map[string]any{"case": "out-sender, maker pre-broadcast 1 block before the taker's start, 504 blocks until the announcement, invoice cltv 504", "check": "now + (f+1 | f+3) < h_conf + 1008"})
	r.Require(pa >= n/3, fmt.Sprintf("only %d payment attempts judged", pa))
}

func c05Band(d int64) string {
	switch {
	case d < 400:
		return "<400"
	case d < 495:
		return "400..494"
	case d <= 505:
		return fmt.Sprintf("%d", d)
	}
	return ">505"
}

func c05Cltv(f int64) string {
	if f >= 495 {
		return fmt.Sprintf("%d", f)
	}
	return "<495"
}

// ---------------------------------------------------------------------------
// C24

func TestC24(t *testing.T) {
	r := newRun(t, "C24", "exploration")
	defer r.Finish()
	r.Rule = "grid + random sweep of both real payment builders (CLN buildDirectClaimRoute, LND buildDirectClaimPaymentRequest, through the verif exports): invoice destination = channel peer / third party / self, amounts 1 msat..2^63, final CLTV -1..2^32, channel ids in both spellings and malformed, limits {0,32}; oracle: CLN route has exactly one hop over the swap channel (x spelling) to the invoice payee for the invoice amount; LND request names exactly the swap channel, MaxParts 1, the invoice itself and no amount override, and is refused when the invoice destination is not the channel's remote peer. In addition every fee/claim payment crossing of the world runs (C01 workload) must name the swap's channel. distinct = (backend, destination class, scid spelling, cltv class, limit, outcome)"
	r.Rule += " The channel the real lnd client resolves the swap's channel id to (CheckChannel over a fake ListChannels: own channel present / missing / short of funds, other channels of the same peer and of third parties around it, both spellings) must be the swap's own channel or an error."
	r.Assumptions = []string{"the real CLN/LND RPC calls (sendpay, SendPaymentV2) are not executed: what is checked is the route / request object the real builders hand to them", "CLN: 'to the channel's peer' is enforced by lightningd for a one-hop route over that channel"}
	// which channel the real lnd client resolves the swap's channel id to (what OutgoingChanIds is filled from)
	c24ChannelLookup(r, mrand.New(mrand.NewSource(r.Seed+2400)), r.N(3000, 100000))
	rng := mrand.New(mrand.NewSource(r.Seed + 24))
	peer := "02" + strings.Repeat("11", 32)
	third := "03" + strings.Repeat("22", 32)
	n := r.N(12000, 400000)
	for i := 0; i < n; i++ {
		dest := pick(rng, peer, peer, third, "", "zz")
		msat := pick(rng, uint64(1), 999, 1000, 1_000_000, 123_456_789, 1<<62, 1<<63, uint64(rng.Int63()))
		f := pick(rng, int64(-1), 0, 1, 9, 29, 30, 144, 503, 504, 1<<31, 1<<32, int64(rng.Intn(700)))
		scid := pick(rng, "100x1x0", "100:1:0", "539268x845x1", "539268:845:1", "", "1x2", "axbxc")
		lim := pick(rng, uint32(0), 32)
		r.Eval()
		// CLN
		b11 := &glightning.DecodedBolt11{Payee: dest, AmountMsat: glightning.AmountFromMSat(msat), MinFinalCltvExpiry: int(f), PaymentHash: strings.Repeat("cd", 32)}
		route, cerr := clightning.VerifBuildDirectClaimRoute(b11, scid, lim)
		destClass := map[string]string{peer: "peer", third: "third-party", "": "empty", "zz": "junk"}[dest]
		sp := "x"
		if strings.Contains(scid, ":") {
			sp = "colon"
		}
		r.Seen(fmt.Sprintf("cln/dest=%s/scid=%s/limit=%d/built=%v", destClass, sp, lim, cerr == nil))
		if cerr == nil {
			det := fmt.Sprintf("invoice{payee %s msat %d cltv %d} scid %q limit %d -> route %+v", dest, msat, f, scid, lim, route)
			switch {
			case len(route) != 1:
				r.Violate("single-htlc", "C24|cln-route-hops!=1", det, nil)
			case route[0].ShortChannelId != strings.ReplaceAll(scid, ":", "x"):
				r.Violate("swap-channel", "C24|cln-route-other-channel", det, nil)
			case route[0].Id != dest:
				r.Violate("to-peer", "C24|cln-route-other-node", det, nil)
			case route[0].AmountMsat.MSat() != msat:
				r.Violate("exact-amount", "C24|cln-route-other-amount", det, nil)
			}
		}
		// LND
		dec := &lnrpc.PayReq{Destination: dest, NumSatoshis: int64(msat / 1000), NumMsat: int64(msat), CltvExpiry: f, PaymentHash: strings.Repeat("cd", 32)}
		chanID := uint64(100<<40 | 1<<16 | 0)
		ch := &lnrpc.Channel{ChanId: chanID, RemotePubkey: peer}
		req, lerr := lnd.VerifBuildDirectClaimPaymentRequest("lnbc1-the-invoice", dec, ch, lim)
		r.Seen(fmt.Sprintf("lnd/dest=%s/limit=%d/built=%v", destClass, lim, lerr == nil))
		if lerr == nil {
			det := fmt.Sprintf("invoice{dest %s msat %d cltv %d} channel{%d remote %s} limit %d -> request %+v", dest, msat, f, chanID, peer, lim, req)
			switch {
			case dest != peer:
				r.Violate("to-peer", "C24|lnd-request-built-for-foreign-destination", det, nil)
			case len(req.OutgoingChanIds) != 1 || req.OutgoingChanIds[0] != chanID || req.OutgoingChanId != 0:
				r.Violate("swap-channel", "C24|lnd-request-channel-restriction", det, nil)
			case req.MaxParts != 1:
				r.Violate("single-htlc", "C24|lnd-request-maxparts", det, nil)
			case req.PaymentRequest != "lnbc1-the-invoice" || req.Amt != 0 || req.AmtMsat != 0 || len(req.Dest) != 0 || len(req.PaymentHash) != 0:
				r.Violate("exact-amount", "C24|lnd-request-overrides-invoice", det, nil)
			case len(req.RouteHints) != 0 || req.AllowSelfPayment:
				r.Violate("single-htlc", "C24|lnd-request-extra-routing", det, nil)
			}
		}
	}
	// world crossings: every payment names the swap channel
	parallelDo(r.N(40, 400), 12, func(i int) {
		ct := allChainTypes[i%4]
		p := newPair(r.Seed*881+int64(i)+1, pairOpts{chain: ct.chain, typ: ct.typ, scidLocal: pick(mrand.New(mrand.NewSource(int64(i))), "100x1x0", "100:1:0")})
		p.w.Subscribe(func(e *sim.Event) {
			if e.Kind != "ln.pay.try" {
				return
			}
			x := e.P.(sim.EvPay)
			if x.Op == "fee" || x.Op == "rebalance" {
				r.Count("world_payment_crossings", 1)
				if sim.NormScid(x.Scid) != sim.NormScid(p.scid) {
					r.Violate("swap-channel", "C24|payment-over-other-channel|"+x.Op, fmt.Sprintf("swap channel %s, payment channel %s", p.scid, x.Scid), nil)
				}
			}
			if x.Op == "pay" {
				r.Violate("swap-channel", "C24|unrestricted-payment-used", fmt.Sprintf("%+v", x), nil)
			}
		})
		p.happy()
		r.Eval()
		p.w.Close()
	})
	r.Sample(map[string]any{"invoice": "payee=third party, 1e6 msat, cltv 29", "scid": "100:1:0", "limit": 32, "expectation": "LND builder refuses; CLN route = 1 hop over 100x1x0"})
}
