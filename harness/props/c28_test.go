package props

import (
	"context"
	"encoding/json"
	"errors"
	"fmt"
	"io"
	"log"
	mrand "math/rand"
	"os"
	"path/filepath"
	"sort"
	"strings"
	"sync"
	"testing"
	"time"

	"github.com/elementsproject/peerswap/messages"
	"github.com/elementsproject/peerswap/peersync"
	"github.com/elementsproject/peerswap/policy"
	"github.com/elementsproject/peerswap/premium"
	"github.com/elementsproject/peerswap/swap"
)

// ---------------------------------------------------------------------------
// C28  Peer-sync keeps an accurate, persistent view of peers
// ---------------------------------------------------------------------------

var c28Peers = []string{
	"02a1000000000000000000000000000000000000000000000000000000000000a1",
	"02b2000000000000000000000000000000000000000000000000000000000000b2",
	"03c3000000000000000000000000000000000000000000000000000000000000c3",
	"03d4000000000000000000000000000000000000000000000000000000000000d4",
}

func c28Name(id string) string {
	for i, p := range c28Peers {
		if p == id {
			return fmt.Sprintf("P%d", i)
		}
	}
	return id
}

// c28View is the observable content of a capability.
type c28View struct {
	Version uint64
	Assets  string // comma separated, order preserved
	Allowed bool
	Rates   [4]int64 // btc in, btc out, lbtc in, lbtc out
}

func (v c28View) String() string {
	return fmt.Sprintf("{v%d [%s] allowed=%v rates=%v}", v.Version, v.Assets, v.Allowed, v.Rates)
}

func c28ViewOf(c *peersync.PeerCapability) c28View {
	if c == nil {
		return c28View{}
	}
	return c28View{
		Version: c.Version().Value(),
		Assets:  strings.Join(c.SupportedAssetStrings(), ","),
		Allowed: c.IsAllowed(),
		Rates: [4]int64{
			c.PremiumRateValue(premium.BTC, premium.SwapIn), c.PremiumRateValue(premium.BTC, premium.SwapOut),
			c.PremiumRateValue(premium.LBTC, premium.SwapIn), c.PremiumRateValue(premium.LBTC, premium.SwapOut),
		},
	}
}

// c28Obs is what the exported Store API shows for one peer.
type c28Obs struct {
	exists   bool
	hasCap   bool
	view     c28View
	id       string
	address  string
	status   peersync.PeerStatus
	lastPoll time.Time
	lastSeen time.Time
	capSeen  time.Time
}

func c28ObsOf(p *peersync.Peer) c28Obs {
	o := c28Obs{exists: true, id: p.ID().String(), address: p.Address(), status: p.Status(), lastPoll: p.LastPollAt(), lastSeen: p.LastObservedAt()}
	if c := p.Capability(); c != nil {
		o.hasCap = true
		o.view = c28ViewOf(c)
		o.capSeen = c.ObservedAt()
	}
	return o
}

// diff lists the fields in which two observations differ (a capability whose every field is
// zero is the same as no capability: the record format cannot tell them apart).
func (o c28Obs) diff(p c28Obs) []string {
	var d []string
	if o.exists != p.exists {
		return []string{"existence"}
	}
	if o.id != p.id {
		d = append(d, "id")
	}
	if o.address != p.address {
		d = append(d, "address")
	}
	if o.status != p.status {
		d = append(d, "status")
	}
	if !o.lastPoll.Equal(p.lastPoll) {
		d = append(d, "last-poll-at")
	}
	if !o.lastSeen.Equal(p.lastSeen) {
		d = append(d, "last-seen")
	}
	if o.view != p.view {
		d = append(d, "capability")
	}
	return d
}

type c28LN struct {
	mu        sync.Mutex
	connected map[string]bool
	listErr   bool
	onSend    func(to string, typ messages.MessageType, payload []byte)
	ch        chan peersync.CustomMessage
}

func (l *c28LN) SendCustomMessage(ctx context.Context, to peersync.PeerID, typ messages.MessageType, payload []byte) error {
	l.mu.Lock()
	f := l.onSend
	l.mu.Unlock()
	if f != nil {
		f(to.String(), typ, payload)
	}
	return nil
}
func (l *c28LN) SubscribeCustomMessages(ctx context.Context) (<-chan peersync.CustomMessage, error) {
	return l.ch, nil
}
func (l *c28LN) Stop() error { return nil }
func (l *c28LN) ListPeers(ctx context.Context) ([]peersync.PeerID, error) {
	l.mu.Lock()
	defer l.mu.Unlock()
	if l.listErr {
		return nil, errors.New("rpc unavailable")
	}
	var ids []string
	for p, on := range l.connected {
		if on {
			ids = append(ids, p)
		}
	}
	sort.Strings(ids)
	out := make([]peersync.PeerID, 0, len(ids))
	for _, p := range ids {
		id, _ := peersync.NewPeerID(p)
		out = append(out, id)
	}
	return out, nil
}

// c28Payload is one generated poll / request_poll payload.
type c28Payload struct {
	kind string // valid | badjson | rate-out-of-range | unknown-asset
	raw  []byte
	view c28View  // content as advertised (valid and the two doubtful kinds)
	alt  *c28View // unknown-asset: content with the unknown assets dropped
}

func c28GenPayload(rng *mrand.Rand, preferVersion int64) c28Payload {
	versions := []uint64{0, 6, 7, 7, 7, 8}
	v := versions[rng.Intn(len(versions))]
	if preferVersion >= 0 && rng.Intn(2) == 0 {
		v = uint64(preferVersion)
	}
	assetSets := [][]string{{"BTC", "LBTC"}, {"LBTC", "BTC"}, {"BTC"}, {"LBTC"}, {}}
	assets := assetSets[rng.Intn(len(assetSets))]
	rate := func() int64 {
		switch rng.Intn(5) {
		case 0:
			return 0
		case 1:
			return []int64{1, -1, 1_000_000, -1_000_000, 2000, 1000}[rng.Intn(6)]
		default:
			return int64(rng.Intn(2_000_001)) - 1_000_000
		}
	}
	pl := c28Payload{kind: "valid"}
	pl.view = c28View{Version: v, Assets: strings.Join(assets, ","), Allowed: rng.Intn(3) > 0, Rates: [4]int64{rate(), rate(), rate(), rate()}}
	if rng.Intn(12) == 0 { // everything zero except perhaps the version
		pl.view = c28View{Version: v}
		assets = nil
	}
	x := rng.Intn(100)
	switch {
	case x < 8:
		pl.kind = "badjson"
		pl.raw = [][]byte{[]byte(`{"version":7,`), []byte(`not json`), []byte(`[]`), []byte(`{"version":"7"}`), {}, []byte(`{"assets":"BTC"}`), []byte(`7`)}[rng.Intn(7)]
		return pl
	case x < 16:
		pl.kind = "rate-out-of-range"
		bad := []int64{1_000_001, -1_000_001, 5_000_000, -1 << 40, 1 << 62}[rng.Intn(5)]
		pl.view.Rates[rng.Intn(4)] = bad
	case x < 24:
		pl.kind = "unknown-asset"
		alt := pl.view
		pl.alt = &alt
		extra := []string{"FUTURECOIN", "XMR", "", "BTC2"}[rng.Intn(4)]
		if rng.Intn(2) == 0 {
			assets = append([]string{extra}, assets...)
		} else {
			assets = append(append([]string{}, assets...), extra)
		}
		pl.view.Assets = strings.Join(assets, ",")
	}
	m := map[string]any{}
	put := func(k string, val any, zero bool) {
		if !zero || rng.Intn(2) == 0 { // zero values are sometimes written out, sometimes omitted
			m[k] = val
		}
	}
	put("version", pl.view.Version, pl.view.Version == 0)
	put("assets", assets, len(assets) == 0)
	put("peer_allowed", pl.view.Allowed, !pl.view.Allowed)
	put("btc_swap_in_premium_rate_ppm", pl.view.Rates[0], pl.view.Rates[0] == 0)
	put("btc_swap_out_premium_rate_ppm", pl.view.Rates[1], pl.view.Rates[1] == 0)
	put("lbtc_swap_in_premium_rate_ppm", pl.view.Rates[2], pl.view.Rates[2] == 0)
	put("lbtc_swap_out_premium_rate_ppm", pl.view.Rates[3], pl.view.Rates[3] == 0)
	if rng.Intn(6) == 0 {
		m["some_future_field"] = "x"
	}
	pl.raw, _ = json.Marshal(m)
	return pl
}

type c28Seq struct {
	r    *Run
	rng  *mrand.Rand
	path string
	ver  uint64

	ln      *c28LN
	store   *peersync.Store
	ps      *peersync.PeerSync
	cancel  context.CancelFunc
	started time.Time
	running bool
	timeout time.Duration

	// reference model
	rec       map[string]bool
	cap       map[string]c28View
	connected map[string]bool
	reqCount  map[string]int
	reqFirst  map[string]string

	hist   []string
	src    string // which step is sending
	forced bool

	sendMu       sync.Mutex
	inflight     func() // delivered at the next outgoing message
	polls, sends int
	dead         bool
}

func (q *c28Seq) log(f string, a ...any) { q.hist = append(q.hist, fmt.Sprintf(f, a...)) }
func (q *c28Seq) tail() string {
	h := q.hist
	if len(h) > 14 {
		h = h[len(h)-14:]
	}
	return strings.Join(h, " ; ")
}

func (q *c28Seq) open(start bool) bool {
	st, err := peersync.NewStore(q.path)
	if err != nil {
		q.r.Violate("reload", "C28|reload|store-open-fails", fmt.Sprintf("%v; history: %s", err, q.tail()), nil)
		q.dead = true
		return false
	}
	q.store = st
	nodeID, _ := peersync.NewPeerID("02ee0000000000000000000000000000000000000000000000000000000000ee")
	q.ps = peersync.NewPeerSync(nodeID, st, q.ln, policy.DefaultPolicy(), []string{"btc", "lbtc"}, nil)
	q.timeout = q.ps.VerifCleanupTimeout()
	// a new instance has no memory of earlier requests: the "run" of the statement starts here
	q.reqCount = map[string]int{}
	q.reqFirst = map[string]string{}
	q.running = false
	q.cancel = func() {}
	if start {
		ctx, cancel := context.WithCancel(context.Background())
		q.cancel = cancel
		q.src, q.forced = "initial-sync", false
		q.started = time.Now()
		q.running = true
		if err := q.ps.Start(ctx); err != nil {
			q.r.Violate("start", "C28|start-fails", err.Error(), nil)
		}
		q.src = ""
	}
	return true
}

func (q *c28Seq) close() {
	if q.running && time.Since(q.started) > 8*time.Second {
		q.r.Inconclusive("a started PeerSync instance lived longer than 8 s; its 10 s poll ticker may have interfered")
	}
	q.cancel()
	if q.store != nil {
		if err := q.store.Close(); err != nil {
			q.r.Violate("reload", "C28|reload|store-close-fails", err.Error(), nil)
		}
		q.store = nil
	}
}

// onSend is called for every message the real code hands to the Lightning port.
func (q *c28Seq) onSend(to string, typ messages.MessageType, payload []byte) {
	q.sendMu.Lock() // Start's initial sync sends from several goroutines
	q.account(to, typ)
	f := q.inflight
	q.inflight = nil
	q.sendMu.Unlock()
	if f != nil {
		f()
	}
}

func (q *c28Seq) account(to string, typ messages.MessageType) {
	q.sends++
	if typ == messages.MESSAGETYPE_REQUEST_POLL && !q.forced && q.src != "RequestPoll-api" && !q.rec[to] && q.connected[to] {
		q.reqCount[to]++
		if q.reqCount[to] == 1 {
			q.reqFirst[to] = q.src
			q.r.Seen("request_poll/unknown-connected/first/by=" + q.src)
		} else {
			q.r.Seen("request_poll/unknown-connected/again/by=" + q.src)
			q.r.Violate("request-once", fmt.Sprintf("C28|request_poll|unknown-connected-peer-requested-again-without-disconnect|first-by=%s|again-by=%s", q.reqFirst[to], q.src),
				fmt.Sprintf("non-forced request_poll #%d to %s, which has no stored record and stayed connected since the previous request (same PeerSync instance, seconds apart, request interval %v); history: %s",
					q.reqCount[to], c28Name(to), q.ps.VerifRequestPollInterval(), q.tail()), nil)
		}
	} else if typ == messages.MESSAGETYPE_REQUEST_POLL {
		cls := "known"
		if !q.rec[to] {
			cls = "unknown"
		}
		q.r.Seen(fmt.Sprintf("request_poll/%s/connected=%v/forced-or-explicit=%v/by=%s", cls, q.connected[to], q.forced || q.src == "RequestPoll-api", q.src))
	} else {
		q.r.Seen(fmt.Sprintf("poll-sent/by=%s/connected=%v", q.src, q.connected[to]))
	}
}

func (q *c28Seq) observe(id string) c28Obs {
	pid, _ := peersync.NewPeerID(id)
	p, err := q.store.GetPeerState(pid)
	if errors.Is(err, peersync.ErrPeerNotFound) {
		return c28Obs{}
	}
	if err != nil || p == nil {
		q.r.Violate("store", "C28|store|GetPeerState-fails", fmt.Sprintf("GetPeerState(%s): %v; history: %s", c28Name(id), err, q.tail()), nil)
		return c28Obs{}
	}
	return c28ObsOf(p)
}

func (q *c28Seq) observeAll() map[string]c28Obs {
	out := map[string]c28Obs{}
	for _, id := range c28Peers {
		out[id] = q.observe(id)
	}
	all, err := q.store.GetAllPeerStates()
	if err != nil {
		q.r.Violate("store", "C28|store|GetAllPeerStates-fails", fmt.Sprintf("%v; history: %s", err, q.tail()), nil)
		return out
	}
	n := 0
	for _, p := range all {
		o := c28ObsOf(p)
		n++
		if d := o.diff(out[o.id]); len(d) > 0 {
			q.r.Violate("store", "C28|store|GetAllPeerStates-differs-from-GetPeerState|"+strings.Join(d, "+"), fmt.Sprintf("%s: %v vs %v", c28Name(o.id), o, out[o.id]), nil)
		}
	}
	m := 0
	for _, o := range out {
		if o.exists {
			m++
		}
	}
	if n != m {
		q.r.Violate("store", "C28|store|GetAllPeerStates-count-differs", fmt.Sprintf("%d vs %d; history: %s", n, m, q.tail()), nil)
	}
	return out
}

func c28Rel(in, stored uint64, had bool) string {
	switch {
	case !had:
		return "no-stored-capability"
	case in < stored:
		return "incoming-version-lower"
	case in == stored:
		return "incoming-version-equal"
	default:
		return "incoming-version-higher"
	}
}

// deliver hands an inbound poll / request_poll to the real handler and checks the stored
// capability right afterwards.
func (q *c28Seq) deliver(from string, typ messages.MessageType, pl c28Payload, when string) {
	pid, _ := peersync.NewPeerID(from)
	mt := "poll"
	if typ == messages.MESSAGETYPE_REQUEST_POLL {
		mt = "request_poll"
	}
	hadRec := q.rec[from]
	prev := q.cap[from]
	hadCap := hadRec && prev != (c28View{})
	rel := c28Rel(pl.view.Version, prev.Version, hadCap)
	q.log("%s from %s %s %s%s", mt, c28Name(from), pl.kind, string(pl.raw), when)
	q.polls++
	sendsBefore := q.sends
	saveSrc, saveForced := q.src, q.forced
	q.src, q.forced = "response-to-request_poll", false
	q.ps.VerifProcessMessage(context.Background(), peersync.CustomMessage{From: pid, Type: typ, Payload: pl.raw})
	q.src, q.forced = saveSrc, saveForced
	got := q.observe(from)

	lower := hadCap && pl.view.Version < prev.Version
	outcome := ""
	sigBase := fmt.Sprintf("C28|capability|after-inbound-%s|%s|%s", mt, pl.kind, rel)
	switch pl.kind {
	case "valid":
		want := pl.view
		outcome = "accepted"
		if lower {
			want = prev
			outcome = "kept-higher-version"
		}
		if !got.exists {
			q.r.Violate("last-accepted-poll", sigBase+"|no-record-stored", fmt.Sprintf("%s sent %s; nothing stored; history: %s", c28Name(from), pl.raw, q.tail()), nil)
		} else if got.view != want {
			how := "other-content"
			if got.view == prev {
				how = "kept-previous"
			} else if got.view == pl.view {
				how = "took-incoming"
			}
			q.r.Violate("last-accepted-poll", sigBase+"|stored-"+how, fmt.Sprintf("%s sent %s; stored before %v; stored after %v; expected %v; history: %s", c28Name(from), pl.raw, prev, got.view, want, q.tail()), nil)
		}
		if got.exists && want == (c28View{}) && !got.hasCap {
			q.r.CountIn("notes", "all-zero capability is stored as 'no capability'")
		}
	case "badjson":
		outcome = "ignored"
		if got.exists != hadRec || got.view != prev {
			q.r.Violate("last-accepted-poll", sigBase+"|store-changed", fmt.Sprintf("%s sent undecodable %q; stored before %v (record=%v); after %v (record=%v); history: %s", c28Name(from), pl.raw, prev, hadRec, got.view, got.exists, q.tail()), nil)
		}
	default:
		// The statement does not say whether such a poll counts; both "ignored" and "taken"
		// (as is, or without the unknown assets) are allowed, a lower version never is taken.
		switch {
		case got.exists == hadRec && got.view == prev:
			outcome = "ignored"
		case got.exists && !lower && (got.view == pl.view || (pl.alt != nil && got.view == *pl.alt)):
			outcome = "taken"
		default:
			outcome = "other"
			q.r.Violate("last-accepted-poll", sigBase+"|stored-other-content", fmt.Sprintf("%s sent %s; stored before %v; after %v; history: %s", c28Name(from), pl.raw, prev, got.view, q.tail()), nil)
		}
	}
	// the model follows the store (so that one fault is reported once)
	q.rec[from] = got.exists
	q.cap[from] = got.view
	resp := "no-response"
	if q.sends > sendsBefore {
		resp = "responded"
	}
	q.r.Seen(fmt.Sprintf("inbound/%s/%s/%s/%s/%s%s", mt, pl.kind, rel, outcome, resp, when))
}

// check compares store and compatibility answers with the model after a step.
func (q *c28Seq) check(step string) map[string]c28Obs {
	obs := q.observeAll()
	compat, cerr := q.ps.CompatiblePeers()
	if cerr != nil {
		q.r.Violate("compat", "C28|compat|CompatiblePeers-fails", cerr.Error(), nil)
	}
	for _, id := range c28Peers {
		o := obs[id]
		if o.exists != q.rec[id] {
			what := "appeared"
			if !o.exists {
				what = "vanished"
			}
			q.r.Violate("store", fmt.Sprintf("C28|store|record-%s|after=%s", what, step), fmt.Sprintf("%s; history: %s", c28Name(id), q.tail()), nil)
		} else if o.view != q.cap[id] {
			q.r.Violate("last-accepted-poll", fmt.Sprintf("C28|capability|stored-differs-from-last-accepted-poll|after=%s", step),
				fmt.Sprintf("%s: last accepted poll %v, store shows %v; history: %s", c28Name(id), q.cap[id], o.view, q.tail()), nil)
		}
		q.rec[id], q.cap[id] = o.exists, o.view
		want := o.exists && o.hasCap && o.view.Version == q.ver
		got := q.ps.HasCompatiblePeer(id)
		_, inMap := compat[id]
		vc := "none"
		if o.exists && o.hasCap {
			switch {
			case o.view.Version < q.ver:
				vc = "lower"
			case o.view.Version == q.ver:
				vc = "equal"
			default:
				vc = "higher"
			}
		}
		q.r.Seen(fmt.Sprintf("compat/stored-version-%s/%v", vc, got))
		if got != want {
			q.r.Violate("compat", fmt.Sprintf("C28|compat|HasCompatiblePeer=%v|stored-version-%s", got, vc), fmt.Sprintf("%s stored %v, node version %d; history: %s", c28Name(id), o.view, q.ver, q.tail()), nil)
		}
		if cerr == nil && inMap != want {
			q.r.Violate("compat", fmt.Sprintf("C28|compat|CompatiblePeers-contains=%v|stored-version-%s", inMap, vc), fmt.Sprintf("%s stored %v, node version %d; history: %s", c28Name(id), o.view, q.ver, q.tail()), nil)
		}
	}
	return obs
}

func (q *c28Seq) step() {
	rng := q.rng
	ctx := context.Background()
	q.r.Eval()
	id := c28Peers[rng.Intn(len(c28Peers))]
	pid, _ := peersync.NewPeerID(id)
	x := rng.Intn(100)
	name := ""
	switch {
	case x < 22:
		name = "inbound-poll"
		pref := int64(-1)
		if q.rec[id] {
			pref = int64(q.cap[id].Version)
		}
		q.deliver(id, messages.MESSAGETYPE_POLL, c28GenPayload(rng, pref), "")
	case x < 32:
		name = "inbound-request_poll"
		q.deliver(id, messages.MESSAGETYPE_REQUEST_POLL, c28GenPayload(rng, -1), "")
	case x < 40:
		name = "connect"
		q.log("connect %s", c28Name(id))
		q.r.Seen(fmt.Sprintf("connect/was=%v/known=%v", q.connected[id], q.rec[id]))
		q.connected[id] = true
		q.ln.mu.Lock()
		q.ln.connected[id] = true
		q.ln.mu.Unlock()
	case x < 47:
		name = "disconnect"
		q.log("disconnect %s", c28Name(id))
		q.r.Seen(fmt.Sprintf("disconnect/was=%v/known=%v/requested-before=%v", q.connected[id], q.rec[id], q.reqCount[id] > 0))
		q.connected[id] = false
		q.ln.mu.Lock()
		q.ln.connected[id] = false
		q.ln.mu.Unlock()
		delete(q.reqCount, id)
		delete(q.reqFirst, id)
	case x < 61:
		forced := x >= 56
		name = "PollAllPeers"
		if forced {
			name = "ForcePollAllPeers"
		}
		// sometimes a poll from a peer is processed while the poll round is under way (the
		// handler runs on its own goroutine in production): it is handed over right after the
		// first outgoing message of the round.
		fired := false
		var fl c28Payload
		flFrom := ""
		if rng.Intn(3) == 0 {
			flFrom = c28Peers[rng.Intn(len(c28Peers))]
			pref := int64(-1)
			if q.rec[flFrom] {
				pref = int64(q.cap[flFrom].Version)
			}
			fl = c28GenPayload(rng, pref)
			q.inflight = func() {
				fired = true
				q.deliver(flFrom, messages.MESSAGETYPE_POLL, fl, "/during-"+name)
			}
			name += "-with-inbound-poll-in-flight"
		}
		q.log("%s", name)
		if q.inflight != nil {
			name = "poll-round-with-inbound-poll-in-flight" // one name: PollAllPeers and ForcePollAllPeers share the code
		}
		var limited []string // unknown connected peers that were already asked by this instance
		for _, p := range c28Peers {
			if !q.rec[p] && q.connected[p] && q.reqCount[p] > 0 {
				limited = append(limited, p)
			}
		}
		before := map[string]int{}
		for k, v := range q.reqCount {
			before[k] = v
		}
		q.src, q.forced = "PollAllPeers", forced
		if forced {
			q.src = "ForcePollAllPeers"
			q.ps.ForcePollAllPeers(ctx)
		} else {
			q.ps.PollAllPeers(ctx)
		}
		q.src, q.forced = "", false
		if !forced {
			for _, p := range limited {
				if q.reqCount[p] == before[p] {
					q.r.Seen("request_poll/unknown-connected/not-repeated-by-PollAllPeers")
				}
			}
		}
		if q.inflight != nil { // nothing was sent, the message arrives afterwards
			q.inflight = nil
			q.deliver(flFrom, messages.MESSAGETYPE_POLL, fl, "")
			name = "poll-round-then-inbound-poll"
		}
		_ = fired
	case x < 64:
		name = "RequestPoll-api"
		q.log("RequestPoll(%s)", c28Name(id))
		q.src = "RequestPoll-api"
		if err := q.ps.RequestPoll(ctx, pid); err != nil {
			q.r.Violate("api", "C28|RequestPoll-fails", err.Error(), nil)
		}
		q.src = ""
	case x < 74:
		name = "cleanup"
		listFails := rng.Intn(7) == 0
		pre := q.observeAll()
		q.ln.mu.Lock()
		q.ln.listErr = listFails
		q.ln.mu.Unlock()
		q.log("cleanup(listPeersFails=%v)", listFails)
		err := q.ps.VerifCleanupExpired(ctx)
		after := time.Now()
		q.ln.mu.Lock()
		q.ln.listErr = false
		q.ln.mu.Unlock()
		for _, p := range c28Peers {
			if !pre[p].exists {
				continue
			}
			post := q.observe(p)
			// expiry is monotone, so "expired now" is implied by "expired at the sweep"
			expired := !pre[p].lastSeen.IsZero() && after.Sub(pre[p].lastSeen) > q.timeout
			removed := !post.exists
			q.r.Seen(fmt.Sprintf("cleanup/expired=%v/connected=%v/list-fails=%v/removed=%v", expired, q.connected[p], listFails, removed))
			if removed {
				switch {
				case !expired:
					q.r.Violate("cleanup", fmt.Sprintf("C28|cleanup|removed-peer-not-expired|connected=%v", q.connected[p]),
						fmt.Sprintf("%s last seen %v ago (timeout %v) was removed; err=%v; history: %s", c28Name(p), after.Sub(pre[p].lastSeen), q.timeout, err, q.tail()), nil)
				case q.connected[p]:
					q.r.Violate("cleanup", fmt.Sprintf("C28|cleanup|removed-connected-peer|list-peers-fails=%v", listFails),
						fmt.Sprintf("%s expired (%v ago) but connected at the sweep, and was removed; err=%v; history: %s", c28Name(p), after.Sub(pre[p].lastSeen), err, q.tail()), nil)
				}
				q.rec[p] = false
				q.cap[p] = c28View{}
			} else if expired && !q.connected[p] && !listFails {
				q.r.CountIn("notes", "expired disconnected peer survived a sweep (not demanded by the statement)")
			}
		}
	case x < 84:
		name = "clock-advance"
		d := []time.Duration{5 * time.Minute, 16 * time.Minute, 29 * time.Minute, 31 * time.Minute, 2 * time.Hour}[rng.Intn(5)]
		q.log("clock+%v", d)
		n := 0
		for _, p := range c28Peers {
			ppid, _ := peersync.NewPeerID(p)
			peer, err := q.store.GetPeerState(ppid)
			if err != nil {
				continue
			}
			if !peer.LastObservedAt().IsZero() {
				peer.SetLastObservedAt(peer.LastObservedAt().Add(-d))
			}
			if !peer.LastPollAt().IsZero() {
				peer.SetLastPollAt(peer.LastPollAt().Add(-d))
			}
			want := c28ObsOf(peer)
			if err := q.store.SavePeerState(peer); err != nil {
				q.r.Violate("store", "C28|store|SavePeerState-fails", err.Error(), nil)
				continue
			}
			n++
			if df := q.observe(p).diff(want); len(df) > 0 {
				q.r.Violate("reload", "C28|reload|saved-record-reads-back-different|"+strings.Join(df, "+"), fmt.Sprintf("%s saved %+v read %+v", c28Name(p), want, q.observe(p)), nil)
			}
		}
		q.r.Seen(fmt.Sprintf("clock-advance/%v/records=%d", d, n))
	case x < 90:
		name = "seed-record"
		// a record written through the exported Store API (as the node itself does); it becomes
		// the peer's stored capability
		peer := peersync.NewPeer(pid, []string{"", "10.0.0.7:9735", "[2001:db8::1]:9735"}[rng.Intn(3)])
		st := []peersync.PeerStatus{peersync.StatusActive, peersync.StatusInactive, peersync.StatusUnknown, peersync.StatusExpired}[rng.Intn(4)]
		var view c28View
		if rng.Intn(4) > 0 {
			pl := c28GenPayload(rng, -1)
			for pl.kind != "valid" {
				pl = c28GenPayload(rng, -1)
			}
			view = pl.view
			var assets []peersync.Asset
			for _, a := range strings.Split(view.Assets, ",") {
				if a != "" {
					as, _ := peersync.NewAsset(a)
					assets = append(assets, as)
				}
			}
			peer.UpdateCapability(peersync.NewPeerCapability(peersync.NewVersion(view.Version), assets, view.Allowed,
				premium.NewPPM(view.Rates[0]), premium.NewPPM(view.Rates[1]), premium.NewPPM(view.Rates[2]), premium.NewPPM(view.Rates[3])))
		}
		peer.SetStatus(st)
		if rng.Intn(3) > 0 {
			peer.SetLastObservedAt(time.Now().Add(-time.Duration(rng.Int63n(int64(20 * time.Minute)))))
		} else {
			peer.SetLastObservedAt(time.Time{})
		}
		if rng.Intn(2) == 0 {
			peer.SetLastPollAt(time.Now().Add(-time.Duration(rng.Int63n(int64(time.Hour)))))
		}
		want := c28ObsOf(peer)
		q.log("seed %s %v status=%s", c28Name(id), view, st)
		if err := q.store.SavePeerState(peer); err != nil {
			q.r.Violate("store", "C28|store|SavePeerState-fails", err.Error(), nil)
			break
		}
		got := q.observe(id)
		if df := got.diff(want); len(df) > 0 {
			q.r.Violate("reload", "C28|reload|saved-record-reads-back-different|"+strings.Join(df, "+"), fmt.Sprintf("%s saved %+v read %+v", c28Name(id), want, got), nil)
		}
		if want.hasCap && !got.hasCap {
			q.r.CountIn("notes", "all-zero capability is stored as 'no capability'")
		}
		q.r.Seen(fmt.Sprintf("seed/status=%s/cap=%v/seen-set=%v", st, want.hasCap, !want.lastSeen.IsZero()))
		q.rec[id] = true
		q.cap[id] = view
	default:
		name = "reopen"
		pre := q.observeAll()
		start := rng.Intn(2) == 0
		q.log("reopen(start=%v)", start)
		q.close()
		if !q.open(false) {
			return
		}
		post := q.observeAll()
		n := 0
		for _, p := range c28Peers {
			if pre[p].exists {
				n++
			}
			if df := pre[p].diff(post[p]); len(df) > 0 {
				q.r.Violate("reload", "C28|reload|record-differs-after-reopen|"+strings.Join(df, "+"), fmt.Sprintf("%s before %+v after %+v; history: %s", c28Name(p), pre[p], post[p], q.tail()), nil)
			}
			if pre[p].exists && !pre[p].capSeen.Equal(post[p].capSeen) {
				q.r.Violate("reload", "C28|reload|record-differs-after-reopen|capability-observed-at", fmt.Sprintf("%s before %v after %v", c28Name(p), pre[p].capSeen, post[p].capSeen), nil)
			}
		}
		q.r.Seen(fmt.Sprintf("reopen/records=%d/start=%v", n, start))
		if start {
			// the production wiring calls Start (initial sync) on every new instance
			q.close()
			if !q.open(true) {
				return
			}
			name = "reopen+Start"
		}
	}
	if !q.dead {
		q.check(name)
	}
}

func TestC28(t *testing.T) {
	r := newRun(t, "C28", "exploration")
	defer r.Finish()
	r.Rule = "model-based: real peersync.PeerSync (NewPeerSync as in cmd wiring, real Store on a bbolt file, default policy) over a fake peersync.Lightning; sequences of 20..60 steps over 4 peers: inbound poll / request_poll (versions 0,6,7,8; undecodable JSON; out-of-range rates; unknown assets; zero fields written or omitted), also delivered while a poll round is under way, connect/disconnect, PollAllPeers/ForcePollAllPeers/RequestPoll, cleanup sweep (real list-connected -> CleanupExpiredExcept composition, also with ListPeers failing), clock advance by back-dating LastSeen/LastPollAt through the exported setters, records written through Store.SavePeerState, close/reopen with and without Start. " +
		"After every step the store (GetPeerState and GetAllPeerStates), HasCompatiblePeer and CompatiblePeers are compared with the model: capability = last accepted poll (a lower version than the stored one is not accepted), records identical after reopen, removed by cleanup => expired and not connected, non-forced request_poll to an unknown connected peer at most once between two disconnects per PeerSync instance, compatible <=> stored version == node version. distinct = step kind x payload kind x version relation x outcome"
	r.Assumptions = []string{
		"'expired' means last seen longer ago than the configured cleanup timeout (30 min, read through VerifCleanupTimeout)",
		"the clock is advanced by back-dating stored timestamps; the poller's in-memory request times only see real time, so 'at most once per request interval' is checked as 'at most once while the peer stays connected' (sequences last well under a second)",
		"a 'run' for the request-once clause is the lifetime of one PeerSync instance; Start's initial sync counts as non-forced, RequestPoll (explicit API call) and ForcePollAllPeers are exempt",
		"polls that decode but carry out-of-range rates or unknown assets may be ignored or taken; undecodable payloads must leave the store unchanged",
		"a capability whose every field is zero is treated as equal to 'no capability'",
	}
	// peersync reports rejected payloads through the standard logger
	prevLog := log.Writer()
	log.SetOutput(io.Discard)
	defer log.SetOutput(prevLog)
	ver := uint64(swap.PEERSWAP_PROTOCOL_VERSION)
	base := t.TempDir()
	nSeq := r.N(600, 20000)
	master := mrand.New(mrand.NewSource(r.Seed + 28))
	seeds := make([]int64, nSeq)
	for i := range seeds {
		seeds[i] = master.Int63()
	}
	var mu sync.Mutex
	totalPolls, totalSends, totalSteps := 0, 0, 0
	parallelDo(nSeq, 8, func(i int) {
		rng := mrand.New(mrand.NewSource(seeds[i]))
		q := &c28Seq{r: r, rng: rng, path: filepath.Join(base, fmt.Sprintf("peersync-%d.db", i)), ver: ver,
			rec: map[string]bool{}, cap: map[string]c28View{}, connected: map[string]bool{}}
		q.ln = &c28LN{connected: map[string]bool{}, ch: make(chan peersync.CustomMessage)}
		q.ln.onSend = q.onSend
		// some peers are connected from the beginning
		for _, p := range c28Peers {
			if rng.Intn(2) == 0 {
				q.connected[p] = true
				q.ln.connected[p] = true
			}
		}
		start := rng.Intn(2) == 0
		q.log("open(start=%v) connected=%d", start, len(q.ln.connected))
		if !q.open(start) {
			return
		}
		if q.ps.VerifProtocolVersion() != ver {
			r.Violate("compat", "C28|compat|node-version-differs-from-swap-protocol-version", fmt.Sprintf("%d vs %d", q.ps.VerifProtocolVersion(), ver), nil)
		}
		q.check("open")
		n := 20 + rng.Intn(41)
		for s := 0; s < n && !q.dead; s++ {
			q.step()
		}
		q.close()
		os.Remove(q.path)
		mu.Lock()
		totalPolls += q.polls
		totalSends += q.sends
		totalSteps += n
		mu.Unlock()
		if i < 2 {
			h := q.hist
			if len(h) > 25 {
				h = h[:25]
			}
			r.Sample(map[string]any{"sequence": i, "first_steps": h})
		}
	})
	// cleanup grid with a file-backed policy that quarantines some peers: a record is removed by the sweep iff it is
	// expired and its peer is not connected — whether or not the peer is on the suspicious list
	grid := 0
	for rep := 0; rep < r.N(2, 20); rep++ {
		dir := filepath.Join(base, fmt.Sprintf("grid-%d", rep))
		os.MkdirAll(dir, 0o755)
		var ids []string
		for i := 0; i < 8; i++ {
			ids = append(ids, hx(append([]byte{byte(2 + (i+rep)%2)}, randBytes(32)...)))
		}
		polText := "accept_all_peers=1\n"
		for i, id := range ids {
			if i&4 != 0 {
				polText += "suspicious_peers=" + id + "\n"
			}
		}
		polPath := filepath.Join(dir, "policy.conf")
		os.WriteFile(polPath, []byte(polText), 0o644)
		pol, err := policy.CreateFromFile(polPath)
		if err != nil {
			r.Inconclusive("grid policy: " + err.Error())
			break
		}
		st, err := peersync.NewStore(filepath.Join(dir, "peersync.db"))
		if err != nil {
			r.Inconclusive("grid store: " + err.Error())
			break
		}
		ln := &c28LN{connected: map[string]bool{}, ch: make(chan peersync.CustomMessage)}
		ln.onSend = func(string, messages.MessageType, []byte) {}
		nodeID, _ := peersync.NewPeerID("02ee0000000000000000000000000000000000000000000000000000000000ee")
		ps := peersync.NewPeerSync(nodeID, st, ln, pol, []string{"btc", "lbtc"}, nil)
		timeout := ps.VerifCleanupTimeout()
		for i, id := range ids {
			pid, _ := peersync.NewPeerID(id)
			peer := peersync.NewPeer(pid, "")
			as, _ := peersync.NewAsset("btc")
			peer.UpdateCapability(peersync.NewPeerCapability(peersync.NewVersion(ver), []peersync.Asset{as}, true, premium.NewPPM(1), premium.NewPPM(2), premium.NewPPM(3), premium.NewPPM(4)))
			if i&1 != 0 { // expired
				peer.SetLastObservedAt(time.Now().Add(-timeout - time.Minute))
			} else {
				peer.SetLastObservedAt(time.Now().Add(-time.Minute))
			}
			st.SavePeerState(peer)
			if i&2 != 0 {
				ln.connected[id] = true
			}
		}
		if err := ps.VerifCleanupExpired(context.Background()); err != nil {
			r.Violate("cleanup", "C28|cleanup|sweep-fails-with-quarantined-peers", err.Error(), nil)
		}
		for i, id := range ids {
			pid, _ := peersync.NewPeerID(id)
			got, gerr := st.GetPeerState(pid)
			present := gerr == nil && got != nil
			expired, connected, suspicious := i&1 != 0, i&2 != 0, i&4 != 0
			wantPresent := !(expired && !connected)
			r.Eval()
			grid++
			r.Seen(fmt.Sprintf("cleanup-grid/expired=%v/connected=%v/quarantined=%v/kept=%v", expired, connected, suspicious, present))
			if present != wantPresent {
				r.Violate("cleanup", fmt.Sprintf("C28|cleanup|record-%s|expired=%v|connected=%v|quarantined=%v", map[bool]string{true: "kept", false: "removed"}[present], expired, connected, suspicious),
					fmt.Sprintf("after the cleanup sweep the record of a peer (expired=%v, connected=%v, on the suspicious list=%v) is present=%v, expected %v", expired, connected, suspicious, present, wantPresent), nil)
			}
		}
		st.Close()
	}
	r.Extra["cleanup_grid_points"] = grid
	r.Extra["sequences"] = nSeq
	r.Extra["steps"] = totalSteps
	r.Extra["inbound_messages"] = totalPolls
	r.Extra["messages_sent_by_node"] = totalSends
	r.Require(totalPolls > 500, "too few inbound polls")
	r.Require(totalSends > 500, "too few outgoing messages observed")
}
