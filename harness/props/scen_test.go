package props

import (
	"encoding/json"
	"fmt"
	mrand "math/rand"

	"github.com/elementsproject/peerswap/swap"

	"verifharness/sim"
)

// pair is a world with two real nodes and one channel.
type pair struct {
	w      *sim.World
	rng    *mrand.Rand
	A, B   *sim.Node // A initiates
	scid   string
	chain  string
	typ    string // "out" | "in"
	amount uint64
	id     string
	sm     *swap.SwapStateMachine
	// slowStart: more than a second of wall-clock time passes between the creation of the swap on both sides and
	// everything that follows (fee payment, funding, announcement)
	slowStart bool
}

type pairOpts struct {
	chain, typ string
	amount     uint64
	limitPPM   int64
	cfgA, cfgB func(c *sim.NodeConfig)
	scidLocal  string // spelling used by the initiator (default 100x1x0)
}

func newPair(seed int64, o pairOpts) *pair {
	w := sim.NewWorld(seed)
	ca, cb := sim.DefaultNodeConfig(), sim.DefaultNodeConfig()
	if o.cfgA != nil {
		o.cfgA(&ca)
	}
	if o.cfgB != nil {
		o.cfgB(&cb)
	}
	p := &pair{w: w, rng: mrand.New(mrand.NewSource(seed ^ 0x5eed)), scid: "100x1x0", chain: o.chain, typ: o.typ, amount: o.amount}
	if o.scidLocal != "" {
		p.scid = o.scidLocal
	}
	if p.amount == 0 {
		p.amount = uint64(200_000 + p.rng.Intn(2_000_000))
	}
	p.A = w.AddNode("alice", ca)
	p.B = w.AddNode("bob", cb)
	w.LN.OpenChannel(p.scid, p.A.ID, p.B.ID, 5_000_000_000, 5_000_000_000)
	return p
}

func (p *pair) startNodes() error {
	if err := p.A.Start(); err != nil {
		return err
	}
	return p.B.Start()
}

// begin starts the swap on A (no delivery yet).
func (p *pair) begin(limitPPM int64) error {
	var err error
	var pt string
	if limitPPM == 0 {
		limitPPM = 100000
	}
	if p.typ == "out" {
		p.sm, err, pt = p.A.SwapOut(p.B.ID, p.chain, p.scid, p.amount, limitPPM)
	} else {
		p.sm, err, pt = p.A.SwapIn(p.B.ID, p.chain, p.scid, p.amount, limitPPM)
	}
	if pt != "" {
		return fmt.Errorf("panic: %s", pt)
	}
	if err != nil {
		return err
	}
	if p.sm == nil {
		return fmt.Errorf("initiator died inside the call")
	}
	p.id = p.sm.SwapId.String()
	return nil
}

func (p *pair) chainObj() *sim.Chain {
	if p.chain == "lbtc" {
		return p.w.LBTC
	}
	return p.w.BTC
}

// maker / taker nodes of the swap.
func (p *pair) maker() *sim.Node {
	if p.typ == "out" {
		return p.B
	}
	return p.A
}
func (p *pair) taker() *sim.Node {
	if p.typ == "out" {
		return p.A
	}
	return p.B
}

// mine mines n blocks on the swap's chain, draining the queue after each.
func (p *pair) mine(n int) {
	for i := 0; i < n; i++ {
		p.chainObj().Mine(1)
		p.w.Run()
	}
}

// state returns the committed state of the swap on node n ("" if no record).
func (p *pair) state(n *sim.Node) string {
	sm := n.StoredSwap(p.id)
	if sm == nil {
		return ""
	}
	return string(sm.Current)
}

func isTerminal(s string) bool {
	switch swap.StateType(s) {
	case swap.State_SwapCanceled, swap.State_ClaimedPreimage, swap.State_ClaimedCoop, swap.State_ClaimedCsv:
		return true
	}
	return false
}

// happy runs a complete honest swap; returns an error text if it did not end in ClaimedPreimage on both sides.
func (p *pair) happy() error {
	if err := p.startNodes(); err != nil {
		return err
	}
	if err := p.begin(0); err != nil {
		return err
	}
	p.w.Run()
	p.mine(4)
	if a, b := p.state(p.A), p.state(p.B); a != string(swap.State_ClaimedPreimage) || b != string(swap.State_ClaimedPreimage) {
		return fmt.Errorf("swap ended in %s / %s", a, b)
	}
	return nil
}

func decodeMsg(payload []byte, v any) error { return json.Unmarshal(payload, v) }

// chains × types
var allChainTypes = []struct{ chain, typ string }{{"btc", "out"}, {"btc", "in"}, {"lbtc", "out"}, {"lbtc", "in"}}
