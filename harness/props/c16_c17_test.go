package props

import (
	"encoding/json"
	"fmt"
	mrand "math/rand"
	"sync"
	"testing"
	"time"

	"github.com/btcsuite/btcd/btcec/v2"
	"github.com/elementsproject/peerswap/swap"

	"verifharness/ref"
	"verifharness/sim"
)

// ---------------------------------------------------------------------------
// C16: bounded progress after the peer goes silent

func c16Judge(r *Run, h *lcHist, cutOp string) {
	role := h.victimRole()
	st := h.stuck()
	act := 0
	if inc := h.victim.Inc(); inc != nil && inc.Svc != nil {
		act = len(inc.Svc.VerifActiveSwaps())
	}
	final := h.p.state(h.victim)
	r.Seen(fmt.Sprintf("%s/%s/%s/cut@%s/final=%s", h.c.chain, role, h.c.variant, cutOp, final))
	r.CountIn("terminal_states_reached", final)
	for _, s := range st {
		r.CountIn("drain_started_from_stuck", s)
		cause := ""
		if len(h.spendsOK) > 0 {
			// the node's own spend of the swap output is on chain although the record does not know it
			cause = "|own-" + h.spendsOK[0].Op + "-spend-on-chain-but-not-recorded"
		}
		r.Violate("bounded-termination", fmt.Sprintf("C16|stuck|%s|%s%s", h.c.chain, s, cause),
			fmt.Sprintf("after the drain procedure (6 rounds of timers, payment resolution, healed services, blocks past every window/CSV, restart) the swap is still %s; case %s cut at crossing %d (%s) crash at %d", s, h.c, h.c.cutAt, cutOp, h.c.crashAt), traceOf(h.p.w))
	}
	if len(st) == 0 && act != 0 {
		r.Violate("channel-released", fmt.Sprintf("C16|terminal-but-channel-locked|%s|%s|%s", h.c.chain, role, final),
			fmt.Sprintf("swap is terminal but the active-swap map still holds %d entries; case %s", act, h.c), traceOf(h.p.w))
	}
	if len(h.panics) > 0 {
		r.Violate("no-panic", "C16|panic|"+h.c.chain+"|"+role, h.panics[0], traceOf(h.p.w))
	}
}

func TestC16(t *testing.T) {
	r := newRun(t, "C16", "fault_enumeration")
	defer r.Finish()
	r.Rule = "prefix enumeration: every honest scenario (4 roles × 2 chains × {happy, payment failing, claim broadcast failing, fee unpaid}) is cut at every boundary crossing of the node (the peer dies there), optionally with one crash of the node before the cut; then the drain procedure runs: <=6 rounds of {advance the virtual clock 11 min and fire due timers; resolve pending HTLCs; heal services; mine past the payment windows and the CSV; restart}; the cuts of the happy scenarios (all cuts in thorough) are also drained with a restart before the first timer fires. Verdict in logical steps only. distinct = (chain, role, variant, cut op, final state)"
	r.Rule += " In addition real makers against a scripted taker that answers the announcement once with {nothing, cancel, coop_close with a wrong key (once, twice), coop_close with a malformed key} and goes silent, with and without a restart while the maker waits for the CSV; same drain, same verdict."
	r.Assumptions = []string{"bounded restatement of liveness: the fairness script is the drain procedure", "reference watcher delivers truthful notifications"}
	type combo struct{ chain, typ, victim, variant string }
	var combos []combo
	variants := []string{"happy", "payfail", "claimfail"}
	for _, ch := range []string{"btc", "lbtc"} {
		for _, ty := range []string{"out", "in"} {
			for _, v := range []string{"alice", "bob"} {
				for _, va := range variants {
					combos = append(combos, combo{ch, ty, v, va})
				}
			}
		}
	}
	setupFor := func(variant string) func(h *lcHist) {
		return func(h *lcHist) {
			switch variant {
			case "payfail":
				h.p.w.LN.Script = func(payer string, inv *sim.Invoice, n int) sim.Outcome {
					if inv.Type == 1 {
						return sim.OutFail
					}
					return sim.OutSettle
				}
			case "claimfail":
				tk := h.p.taker()
				n := 0
				tk.Fault = func(op string) error {
					if (op == "btc.preimage" || op == "lbtc.preimage") && n < 30 {
						n++
						return fmt.Errorf("injected: broadcast failed")
					}
					return nil
				}
			}
		}
	}
	var mu sync.Mutex
	var cases []lcCase
	ops := map[string][]string{}
	parallelDo(len(combos), 8, func(i int) {
		cb := combos[i]
		c := lcCase{chain: cb.chain, typ: cb.typ, victim: cb.victim, variant: cb.variant, drain: true}
		h := lcRun(r.Seed*613+int64(i)+1, c, setupFor(cb.variant))
		r.Eval()
		c16Judge(r, h, "never")
		n := h.victim.Crossings()
		mu.Lock()
		ops[c.String()] = h.ops
		step := int64(1)
		if !r.Thorough() {
			step = 2
			if cb.variant != "happy" {
				step = 3
			}
		}
		for k := int64(1); k <= int64(len(h.ops)); k += step {
			cc := c
			cc.cutAt = k
			cc.name = crossingOp(h.ops, k)
			cases = append(cases, cc)
			if r.Thorough() || cb.variant == "happy" {
				// the same cut with the drain starting with a restart: in-memory timers are gone before they fire
				c3 := cc
				c3.restartFirst = true
				cases = append(cases, c3)
			}
			if (r.Thorough() && k > 2) || (!r.Thorough() && cb.variant == "happy" && k > 2 && k%4 == 1) {
				c2 := cc
				c2.crashAt, c2.flavor = k-2, "after"
				cases = append(cases, c2)
			}
		}
		_ = n
		// crashes inside the drain: the peer dies right after the maker's announcement (resp. after the
		// taker's payment), and the node is killed at one of the crossings that follow (refund / claim path)
		if cb.variant == "happy" {
			for idx, op := range h.ops {
				if op == "msg.send:42077" || op == "ln.rebalance" {
					cut := int64(idx + 2)
					jmax := int64(14)
					if !r.Thorough() {
						jmax = 8
					}
					for j := int64(1); j <= jmax; j++ {
						for _, fl := range []string{"before", "after"} {
							if !r.Thorough() && fl == "before" && j%2 == 0 {
								continue
							}
							cc := c
							cc.cutAt, cc.crashAt, cc.flavor = cut, cut+j, fl
							cc.name = op + "+drain-crash"
							cases = append(cases, cc)
						}
					}
					break
				}
			}
		}
		mu.Unlock()
		h.p.w.Close()
	})
	parallelDo(len(cases), 12, func(i int) {
		c := cases[i]
		h := lcRun(r.Seed*613+int64(i)+50_000, c, setupFor(c.variant))
		r.Eval()
		r.CountIn("cut_points_by_op", c.name)
		c16Judge(r, h, c.name)
		h.p.w.Close()
	})
	r.Extra["prefix_cuts"] = len(cases)
	// a scripted taker that answers the announcement once with something unusable and then goes silent
	var sc []c26Case
	for _, ch := range []string{"btc", "lbtc"} {
		for _, ty := range []string{"in", "out"} {
			for _, b := range []string{"silence", "cancel", "coop-wrong-key", "coop-malformed-key", "coop-wrong-key-twice"} {
				sc = append(sc, c26Case{ch, ty, b, false}, c26Case{ch, ty, b, true})
			}
		}
	}
	parallelDo(len(sc)*r.N(1, 8), 8, func(i int) { runC16Scripted(r, r.Seed*617+int64(i)+1, sc[i%len(sc)], "C16") })
	r.Sample(map[string]any{"case": "lbtc/in victim=alice cut at msg.send:42069", "meaning": "swap-in initiator whose peer dies right when the request leaves; must end SwapCanceled after the negotiation timeout"})
	r.Require(len(cases) >= 150, fmt.Sprintf("only %d prefix cuts", len(cases)))
}

// ---------------------------------------------------------------------------
// C17: negotiation timeouts

type c17Case struct {
	chain, typ string
	role       string // requester | fee-waiter
	restartAt  int64  // crossing of the victim after which it is restarted (0 = none)
	order      string
	disturb    int // order "unacceptable-msg-mid-wait": type of the message the counterparty sends for this swap while the victim waits
}

func runC17(r *Run, seed int64, c c17Case) {
	victim := "alice"
	if c.role == "fee-waiter" {
		victim = "bob"
	}
	lc := lcCase{chain: c.chain, typ: c.typ, victim: victim, variant: c.role, crashAt: c.restartAt, flavor: "after"}
	p := newPair(seed, pairOpts{chain: c.chain, typ: c.typ, amount: 1_000_000})
	defer p.w.Close()
	h := &lcHist{c: lc, p: p, victim: p.A, peer: p.B}
	if victim == "bob" {
		h.victim, h.peer = p.B, p.A
	}
	h.attach()
	h.victim.CrashAt, h.victim.CrashFlavor = c.restartAt, "after"
	if c.role == "requester" {
		// the responder never answers
		p.w.Sched = func(w *sim.World, it *sim.QView) sim.Decision {
			if it.Kind == "msg" && it.To == "bob" {
				return sim.Drop
			}
			return sim.Deliver
		}
	} else {
		// the requester receives the agreement but never pays the fee invoice and stays silent
		p.w.Sched = func(w *sim.World, it *sim.QView) sim.Decision {
			if it.Kind == "msg" && it.To == "alice" && it.MsgType == ref.MsgSwapOutAgreement {
				return sim.Drop
			}
			if it.Kind == "msg" && it.To == "bob" && it.MsgType != ref.MsgSwapOutRequest {
				return sim.Drop // the requester is silent after its request
			}
			return sim.Deliver
		}
	}
	if err := p.startNodes(); err != nil {
		r.Inconclusive(err.Error())
		return
	}
	p.begin(0)
	if p.id == "" {
		for id := range p.A.StoredSwaps() {
			p.id = id
		}
	}
	h.settle()
	if p.id == "" {
		for id := range p.A.StoredSwaps() {
			p.id = id
		}
	}
	before := p.state(h.victim)
	// exactly the negotiation timeout passes (optionally with a restart or two in the middle of the wait)
	switch c.order {
	case "restart-mid-wait":
		p.w.Advance(4 * time.Minute)
		h.settle()
		h.victim.Restart()
		h.settle()
		p.w.Advance(6 * time.Minute)
	case "two-restarts-mid-wait":
		p.w.Advance(3 * time.Minute)
		h.settle()
		h.victim.Restart()
		h.settle()
		p.w.Advance(3 * time.Minute)
		h.settle()
		h.victim.Restart()
		h.settle()
		p.w.Advance(4 * time.Minute)
	case "unacceptable-msg-mid-wait":
		// the counterparty sends, for this swap, a well-formed message the waiting state does not accept (it is
		// not the awaited agreement / payment and not a cancel) and stays silent afterwards: the wait is still bounded
		p.w.Advance(4 * time.Minute)
		h.settle()
		if sid, err := swap.ParseSwapIdFromString(p.id); err == nil {
			payload := c09Payload(p.rng, c.disturb, sid, p.scid, c.chain, p.w, h.peer.ID, false)
			p.w.DeliverNow(h.peer.ID, h.victim.Name, fmt.Sprintf("%x", c.disturb), payload)
		}
		h.settle()
		p.w.Advance(6 * time.Minute)
	default:
		p.w.Advance(10 * time.Minute)
	}
	h.settle()
	final := p.state(h.victim)
	cancelSent, peerKnows := false, false
	for _, m := range h.sends {
		switch m.Type {
		case ref.MsgCancel:
			cancelSent = true
		case ref.MsgSwapInRequest, ref.MsgSwapOutRequest, ref.MsgSwapOutAgreement:
			peerKnows = true // the victim has handed its request (resp. its agreement) to the messenger
		}
	}
	r.Eval()
	restarted := h.restarts > 1
	role := h.victimRole()
	seen := fmt.Sprintf("%s/%s/%s/restarted=%v/before=%s/final=%s/cancel-sent=%v", c.chain, role, c.role, restarted, before, final, cancelSent)
	if c.disturb != 0 {
		seen += fmt.Sprintf("/unacceptable-msg=%d", c.disturb)
	}
	r.Seen(seen)
	if before == "" {
		return // died before anything was persisted: no swap exists
	}
	tag := fmt.Sprintf("%s|%s|restarted=%v", role, before, restarted)
	if c.disturb != 0 {
		tag += fmt.Sprintf("|unacceptable-msg=%d", c.disturb)
	}
	if final != string(swap.State_SwapCanceled) {
		r.Violate("cancel-within-timeout", "C17|not-cancelled-after-timeout|"+tag,
			fmt.Sprintf("state %s -> %s after 10 virtual minutes without an answer (chain %s, restart after crossing %d)", before, final, c.chain, c.restartAt), traceOf(p.w))
	} else if !cancelSent && (!isTerminal(before) || peerKnows) {
		r.Violate("tells-the-peer", "C17|cancelled-without-telling-peer|"+tag,
			fmt.Sprintf("swap cancelled (%s -> %s) but no cancel message was sent (chain %s, restart after crossing %d)", before, final, c.chain, c.restartAt), traceOf(p.w))
	}
}

func TestC17(t *testing.T) {
	r := newRun(t, "C17", "fault_enumeration")
	defer r.Finish()
	r.Rule = "virtual-clock histories: (a) swap-in / swap-out requester whose request is never answered, (b) swap-out responder whose fee invoice is never paid; the clock is advanced by exactly 10 minutes and the due timers fire; every history is repeated with a restart after each boundary crossing of the negotiation phase; (c) the same waits disturbed after 4 minutes by a well-formed message of this swap from its counterparty that the waiting state does not accept (opening_tx_broadcasted, coop_close, an agreement of the other type / a second agreement), after which the peer stays silent. Oracle: committed state SwapCanceled and a cancel message sent. distinct = (chain, role, restarted, state before, state after, cancel sent, disturbing message type)"
	r.Assumptions = []string{"timeouts observed on the harness's virtual clock through the verif timeout hook"}
	var cases []c17Case
	for _, ch := range []string{"btc", "lbtc"} {
		for _, ty := range []string{"out", "in"} {
			cases = append(cases, c17Case{chain: ch, typ: ty, role: "requester"})
		}
		cases = append(cases, c17Case{chain: ch, typ: "out", role: "fee-waiter"})
	}
	base := append([]c17Case(nil), cases...)
	for _, b := range base {
		for k := int64(1); k <= 14; k++ {
			c := b
			c.restartAt = k
			cases = append(cases, c)
		}
		for _, o := range []string{"restart-mid-wait", "two-restarts-mid-wait"} {
			c := b
			c.order = o
			cases = append(cases, c)
			c.restartAt = 3
			cases = append(cases, c)
		}
		// messages of this swap, from its counterparty, that the waiting state does not accept
		var unacceptable []int
		switch {
		case b.role == "fee-waiter":
			unacceptable = []int{ref.MsgOpeningTxBroadcast, ref.MsgCoopClose, ref.MsgSwapOutAgreement, ref.MsgSwapInAgreement}
		case b.typ == "out":
			unacceptable = []int{ref.MsgOpeningTxBroadcast, ref.MsgCoopClose, ref.MsgSwapInAgreement}
		default:
			unacceptable = []int{ref.MsgOpeningTxBroadcast, ref.MsgCoopClose, ref.MsgSwapOutAgreement}
		}
		for _, m := range unacceptable {
			c := b
			c.order, c.disturb = "unacceptable-msg-mid-wait", m
			cases = append(cases, c)
		}
	}
	parallelDo(len(cases), 12, func(i int) { runC17(r, r.Seed*4099+int64(i)+1, cases[i]) })
	r.Extra["exhaustive"] = true
	r.Extra["exhaustive_note"] = "all (chain, requester role | fee-waiting responder) × restart after crossing 0..14 of the negotiation phase"
	r.Sample(map[string]any{"case": "btc swap-in requester, restart after crossing 5", "meaning": "initiator restarted while waiting for the agreement; 10 virtual minutes later it must be SwapCanceled and have sent cancel"})
}

// ---------------------------------------------------------------------------
// C16 with a scripted (misbehaving) taker: the peer answers once with something unusable and then stops responding

// runC16Scripted drives a real maker (both maker roles, both chains) to the point where its opening transaction is
// announced; the scripted taker then behaves as c.behave says and goes silent. The drain procedure follows (blocks past
// the CSV, timers, restarts); the swap must be terminal and the channel released.
func runC16Scripted(r *Run, seed int64, c c26Case, prop string) {
	rng := mrand.New(mrand.NewSource(seed))
	w := sim.NewWorld(seed)
	defer w.Close()
	m := w.AddNode("alice", sim.DefaultNodeConfig())
	p := w.AddPeer("mallory")
	w.LN.OpenChannel("100x1x0", m.ID, p.ID, 5_000_000_000, 5_000_000_000)
	if m.Start() != nil {
		r.Inconclusive("start")
		return
	}
	chain := w.BTC
	if c.chain == "lbtc" {
		chain = w.LBTC
	}
	takerKey, _ := btcec.NewPrivateKey()
	asset, network := "", ""
	if c.chain == "lbtc" {
		asset = hx(sim.PolicyAsset())
	} else {
		network = sim.BtcParams.Name
	}
	amount := uint64(300_000 + rng.Intn(300_000))
	var id *swap.SwapId
	if c.typ == "in" {
		sm, err, _ := m.SwapIn(p.ID, c.chain, "100x1x0", amount, 100000)
		if err != nil || sm == nil {
			r.Inconclusive("swapin failed")
			return
		}
		id = sm.SwapId
		w.Run()
		p.Send("alice", ref.MsgSwapInAgreement, &swap.SwapInAgreementMessage{ProtocolVersion: 7, SwapId: id, Pubkey: hx(takerKey.PubKey().SerializeCompressed()), Premium: 5})
		w.Run()
	} else {
		id = swap.NewSwapId()
		p.Send("alice", ref.MsgSwapOutRequest, &swap.SwapOutRequestMessage{ProtocolVersion: 7, SwapId: id, Asset: asset, Network: network, Scid: "100x1x0", Amount: amount, Pubkey: hx(takerKey.PubKey().SerializeCompressed()), PremiumLimit: 1_000_000})
		w.Run()
		ag := p.Take(ref.MsgSwapOutAgreement)
		if ag == nil {
			r.Inconclusive("no agreement")
			return
		}
		var a swap.SwapOutAgreementMessage
		json.Unmarshal(ag.Payload, &a)
		w.LN.PeerPay(p.ID, a.Payreq)
		w.Run()
	}
	ann := p.Take(ref.MsgOpeningTxBroadcast)
	if ann == nil {
		r.Inconclusive("no announcement")
		return
	}
	var opening swap.OpeningTxBroadcastedMessage
	json.Unmarshal(ann.Payload, &opening)
	switch c.behave {
	case "cancel":
		p.Send("alice", ref.MsgCancel, &swap.CancelMessage{SwapId: id, Message: "no"})
	case "coop-wrong-key":
		k, _ := btcec.NewPrivateKey()
		p.Send("alice", ref.MsgCoopClose, &swap.CoopCloseMessage{SwapId: id, Message: "x", Privkey: hx(k.Serialize())})
	case "coop-malformed-key":
		p.Send("alice", ref.MsgCoopClose, &swap.CoopCloseMessage{SwapId: id, Message: "x", Privkey: "zz"})
	case "coop-wrong-key-twice":
		for i := 0; i < 2; i++ {
			k, _ := btcec.NewPrivateKey()
			p.Send("alice", ref.MsgCoopClose, &swap.CoopCloseMessage{SwapId: id, Message: "x", Privkey: hx(k.Serialize())})
			w.Run()
		}
	}
	w.Run()
	state := func() string {
		if rec := m.StoredSwap(id.String()); rec != nil {
			return string(rec.Current)
		}
		return ""
	}
	afterPeer := state()
	if c.crash {
		// the node is restarted while it waits for the CSV to mature (the watchers keep their lists in memory only)
		if err := m.Restart(); err != nil {
			r.Inconclusive("restart: " + err.Error())
			return
		}
		w.Run()
	}
	// the drain procedure, in logical steps only
	rounds := 0
	for ; rounds < 6 && !isTerminal(state()); rounds++ {
		w.Advance(11 * time.Minute)
		w.Run()
		chain.Mine(int(ref.CSV(c.chain, 7)) + 2)
		w.Run()
		if rounds > 0 {
			if err := m.Restart(); err != nil {
				r.Inconclusive("restart: " + err.Error())
				return
			}
			w.Run()
			chain.Mine(2)
			w.Run()
		}
	}
	final := state()
	act := 0
	if inc := m.Inc(); inc != nil && inc.Svc != nil {
		act = len(inc.Svc.VerifActiveSwaps())
	}
	r.Eval()
	r.Count("scripted_peer_histories", 1)
	role := map[string]string{"in": "in/sender", "out": "out/receiver"}[c.typ]
	r.Seen(fmt.Sprintf("scripted-peer/%s/%s/%s/restart-while-waiting=%v/after-peer=%s/final=%s/rounds=%d", c.chain, role, c.behave, c.crash, afterPeer, final, rounds))
	if prop == "C07" {
		// the maker's locked funds: the announced output must have been spent by a transaction of the node itself
		sp := chain.SpentBy(sim.OutRef{TxID: opening.TxId, Vout: opening.ScriptOut})
		if sp == nil || sp.By != "alice" {
			r.Violate("refund-after-csv", fmt.Sprintf("C07|refund-never-broadcast|scripted-taker|%s|%s|peer=%s|restart-while-waiting=%v", c.chain, role, c.behave, c.crash),
				fmt.Sprintf("the CSV matured %d times over, the node was restarted, and the opening output %s:%d is still unspent (state %s, %s when the peer went silent); case %+v seed %d", rounds, opening.TxId, opening.ScriptOut, final, afterPeer, c, seed), traceOf(w))
		}
		return
	}
	if !isTerminal(final) {
		r.Violate("bounded-termination", fmt.Sprintf("C16|stuck|%s|%s/%s|peer=%s", c.chain, role, final, c.behave),
			fmt.Sprintf("after the drain procedure (6 rounds of timers, blocks past the CSV, restarts) the swap is still %s (it was %s when the peer went silent); case %+v seed %d", final, afterPeer, c, seed), traceOf(w))
	} else if act != 0 {
		r.Violate("channel-released", fmt.Sprintf("C16|terminal-but-channel-locked|%s|%s|%s", c.chain, role, final),
			fmt.Sprintf("swap is terminal but the active-swap map still holds %d entries; case %+v", act, c), traceOf(w))
	}
}
