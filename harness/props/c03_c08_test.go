package props

import (
	"bytes"
	"errors"
	"fmt"
	mrand "math/rand"
	"strings"
	"testing"
	"time"

	"github.com/elementsproject/peerswap/swap"
	"github.com/vulpemventures/go-elements/confidential"
	"github.com/vulpemventures/go-elements/elementsutil"
	"github.com/vulpemventures/go-elements/transaction"

	"verifharness/ref"
	"verifharness/sim"
)

// makerScenario runs one two-node swap to one of the endings and lets monitors subscribe first.
// endings: preimage | coop | csv | csv-early (csv callback delivered one block early first)
func makerScenario(r *Run, seed int64, chain, typ, ending string, attach func(p *pair)) *pair {
	// the responder's operator configured premium rates (the defaults are 0 ppm for swap-in, 2000 for swap-out)
	rates := []int64{0, 777, 2000, 10000, 50000}
	// in two of three Bitcoin worlds both nodes use the real CLN wallet adapter (over the fake lightningd / bitcoind),
	// with lightningd versions on both sides of the PSBT-version switch; otherwise the harness mirror of it
	adapter, clnVer := "", ""
	if chain == "btc" {
		switch seed % 5 {
		case 1, 2:
			adapter, clnVer = "cln", []string{"v24.08", "v23.02", "v23.05", "v25.02"}[(seed/5)%4]
		case 3, 4:
			adapter = "lnd" // the real lnd wallet adapter over fakes of its two rpc interfaces
		}
	}
	p := newPair(seed, pairOpts{chain: chain, typ: typ, cfgA: func(c *sim.NodeConfig) {
		c.BtcAdapter, c.CLNVersion = adapter, clnVer
	}, cfgB: func(c *sim.NodeConfig) {
		c.BtcAdapter, c.CLNVersion = adapter, clnVer
		prng := mrand.New(mrand.NewSource(seed ^ 0x9e37))
		c.PremiumPPM = map[string]int64{}
		for _, k := range []string{"btc/in", "btc/out", "lbtc/in", "lbtc/out"} {
			c.PremiumPPM[k] = rates[prng.Intn(len(rates))]
		}
	}})
	mk := p.maker()
	// an old wallet: every other funding transaction spends P2SH-wrapped segwit coins (real CLN adapter only)
	mk.BtcW.NestedInputs = func() bool { return p.rng.Intn(2) == 0 }
	// random funding layouts
	mk.BtcW.FundingLayout = func() (int, int, int) {
		ch := p.rng.Intn(3)
		return 1 + p.rng.Intn(5), p.rng.Intn(ch + 1), ch
	}
	// every third Bitcoin funding transaction also pays a second, different amount to the swap address,
	// before or after the swap output (a wallet batching two sends to one address)
	mk.BtcW.SameScriptExtra = func(amount uint64) (int64, bool) {
		switch p.rng.Intn(6) {
		case 0:
			return int64(amount/3) + 1, true
		case 1:
			return int64(amount) + 1000, p.rng.Intn(2) == 0
		}
		return 0, false
	}
	// in a third of the worlds the wallet's change outputs are larger than the swap output
	if p.rng.Intn(3) == 0 {
		mk.BtcW.ChangeValue = int64(p.amount)*2 + 12_345
	}
	mk.LbtcW.Layout = func() (int, int, bool) {
		ch := 1 + p.rng.Intn(2)
		return p.rng.Intn(ch + 1), ch, p.rng.Intn(4) == 0
	}
	if chain == "lbtc" && seed%3 == 0 {
		// from the moment the opening transaction is out, the Liquid wallets' fee estimation fails (elementsd's
		// estimatesmartfee erroring or timing out): the spends are built with the fallback fee
		p.w.Subscribe(func(e *sim.Event) {
			if e.Kind == "wallet.open" {
				if x, ok := e.P.(sim.EvTx); ok && x.Chain == "lbtc" && x.Err == "" {
					p.A.LbtcW.FeeErr, p.B.LbtcW.FeeErr = true, true
				}
			}
		})
	}
	if attach != nil {
		attach(p)
	}
	if err := p.startNodes(); err != nil {
		r.Inconclusive("start: " + err.Error())
		return p
	}
	if ending == "coop" {
		p.taker().Fault = func(op string) error {
			if op == "ln.rebalance" {
				return errors.New("injected: no route")
			}
			return nil
		}
	}
	if err := p.begin(0); err != nil {
		r.Inconclusive("begin: " + err.Error())
		return p
	}
	if p.slowStart {
		p.w.Step() // the request reaches the responder: both sides have created the swap
		time.Sleep(1100 * time.Millisecond)
	}
	p.w.Run()
	switch ending {
	case "preimage", "coop":
		p.mine(4)
	case "csv", "csv-early":
		p.taker().Crash()
		csv := int(ref.CSV(chain, 7))
		p.chainObj().Mine(1)
		p.w.Run()
		p.chainObj().Mine(csv - 3)
		p.w.Run()
		if ending == "csv-early" {
			// depth is csv-2 now; mine to csv-1 and deliver a premature "csv passed"
			p.chainObj().Mine(1)
			p.w.Run()
			inc := mk.Inc()
			mk.Call(func() { inc.Svc.OnCsvPassed(p.id) })
			p.w.Run()
		} else {
			p.chainObj().Mine(1)
			p.w.Run()
		}
		p.mine(2)
		if ending == "csv-early" {
			// the premature attempt exhausted its retries; a restart recovers into the refund
			mk.Restart()
			p.w.Run()
			p.mine(1)
		}
	}
	return p
}

// ---------------------------------------------------------------------------
// C08

type c08Obs struct {
	openTxID  string
	openHex   string
	copies    [][]byte
	claimInv  *sim.EvInvoice
	takerPub  []byte
	makerPub  []byte
	announced int
}

func c08Attach(r *Run, p *pair, seedInfo string) *c08Obs {
	o := &c08Obs{}
	mk := p.maker().Name
	p.w.Subscribe(func(e *sim.Event) {
		if e.Node != mk {
			return
		}
		switch e.Kind {
		case "wallet.open":
			x := e.P.(sim.EvTx)
			if x.Err == "" {
				o.openTxID, o.openHex = x.TxID, x.Hex
			}
		case "ln.invoice":
			x := e.P.(sim.EvInvoice)
			if x.Type == 1 {
				o.claimInv = &x
			}
		case "msg.send":
			m := e.P.(sim.EvMsg)
			if m.Type != ref.MsgOpeningTxBroadcast {
				return
			}
			o.announced++
			o.copies = append(o.copies, m.Payload)
			c08Judge(r, p, o, m.Payload, seedInfo)
		}
	})
	return o
}

func c08Judge(r *Run, p *pair, o *c08Obs, payload []byte, seedInfo string) {
	var msg swap.OpeningTxBroadcastedMessage
	if err := decodeMsg(payload, &msg); err != nil {
		r.Violate("decode", "C08|announcement-not-decodable", err.Error(), nil)
		return
	}
	tag := p.chain + "|" + p.typ
	if len(o.copies) > 1 && !bytes.Equal(o.copies[0], payload) {
		r.Violate("copies-identical", "C08|retransmitted-copy-differs|"+tag, seedInfo, nil)
	}
	// negotiated data from the maker's committed record
	rec := p.maker().StoredSwapLocked(p.id)
	if rec == nil {
		r.Violate("record", "C08|no-record-at-announcement|"+tag, seedInfo, nil)
		return
	}
	takerPub, makerPub := unhex(rec.Data.GetTakerPubkey()), unhex(rec.Data.GetMakerPubkey())
	var claimSat, openSat uint64
	if p.typ == "out" {
		openSat = rec.Data.SwapOutRequest.Amount
		claimSat = uint64(int64(openSat) + rec.Data.SwapOutAgreement.Premium)
	} else {
		claimSat = rec.Data.SwapInRequest.Amount
		openSat = uint64(int64(claimSat) + rec.Data.SwapInAgreement.Premium)
	}
	if msg.TxId != o.openTxID || o.openTxID == "" {
		r.Violate("txid", "C08|txid-not-the-broadcast-tx|"+tag, fmt.Sprintf("announced %s, wallet broadcast %s (%s)", msg.TxId, o.openTxID, seedInfo), nil)
		return
	}
	inv := p.w.LN.InvoiceLocked(msg.Payreq)
	if inv == nil {
		r.Violate("invoice", "C08|payreq-unknown|"+tag, seedInfo, nil)
		return
	}
	if inv.Msat != claimSat*1000 {
		r.Violate("invoice", "C08|invoice-amount|"+tag, fmt.Sprintf("invoice %d msat, claim amount %d sat (%s)", inv.Msat, claimSat, seedInfo), nil)
	}
	wantExp, wantCltv := uint64(86400), int64(503)
	if p.chain == "lbtc" {
		wantExp, wantCltv = 3600, 29
	}
	if inv.Expiry != wantExp || inv.Cltv != wantCltv {
		r.Violate("invoice", fmt.Sprintf("C08|invoice-expiry-cltv|%s|%d/%d", tag, inv.Expiry, inv.Cltv), seedInfo, nil)
	}
	csv := ref.CSV(p.chain, 7)
	want := refPk(takerPub, makerPub, unhex(inv.Hash), csv)
	ct := p.chainObj().TxLocked(o.openTxID)
	if ct == nil {
		r.Violate("gt", "C08|announced-tx-not-on-chain|"+tag, seedInfo, nil)
		return
	}
	// the swap output: pays the swap script and (where the value is visible) the negotiated amount; a tx may
	// pay the same script a second time with another value
	idx := -1
	for i, out := range ct.Outs {
		if bytes.Equal(out.Script, want) && (p.chain != "btc" || out.Value == int64(openSat)) {
			idx = i
			break
		}
	}
	if idx < 0 {
		for i, out := range ct.Outs {
			if bytes.Equal(out.Script, want) {
				idx = i
				break
			}
		}
	}
	if idx < 0 {
		r.Violate("script", "C08|no-output-locks-invoice-hash|"+tag, "the broadcast tx has no output with the script of (maker, taker, hash of the announced invoice, csv) "+seedInfo, nil)
		return
	}
	nOut := len(ct.Outs)
	r.Seen(fmt.Sprintf("%s/swap-output-index=%d/outputs=%d/inputs=%d", tag, idx, nOut, len(ct.Ins)))
	if int(msg.ScriptOut) != idx {
		r.Violate("script_out", fmt.Sprintf("C08|script_out-wrong|%s|announced=%d", tag, msg.ScriptOut),
			fmt.Sprintf("announced script_out=%d but the swap output is at index %d of %d outputs (%s)", msg.ScriptOut, idx, nOut, seedInfo), nil)
	}
	if p.chain == "btc" {
		if msg.BlindingKey != "" {
			r.Violate("blinding", "C08|btc-blinding-key-not-empty", seedInfo, nil)
		}
		if ct.Outs[idx].Value != int64(openSat) {
			r.Violate("amount", "C08|output-value|"+tag, fmt.Sprintf("output %d sat, negotiated %d", ct.Outs[idx].Value, openSat), nil)
		}
		return
	}
	bk := unhex(msg.BlindingKey)
	if len(bk) != 32 {
		r.Violate("blinding", "C08|blinding-key-length|"+tag, seedInfo, nil)
		return
	}
	ub, err := confidential.UnblindOutputWithKey(ct.Outs[idx].Raw.(*transaction.TxOutput), bk)
	if err != nil {
		r.Violate("blinding", "C08|blinding-key-does-not-unblind|"+tag, err.Error()+" "+seedInfo, nil)
		return
	}
	if ub.Value != openSat || !bytes.Equal(ub.Asset, policyAssetID()) {
		r.Violate("amount", "C08|unblinded-value-or-asset|"+tag, fmt.Sprintf("value %d asset %x, negotiated %d", ub.Value, ub.Asset, openSat), nil)
	}
}

func TestC08(t *testing.T) {
	r := newRun(t, "C08", "exploration")
	defer r.Finish()
	r.Rule = "one real two-node swap per (chain, swap type, wallet funding layout drawn from the seed: 1-5 inputs, swap output at index 0-2, 0-2 change outputs, fee output first/last on Liquid); monitor at every outgoing opening_tx_broadcasted compares tx id, script_out, invoice (amount, hash, expiry, cltv) and blinding key with the transaction the simulated wallet really broadcast. distinct = (chain, type, swap output index, #outputs, #inputs)"
	r.Assumptions = []string{"Bitcoin wallet adapter by world (seed mod 5): the real clightning wallet methods (clightning_wallet.go) over a fake lightningd (txprepare/txsend/setpsbtversion/newaddr) and a fake bitcoind (sendrawtransaction), the real lnd wallet methods (lnd_wallet.go) over fakes of the wallet-kit and lightning rpc interfaces, or the harness mirror of the CLN adapter over the real onchain.BitcoinOnChain helpers; Liquid uses the real LiquidOnChain over a simulated elementsd wallet", "go-elements UnblindOutputWithKey is the unblinding oracle"}
	n := r.N(24, 600)
	announced := 0
	parallelDo(n, 12, func(i int) {
		ct := allChainTypes[i%4]
		seed := r.Seed*7919 + int64(i) + 1
		var o *c08Obs
		p := makerScenario(r, seed, ct.chain, ct.typ, "preimage", func(p *pair) {
			o = c08Attach(r, p, fmt.Sprintf("seed=%d case=%d", seed, i))
			// the first swap of every (chain, type) takes its time: more than a second between the creation of the
			// swap and the funding (a slow peer / a fee invoice paid a little later)
			p.slowStart = i < 4
		})
		r.Eval()
		r.mu.Lock()
		announced += o.announced
		r.mu.Unlock()
		if i < 4 {
			r.Sample(map[string]any{"chain": ct.chain, "type": ct.typ, "open_txid": o.openTxID, "announcements": o.announced, "final_states": p.state(p.A) + "/" + p.state(p.B)})
		}
		p.w.Close()
	})
	r.Extra["announcements_checked"] = announced
	r.Require(announced >= n, fmt.Sprintf("only %d announcements observed in %d swaps", announced, n))
}

// ---------------------------------------------------------------------------
// C03

func c03Attach(r *Run, p *pair, seedInfo string, seen map[string]int) {
	p.w.Subscribe(func(e *sim.Event) {
		if e.Kind != "chain.accept" && e.Kind != "chain.reject" {
			return
		}
		x := e.P.(sim.EvTx)
		if x.Op == "open" || x.Op == "raw" {
			return
		}
		node := p.w.Nodes[e.Node]
		if node == nil {
			return
		}
		tag := p.chain + "|" + x.Op
		if e.Kind == "chain.reject" {
			seen[x.Op+"-rejected"]++
			bip68 := strings.Contains(x.Err, "non-BIP68-final")
			r.Seen(fmt.Sprintf("%s/%s/rejected/%s", p.chain, x.Op, map[bool]string{true: "bip68", false: "other"}[bip68]))
			if strings.Contains(x.Err, "injected") || strings.Contains(x.Err, "already in block chain") {
				return
			}
			if !(x.Op == "csv" && bip68) {
				r.Violate("valid", fmt.Sprintf("C03|spend-rejected-by-consensus|%s", tag), fmt.Sprintf("the %s spend built by %s was rejected: %s (%s)", x.Op, e.Node, x.Err, seedInfo), nil)
			}
			return
		}
		seen[x.Op]++
		ct := p.chainObj().TxLocked(x.TxID)
		// single input spending the swap output of the opening tx
		if len(ct.Ins) != 1 {
			r.Violate("shape", "C03|inputs!=1|"+tag, seedInfo, nil)
			return
		}
		open := p.chainObj().TxLocked(ct.Ins[0].TxID)
		rec := node.StoredSwapLocked(p.id)
		if open == nil || rec == nil {
			r.Violate("shape", "C03|spends-unknown-tx|"+tag, seedInfo, nil)
			return
		}
		var openSat uint64
		if p.typ == "out" {
			openSat = rec.Data.SwapOutRequest.Amount
		} else {
			openSat = uint64(int64(rec.Data.SwapInRequest.Amount) + rec.Data.SwapInAgreement.Premium)
		}
		inv := p.w.LN.InvoiceLocked(rec.Data.OpeningTxBroadcasted.Payreq)
		want := refPk(unhex(rec.Data.GetTakerPubkey()), unhex(rec.Data.GetMakerPubkey()), unhex(inv.Hash), ref.CSV(p.chain, 7))
		if !bytes.Equal(open.Outs[ct.Ins[0].Vout].Script, want) {
			r.Violate("spends-swap-output", "C03|spends-other-output|"+tag, seedInfo, nil)
		}
		r.Seen(fmt.Sprintf("%s/%s/%s/accepted/vout=%d", p.chain, p.typ, x.Op, ct.Ins[0].Vout))
		if x.Op == "csv" {
			if ct.Seqs[0] != ref.CSV(p.chain, 7) || ct.Version < 2 {
				r.Violate("csv-sequence", fmt.Sprintf("C03|csv-sequence|%s|seq=%d|v=%d", p.chain, ct.Seqs[0], ct.Version), seedInfo, nil)
			}
			depth := x.Tip + 1 - open.Height
			if open.Height == 0 || depth < ref.CSV(p.chain, 7) {
				r.Violate("csv-not-before", "C03|csv-accepted-early|"+p.chain, fmt.Sprintf("depth %d", depth), nil)
			}
		}
		// outputs
		if p.chain == "btc" {
			if len(ct.Outs) != 1 {
				r.Violate("shape", "C03|outputs!=1|"+tag, seedInfo, nil)
				return
			}
			if !node.BtcW.OwnsScriptLocked(ct.Outs[0].Script) {
				r.Violate("own-address", "C03|pays-foreign-script|"+tag, fmt.Sprintf("script %x (%s)", ct.Outs[0].Script, seedInfo), nil)
			}
			fee := int64(openSat) - ct.Outs[0].Value
			if fee <= 0 || fee > int64(openSat)/2 {
				r.Violate("fee-only", fmt.Sprintf("C03|deducts-more-than-fee|%s", tag), fmt.Sprintf("swap amount %d, output %d (%s)", openSat, ct.Outs[0].Value, seedInfo), nil)
			}
			r.CountIn("btc_fee_sats", fmt.Sprintf("%s=%d", x.Op, fee))
			return
		}
		lt := ct.Raw.(*transaction.Transaction)
		var nonFee []*transaction.TxOutput
		var feeSat uint64
		for _, o := range lt.Outputs {
			if len(o.Script) == 0 {
				v, _ := elementsutil.ValueFromBytes(o.Value)
				feeSat += v
				if !bytes.Equal(o.Asset, sim.PolicyAsset()) {
					r.Violate("fee-asset", "C03|fee-not-policy-asset|"+tag, seedInfo, nil)
				}
				continue
			}
			nonFee = append(nonFee, o)
		}
		if len(nonFee) != 1 {
			r.Violate("shape", "C03|outputs!=1|"+tag, seedInfo, nil)
			return
		}
		own := node.LbtcW.OwnLocked(nonFee[0].Script)
		if own == nil {
			r.Violate("own-address", "C03|pays-foreign-script|"+tag, seedInfo, nil)
			return
		}
		ub, err := confidential.UnblindOutputWithKey(nonFee[0], own.BlindKey.Serialize())
		if err != nil {
			r.Violate("own-address", "C03|output-not-unblindable-by-wallet|"+tag, err.Error(), nil)
			return
		}
		if !bytes.Equal(ub.Asset, policyAssetID()) {
			r.Violate("asset", "C03|output-asset|"+tag, seedInfo, nil)
		}
		if feeSat == 0 || ub.Value+feeSat != openSat {
			r.Violate("fee-only", "C03|deducts-more-than-fee|"+tag, fmt.Sprintf("swap amount %d, output %d, fee %d (%s)", openSat, ub.Value, feeSat, seedInfo), nil)
		}
		if !confidential.VerifySurjectionProof(confidential.VerifySurjectionProofArgs{
			InputAssets: [][]byte{policyAssetID()}, InputAssetBlindingFactors: [][]byte{c03InputAbf(open.Outs[ct.Ins[0].Vout].Raw.(*transaction.TxOutput), rec)},
			OutputAsset: ub.Asset, OutputAssetBlindingFactor: ub.AssetBlindingFactor, Proof: nonFee[0].SurjectionProof}) {
			r.Violate("proofs", "C03|surjection-proof-invalid|"+tag, seedInfo, nil)
		}
	})
}

// c03InputAbf unblinds the spent opening output with the swap's blinding key to learn its asset blinding factor.
func c03InputAbf(o *transaction.TxOutput, rec *swap.SwapStateMachine) []byte {
	if !o.IsConfidential() {
		return make([]byte, 32)
	}
	ub, err := confidential.UnblindOutputWithKey(o, unhex(rec.Data.OpeningTxBroadcasted.BlindingKey))
	if err != nil {
		return make([]byte, 32)
	}
	return ub.AssetBlindingFactor
}

func TestC03(t *testing.T) {
	r := newRun(t, "C03", "exploration")
	defer r.Finish()
	r.Rule = "real two-node swaps driven to each ending (preimage claim by the taker, cooperative claim after an injected payment failure, CSV refund after the taker died, CSV refund attempted one block early) × chain × swap type × wallet funding layout; every spending transaction handed to the chain simulator is judged by consensus script execution (btcd engine / template interpreter with Elements sighash), BIP68, and by the output/fee/ownership oracle. distinct = (chain, type, spend kind, accepted/rejected reason, spent output index)"
	r.Assumptions = []string{"Bitcoin wallet adapter by world (seed mod 5): the real clightning wallet methods over a fake lightningd / bitcoind (lightningd versions v23.02, v23.05, v24.08, v25.02; native and P2SH-wrapped segwit funding coins), the real lnd wallet methods over fakes of the wallet-kit and lightning rpc interfaces, or the harness mirror of the CLN adapter over the real onchain.BitcoinOnChain helpers", "chain simulator enforces script validity (btcd engine; template interpreter for Liquid), BIP68 and range proofs"}
	endings := []string{"preimage", "coop", "csv", "csv-early"}
	n := r.N(128, 1280)
	seen := map[string]int{}
	var smu = &r.mu
	parallelDo(n, 12, func(i int) {
		ct := allChainTypes[i%4]
		ending := endings[(i/4)%4]
		seed := r.Seed*104729 + int64(i) + 1
		local := map[string]int{}
		p := makerScenario(r, seed, ct.chain, ct.typ, ending, func(p *pair) { c03Attach(r, p, fmt.Sprintf("seed=%d ending=%s", seed, ending), local) })
		r.Eval()
		smu.Lock()
		for k, v := range local {
			seen[k] += v
		}
		smu.Unlock()
		if i%4 == 0 && i < 16 {
			r.Sample(map[string]any{"chain": ct.chain, "type": ct.typ, "ending": ending, "spends": local, "final": p.state(p.A) + "/" + p.state(p.B)})
		}
		p.w.Close()
	})
	r.Extra["spends_by_kind"] = seen
	for _, k := range []string{"preimage", "coop", "csv", "csv-rejected"} {
		r.Require(seen[k] >= n/8, fmt.Sprintf("only %d %s spends observed", seen[k], k))
	}
}
