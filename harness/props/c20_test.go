package props

import (
	"context"
	"errors"
	"fmt"
	mrand "math/rand"
	"sync"
	"sync/atomic"
	"testing"
	"time"

	"github.com/elementsproject/peerswap/lnd"
	"github.com/elementsproject/peerswap/lwk"
	"github.com/elementsproject/peerswap/onchain"
	"github.com/elementsproject/peerswap/swap"
	"github.com/elementsproject/peerswap/txwatcher"

	"verifharness/sim"
)

type c20Report struct {
	kind    string // confirmed | failed | csv
	swap    string
	rawTx   string
	ret     error // what the consumer answered
	verLow  int64 // lowest chain version among the watcher's recent answers
	verHigh int64
	at      time.Time
}

type c20Watch interface {
	AddWaitForConfirmationTx(swapID, txID string, vout, startingHeight, paymentWindow uint32, scriptpubkey []byte)
	AddWaitForCsvTx(swapID, txID string, vout, startingHeight, csv uint32, scriptpubkey []byte)
	AddConfirmationCallback(func(swapId string, txHex string, err error) error)
	AddCsvCallback(func(swapId string) error)
	StartWatchingTxs() error
}

type c20Case struct {
	backend  string // bitcoind | elementsd | electrum
	pattern  string
	offset   uint32
	reject   int // the consumer rejects the first n reports
	seed     int64
	// C18 reuses these worlds as "is the watcher still processing chain notifications afterwards?" probes:
	slow  time.Duration // the consumer of a confirmation report takes this long (a taker paying the invoice)
	probe func(watch c20Watch, chain *sim.Chain, offset uint32, pause func(), reports func() []c20Report)
}

// runC20 drives one block history against a real watcher and judges every report.
func runC20(r *Run, c c20Case) {
	rng := mrand.New(mrand.NewSource(c.seed))
	w := sim.NewWorld(c.seed)
	defer w.Close()
	chain := w.LBTC
	confs := uint32(2)
	if c.backend == "bitcoind" || c.backend == "lnd" {
		chain, confs = w.BTC, 3
	}
	isLnd := c.backend == "lnd"
	chain.KeepHistory = true
	chain.HeightOffset = c.offset
	chain.Mine(1)
	ctx, cancel := context.WithCancel(context.Background())
	defer cancel()
	var watch c20Watch
	var rpc *sim.RpcFacade
	var el *sim.ElectrumFacade
	var lf *sim.LndChainFake
	var regVer atomic.Int64
	recent := func() (int64, int64) {
		if lf != nil {
			lo, _ := lf.RecentVersion(6)
			return lo, chain.VersionNow()
		}
		if rpc != nil {
			// The rpc watcher hands every new height to its observation loops through one goroutine per height:
			// a loop may work on any height it was told since the registration, in any order, however old. The
			// versions it can have looked at therefore start at the registration (set below).
			return regVer.Load(), chain.VersionNow()
		}
		lo, _ := el.RecentVersion(6)
		return lo, chain.VersionNow()
	}
	// interleaving hook: blocks / reorgs / errors between individual RPC calls
	var hookMu sync.Mutex
	budget := 6
	mode := c.pattern
	lateTx := ""
	hrng := mrand.New(mrand.NewSource(c.seed ^ 0x5bd1e995)) // the hook runs on the watcher's goroutines
	hook := func(call string) error {
		hookMu.Lock()
		defer hookMu.Unlock()
		rng := hrng
		switch mode {
		case "blocks-between-calls":
			if budget > 0 && rng.Intn(3) == 0 {
				budget--
				chain.Mine(1 + rng.Intn(2))
			}
		case "reorg-between-calls":
			if budget > 0 && rng.Intn(5) == 0 {
				budget--
				chain.Reorg(1+rng.Intn(2), rng.Intn(2), rng.Intn(2) == 0)
			}
		case "transient-errors":
			if rng.Intn(4) == 0 {
				return errors.New("injected: rpc timeout")
			}
		case "confirm-late-between-calls":
			// the tx sits in the mempool; right before a height lookup one empty block and then the block
			// confirming the tx arrive
			if lateTx != "" && (call == "getblockcount" || call == "get_history" || call == "getinfo" || call == "registerconf") && budget > 0 && rng.Intn(2) == 0 {
				budget = 0
				chain.Mine(1)
				chain.Confirmable(lateTx)
				chain.Mine(1)
			}
		}
		return nil
	}
	if c.backend == "electrum" {
		el = &sim.ElectrumFacade{C: chain, Hook: hook}
		ew, err := lwk.NewElectrumTxWatcher(el)
		if err != nil {
			r.Inconclusive(err.Error())
			return
		}
		watch = ew
	} else if isLnd {
		// the real lnd tx watcher over a fake of lnd's chain notifier and GetInfo
		lf = &sim.LndChainFake{C: chain, Hook: hook}
		watch = lnd.VerifNewTxWatcher(ctx, lf, lf, sim.BtcParams, confs, onchain.BitcoinCsv)
	} else {
		rpc = &sim.RpcFacade{C: chain, Hook: hook}
		watch = txwatcher.NewBlockchainRpcTxWatcher(ctx, rpc, confs)
	}
	var mu sync.Mutex
	var reports []c20Report
	rejectLeft := c.reject
	consumer := func(kind, id, raw string) error {
		if c.slow > 0 && (kind == "confirmed" || c.pattern == "header-burst-slow-consumer") {
			time.Sleep(c.slow)
		}
		lo, hi := recent()
		mu.Lock()
		defer mu.Unlock()
		var ret error
		if rejectLeft > 0 {
			rejectLeft--
			ret = errors.New("consumer busy")
		}
		reports = append(reports, c20Report{kind: kind, swap: id, rawTx: raw, ret: ret, verLow: lo, verHigh: hi, at: time.Now()})
		return ret
	}
	watch.AddConfirmationCallback(func(id, raw string, err error) error {
		if err != nil {
			return consumer("failed", id, err.Error())
		}
		return consumer("confirmed", id, raw)
	})
	watch.AddCsvCallback(func(id string) error { return consumer("csv", id, "") })
	if err := watch.StartWatchingTxs(); err != nil {
		r.Inconclusive("start watcher: " + err.Error())
		return
	}
	pause := func() {
		if el != nil {
			el.NotifyTip()
		}
		time.Sleep(time.Duration(3+rng.Intn(4)) * time.Millisecond)
	}
	// the watched transaction: one P2WSH-looking output
	script := append([]byte{0x00, 0x20}, randBytes(32)...)
	var txHex string
	if chain == w.BTC {
		txHex, _ = buildBtcTx(1, []outSpec{{Script: script, Value: 100_000}, {Script: p2wpkhScript(), Value: 5_000}})
	} else {
		txHex, _, _ = buildLiquidTx(1, []outSpec{{Script: script, Value: 100_000, Explicit: true}})
	}
	swapID := swap.NewSwapId().String()
	csvID := swap.NewSwapId().String()
	start := chain.Height() + c.offset
	window := uint32(pick(rng, 6, 10, 60))
	csv := uint32(pick(rng, 4, 6, 9))
	if isLnd {
		csv = onchain.BitcoinCsv // the lnd watcher takes its csv target at construction
	}
	var tx *sim.ChainTx
	bcast := func() {
		if tx == nil {
			tx, _ = chain.AddWalletTx(txHex, "maker", "open")
		}
	}
	switch c.pattern {
	case "confirmed-before-start":
		bcast()
		chain.Mine(2)
		start = chain.Height() + c.offset
	case "registered-after-the-fact":
		bcast()
		chain.Mine(int(confs) + 1)
	case "stale-header-after-late-registration":
		// the tx confirmed inside the window, but the registration comes when the window has just closed (tip =
		// start+window or one more) and the watcher has already seen that tip
		bcast()
		chain.Mine(int(window) + rng.Intn(2))
		pause()
	case "confirm-late-between-calls":
		bcast()
		if tx != nil {
			chain.Unconfirmable(tx.ID)
			hookMu.Lock()
			lateTx = tx.ID
			hookMu.Unlock()
		}
	}
	if tx == nil && c.pattern != "never-broadcast" {
		bcast()
	}
	txid := hx(randBytes(32))
	if tx != nil {
		txid = tx.ID
	}
	regVer.Store(chain.VersionNow())
	watch.AddWaitForConfirmationTx(swapID, txid, 0, start, window, script)
	watch.AddWaitForCsvTx(csvID, txid, 0, start, csv, script)
	pause()
	steps := 6 + rng.Intn(8)
	edgeK := rng.Intn(6)
	if c.pattern == "window-edge" {
		steps = int(window) + 3
	}
	for s := 0; s < steps; s++ {
		switch c.pattern {
		case "reorg":
			if s == 2 || s == 5 {
				chain.Reorg(1+rng.Intn(2), rng.Intn(2), s == 5)
			} else {
				chain.Mine(1)
			}
		case "stale-bestblock":
			if rpc != nil && rng.Intn(2) == 0 {
				rpc.StaleBest = 1 + rng.Intn(2)
			}
			chain.Mine(1)
		case "header-burst-slow-consumer":
			// several blocks, each announced on its own and back to back, while the consumer of a report takes 5 ms
			for k := 0; k < 2+rng.Intn(3); k++ {
				chain.Mine(1)
				if el != nil {
					el.NotifyTip()
				}
			}
		case "stale-header-after-late-registration":
			if s == 0 && el != nil {
				// a header announcement of an older height (lagging server) right after the registration, still inside
				// the window; the true tip follows
				el.Notify(int32(start+window) - 1 - int32(rng.Intn(2)))
			} else {
				chain.Mine(1)
			}
		case "burst":
			chain.Mine(1 + rng.Intn(4))
		case "out-of-order-notifications":
			chain.Mine(1)
			if el != nil {
				el.Notify(int32(chain.Height()+c.offset) - int32(rng.Intn(3)))
			}
		case "window-edge":
			if s < int(window)-edgeK {
				// hold the tx back so that it confirms right at the edge: with its required depth reached a few
				// blocks before, exactly at, or after the deadline
				if tx != nil && s == 0 {
					chain.Unconfirmable(tx.ID)
				}
			} else if tx != nil {
				chain.Confirmable(tx.ID)
			}
			chain.Mine(1)
		default:
			chain.Mine(1)
		}
		pause()
	}
	if isLnd && c.pattern != "never-broadcast" {
		// the only csv target of the lnd watcher is the Bitcoin one: go on until the output is that deep, in uneven
		// chunks around the 144-confirmation hand-over and around maturity
		for _, n := range []int{100, 40, 3, 1, 1, 500, 350, 8, 1, 1, 1, 1, 2, 5} {
			chain.Mine(n)
			pause()
		}
	}
	hookMu.Lock()
	mode = "quiet"
	hookMu.Unlock()
	// let the watcher finish its passes
	for i := 0; i < 4; i++ {
		pause()
	}
	time.Sleep(15 * time.Millisecond)
	if c.probe != nil {
		c.probe(watch, chain, c.offset, pause, func() []c20Report {
			mu.Lock()
			defer mu.Unlock()
			return append([]c20Report(nil), reports...)
		})
		cancel()
		return
	}
	// the bounded clause below ("a report exists once the window has been closed for 3 blocks") must not be decided
	// by how fast this machine is: if the report is still missing, give the watcher up to 8 more seconds of passes
	if uint64(chain.Height())+uint64(c.offset) >= uint64(start)+uint64(window)+3 && c.reject == 0 && !isLnd {
		for t0 := time.Now(); time.Since(t0) < 8*time.Second; {
			mu.Lock()
			got := false
			for _, rp := range reports {
				if rp.swap == swapID && rp.ret == nil && (rp.kind == "confirmed" || rp.kind == "failed") {
					got = true
				}
			}
			mu.Unlock()
			if got {
				break
			}
			pause()
		}
	}
	cancel()
	// ---- oracle ---------------------------------------------------------------------
	mu.Lock()
	defer mu.Unlock()
	r.Eval()
	tag := c.backend + "|" + c.pattern
	accepted := map[string]int{}
	finalTip := uint64(chain.Height()) + uint64(c.offset)
	seenKinds := map[string]bool{}
	for _, rep := range reports {
		seenKinds[rep.kind] = true
		if rep.ret == nil {
			accepted[rep.kind+rep.swap]++
		}
		snaps := chain.SnapsSince(rep.verLow)
		var last []sim.ChainSnap
		for _, s := range snaps {
			if s.Version <= rep.verHigh {
				last = append(last, s)
			}
		}
		det := func(s string) string {
			return fmt.Sprintf("%s; report %s for %s with the watcher's recent answers spanning chain versions [%d,%d]: %s; start %d window %d csv %d; case %+v", s, rep.kind, rep.swap[:8], rep.verLow, rep.verHigh, c20Describe(last, txid, c.offset), start, window, csv, c)
		}
		switch rep.kind {
		case "confirmed":
			ok := false
			for _, s := range last {
				h := s.Heights[txid]
				tip := uint64(s.Tip) + uint64(c.offset)
				// (the lnd watcher has no payment-window parameter: its window is "fewer than csv/2 confirmations")
				if h != 0 && s.Tip-h+1 >= confs && (tip < uint64(start)+uint64(window) || (isLnd && s.Tip-h+1 < onchain.BitcoinCsvSafetyLimit)) {
					ok = true
				}
			}
			if tx == nil || rep.rawTx != tx.Hex {
				r.Violate("confirmed-only-when-true", "C20|confirmed-with-wrong-raw-tx|"+c.backend, det("raw tx differs from the watched transaction"), nil)
			} else if !ok {
				r.Violate("confirmed-only-when-true", "C20|confirmed-without-required-depth-or-after-window|"+tag, det("in no chain version the watcher can have looked at was the tx on the best chain with the required depth while the window was open"), nil)
			}
		case "csv":
			ok := false
			for _, s := range last {
				h := s.Heights[txid]
				if h != 0 && s.Tip-h+1 >= csv && !s.Spent[txid+":0"] {
					ok = true
				}
			}
			if !ok {
				r.Violate("csv-only-when-mature", "C20|csv-reported-before-maturity|"+tag, det("the watched output was never csv blocks deep in the versions the watcher looked at"), nil)
			}
		case "failed":
			// a failure is always safe; whether it was *due* is the bounded clause below
		}
	}
	for k, n := range accepted {
		if n > 1 {
			r.Violate("at-most-once", "C20|registration-reported-twice|"+tag, fmt.Sprintf("%d accepted reports for %s; case %+v", n, k[:12], c), nil)
		}
	}
	// bounded clause: the window closed long ago (>= 3 passes) and nothing was reported for the confirmation registration
	closed := finalTip >= uint64(start)+uint64(window)+3
	gotConf := accepted["confirmed"+swapID] + accepted["failed"+swapID]
	if closed && gotConf == 0 && c.reject == 0 && c.pattern != "transient-errors" && !isLnd {
		r.Violate("failure-after-window", "C20|no-report-although-window-closed|"+tag, fmt.Sprintf("tip %d, deadline %d, no accepted confirmation or failure report; case %+v", finalTip, uint64(start)+uint64(window), c), nil)
	}
	kinds := ""
	for _, k := range []string{"confirmed", "failed", "csv"} {
		if seenKinds[k] {
			kinds += k[:2]
		}
	}
	r.Seen(fmt.Sprintf("%s/%s/reports=%s/offset=%v/reject=%d", c.backend, c.pattern, kinds, c.offset != 0, c.reject))
	r.Count("reports_judged", len(reports))
	for k := range seenKinds {
		r.CountIn("reports_by_kind", c.backend+"/"+k)
	}
}

func c20Describe(snaps []sim.ChainSnap, txid string, off uint32) string {
	s := ""
	for i, sn := range snaps {
		if i > 8 {
			s += " ..."
			break
		}
		h := sn.Heights[txid]
		d := uint32(0)
		if h != 0 {
			d = sn.Tip - h + 1
		}
		s += fmt.Sprintf(" v%d(tip %d depth %d)", sn.Version, uint64(sn.Tip)+uint64(off), d)
	}
	return s
}

func TestC20(t *testing.T) {
	txwatcher.VerifSetPolling(time.Millisecond, time.Millisecond)
	r := newRun(t, "C20", "exploration")
	defer r.Finish()
	r.Rule = "the real BlockchainRpcTxWatcher (bitcoind: 3 confirmations, elementsd: 2) and the real LWK Electrum watcher run over facades of the chain simulator that stamp every RPC answer with the chain version; generated block histories: plain, bursts, blocks or reorganisations between the individual RPC calls of one observation pass, reorganisations that unconfirm / re-confirm the tx, stale bestblock answers, transient RPC errors, tx confirmed before the window start, registration after the fact, confirmation right at the window edge, never-broadcast tx, out-of-order header notifications, several headers announced back to back while the consumer of a report is slow, heights just below 2^32, and a consumer that rejects the first reports. The real lnd tx watcher runs over a fake of lnd's chain notifier (conf events at 3 confirmations, block epochs, GetInfo) with histories that go on past 144 and 1008 confirmations. Oracle per report: some chain version among those the watcher can have looked at satisfies the reported fact; at most one accepted report per registration; a failure (or confirmation) exists once the window is closed for 3 blocks. distinct = (backend, pattern, kinds of reports, offset, rejections)"
	r.Assumptions = []string{"the rpc watcher can have looked at any chain version since the registration (it hands heights to its observation loops through one goroutine per height, in no particular order); the Electrum watcher at the versions of its last 6 answers and of the header it is processing; the lnd watcher at the versions of its last 6 answers / events", "wall-clock sleeps only give the polling watcher time to run; verdicts depend on version stamps, not on time"}
	patterns := []string{"plain", "burst", "blocks-between-calls", "reorg", "reorg-between-calls", "stale-bestblock", "transient-errors", "confirmed-before-start", "registered-after-the-fact", "window-edge", "never-broadcast", "out-of-order-notifications", "confirm-late-between-calls", "header-burst-slow-consumer", "stale-header-after-late-registration"}
	var cases []c20Case
	reps := r.N(16, 240)
	i := 0
	for _, be := range []string{"bitcoind", "elementsd", "electrum"} {
		for _, p := range patterns {
			if be == "electrum" && (p == "stale-bestblock") {
				continue
			}
			if be != "electrum" && (p == "out-of-order-notifications" || p == "header-burst-slow-consumer" || p == "stale-header-after-late-registration") {
				continue
			}
			for k := 0; k < reps; k++ {
				c := c20Case{backend: be, pattern: p, seed: r.Seed*7723 + int64(i) + 1, reject: pick(mrand.New(mrand.NewSource(int64(i))), 0, 0, 0, 1, 2)}
				if p == "header-burst-slow-consumer" {
					c.slow, c.reject = 5*time.Millisecond, 0
				}
				if k%4 == 3 {
					c.offset = 1<<32 - 1 - 1001 - 200
					if be == "electrum" {
						c.offset = 1<<31 - 1 - 1001 - 200 // electrum heights are int32
					}
				}
				cases = append(cases, c)
				i++
			}
		}
	}
	// the real lnd tx watcher over a fake chain notifier (Bitcoin only; no payment-window parameter, csv fixed at 1008)
	for _, p := range []string{"plain", "burst", "blocks-between-calls", "reorg", "reorg-between-calls", "confirmed-before-start", "registered-after-the-fact", "never-broadcast", "confirm-late-between-calls"} {
		for k := 0; k < r.N(3, 40); k++ {
			cases = append(cases, c20Case{backend: "lnd", pattern: p, seed: r.Seed*7723 + int64(i) + 1})
			i++
		}
	}
	parallelDo(len(cases), 16, func(i int) { runC20(r, cases[i]) })
	rj, _ := r.Extra["reports_judged"].(int)
	r.Sample(map[string]any{"backend": "bitcoind", "pattern": "blocks-between-calls", "meaning": "a block is mined between getblockcount and gettxout of one observation pass"})
	r.Require(rj >= len(cases), fmt.Sprintf("only %d reports judged in %d histories", rj, len(cases)))
}
