//go:build race

package props

const raceEnabled = true
