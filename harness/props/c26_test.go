package props

import (
	"context"
	"encoding/json"
	"fmt"
	mrand "math/rand"
	"os"
	"path/filepath"
	"sort"
	"strings"
	"testing"

	"github.com/btcsuite/btcd/btcec/v2"
	"github.com/elementsproject/peerswap/messages"
	"github.com/elementsproject/peerswap/peersync"
	"github.com/elementsproject/peerswap/policy"
	"github.com/elementsproject/peerswap/swap"

	"verifharness/ref"
	"verifharness/sim"
)

type c26Case struct {
	chain, typ string // maker role: in = node initiates swap-in, out = node answers swap-out
	behave     string // silence | cancel | coop-wrong-key
	crash      bool   // the node is killed at the quarantine write and restarted
}

func runC26(r *Run, seed int64, c c26Case) {
	rng := mrand.New(mrand.NewSource(seed))
	w := sim.NewWorld(seed)
	defer w.Close()
	cfg := sim.DefaultNodeConfig()
	p := w.AddPeer("mallory")
	q := w.AddPeer("quentin")
	// three peers that were quarantined earlier, listed in descending key order, each with an otherwise perfectly
	// usable channel: the quarantine list the new entry is added to is neither empty nor sorted
	var earlier []*sim.Peer
	for i := 0; i < 3; i++ {
		earlier = append(earlier, w.AddPeer(fmt.Sprintf("xavier%d", i)))
	}
	sort.Slice(earlier, func(i, j int) bool { return earlier[i].ID > earlier[j].ID })
	// the policy file as the operator left it: 0 = written by the node itself (operator commands, below);
	// 1 / 2 = edited by hand, the last line (a quarantine entry resp. an allowlist entry) has no line end
	fileForm := int(seed % 3)
	if fileForm > 0 {
		txt := strings.TrimSuffix(cfg.PolicyText, "\n")
		for _, x := range earlier {
			txt += "\nsuspicious_peers=" + x.ID
		}
		if fileForm == 2 {
			txt += "\nallowlisted_peers=" + q.ID
		}
		cfg.PolicyText = txt
	}
	m := w.AddNode("alice", cfg)
	w.LN.OpenChannel("100x1x0", m.ID, p.ID, 5_000_000_000, 5_000_000_000)
	w.LN.OpenChannel("200x1x0", m.ID, p.ID, 5_000_000_000, 5_000_000_000)
	w.LN.OpenChannel("300x1x0", m.ID, q.ID, 5_000_000_000, 5_000_000_000)
	if m.Start() != nil {
		r.Inconclusive("start")
		return
	}
	// three peers that were quarantined earlier (operator command), listed in descending key order, each with an
	// otherwise perfectly usable channel: the quarantine list the new entry is added to is neither empty nor sorted
	scidOf := map[string]string{}
	for i, x := range earlier {
		scidOf[x.ID] = fmt.Sprintf("%dx1x0", 400+i)
		w.LN.OpenChannel(scidOf[x.ID], m.ID, x.ID, 5_000_000_000, 5_000_000_000)
	}
	for _, x := range earlier {
		if fileForm > 0 {
			if !m.Inc().Policy.IsPeerSuspicious(x.ID) {
				r.Inconclusive("hand-edited policy file was not read as intended")
				return
			}
			continue
		}
		if err := m.Inc().Policy.AddToSuspiciousPeerList(x.ID); err != nil {
			r.Inconclusive("cannot pre-quarantine: " + err.Error())
			return
		}
	}
	r.CountIn("policy_file_forms", []string{"written-by-node", "hand-edited-last-line-quarantine-entry-no-newline", "hand-edited-last-line-allowlist-entry-no-newline"}[fileForm])
	if !c26SeedPeerSync(r, m, p, q) {
		return
	}
	chain := w.BTC
	if c.chain == "lbtc" {
		chain = w.LBTC
	}
	takerKey, _ := btcec.NewPrivateKey()
	asset, network := "", ""
	if c.chain == "lbtc" {
		asset = hx(sim.PolicyAsset())
	} else {
		network = sim.BtcParams.Name
	}
	amount := uint64(300_000 + rng.Intn(300_000))
	var id *swap.SwapId
	if c.typ == "in" {
		sm, err, _ := m.SwapIn(p.ID, c.chain, "100x1x0", amount, 100000)
		if err != nil || sm == nil {
			r.Inconclusive("swapin failed")
			return
		}
		id = sm.SwapId
		w.Run()
		p.Send("alice", ref.MsgSwapInAgreement, &swap.SwapInAgreementMessage{ProtocolVersion: 7, SwapId: id, Pubkey: hx(takerKey.PubKey().SerializeCompressed()), Premium: 5})
		w.Run()
	} else {
		id = swap.NewSwapId()
		p.Send("alice", ref.MsgSwapOutRequest, &swap.SwapOutRequestMessage{ProtocolVersion: 7, SwapId: id, Asset: asset, Network: network, Scid: "100x1x0", Amount: amount, Pubkey: hx(takerKey.PubKey().SerializeCompressed()), PremiumLimit: 1_000_000})
		w.Run()
		ag := p.Take(ref.MsgSwapOutAgreement)
		if ag == nil {
			r.Inconclusive("no agreement")
			return
		}
		var a swap.SwapOutAgreementMessage
		json.Unmarshal(ag.Payload, &a)
		w.LN.PeerPay(p.ID, a.Payreq)
		w.Run()
	}
	switch c.behave {
	case "cancel":
		p.Send("alice", ref.MsgCancel, &swap.CancelMessage{SwapId: id, Message: "no"})
	case "coop-wrong-key":
		k, _ := btcec.NewPrivateKey()
		p.Send("alice", ref.MsgCoopClose, &swap.CoopCloseMessage{SwapId: id, Message: "x", Privkey: hx(k.Serialize())})
	}
	w.Run()
	chain.Mine(1)
	w.Run()
	if c.crash {
		// the node is killed right when it is about to write the quarantine entry (before the policy file changes),
		// and restarted: the refund is on chain either way, the quarantine must still happen
		fired := false
		m.OnCrossing = func(k int64, op string) {
			if op == "policy.suspicious" && !fired {
				fired = true
				m.CrashAt, m.CrashFlavor = k, "before"
			}
		}
	}
	chain.Mine(int(ref.CSV(c.chain, 7)) + 1)
	w.Run()
	if c.crash && !m.Alive() {
		m.CrashAt = 0
		m.OnCrossing = nil
		if err := m.Restart(); err != nil {
			r.Inconclusive("restart after the crash: " + err.Error())
			return
		}
		w.Run()
		r.Count("crashes_at_quarantine", 1)
	}
	chain.Mine(2)
	w.Run()
	final := ""
	if rec := m.StoredSwap(id.String()); rec != nil {
		final = string(rec.Current)
	}
	r.Eval()
	tag := c.chain + "|" + c.typ
	if final != string(swap.State_ClaimedCsv) {
		r.CountIn("not_reaching_csv", tag+"/"+c.behave+"/"+final)
		return
	}
	r.Count("csv_refunds_reached", 1)
	det := func(s string) string { return fmt.Sprintf("%s; case %+v seed %d", s, c, seed) }
	// ---- 1. policy file + restart
	fileBytes, _ := os.ReadFile(m.PolicyPath())
	want := "suspicious_peers=" + p.ID
	inFile := false
	for _, l := range strings.Split(string(fileBytes), "\n") {
		if strings.TrimSpace(l) == want {
			inFile = true
		}
	}
	if !inFile {
		r.Violate("recorded-in-file", "C26|peer-not-in-policy-file|"+tag, det("policy file: "+string(fileBytes)), traceOf(w))
	}
	fresh, err := policy.CreateFromFile(m.PolicyPath())
	if err != nil || !fresh.IsPeerSuspicious(p.ID) {
		r.Violate("survives-restart", "C26|fresh-policy-does-not-list-peer|"+tag, det(fmt.Sprintf("err=%v", err)), traceOf(w))
	}
	// ---- 2..4, before and after a restart
	for round := 0; round < 2; round++ {
		phase := "same-process"
		if round == 1 {
			if err := m.Restart(); err != nil {
				r.Violate("survives-restart", "C26|restart-fails|"+tag, det(err.Error()), nil)
				return
			}
			w.Run()
			phase = "after-restart"
		}
		// requests from P
		for _, rt := range []string{"in", "out"} {
			for _, ch := range []string{"btc", "lbtc"} {
				rid := swap.NewSwapId()
				mt, payload := c10Request(rt, rid, "200x1x0", ch)
				before := len(p.Inbox)
				p.Send("alice", mt, payload)
				w.Run()
				ag, cancel := false, false
				for _, msg := range p.Inbox[before:] {
					switch msg.Type {
					case ref.MsgSwapInAgreement, ref.MsgSwapOutAgreement:
						ag = true
					case ref.MsgCancel:
						cancel = true
					}
				}
				r.Seen(fmt.Sprintf("%s/%s/request-%s-%s/agreement=%v/cancel=%v", tag, phase, rt, ch, ag, cancel))
				r.Count("followup_requests", 1)
				if ag || !cancel {
					r.Violate("cannot-start-swaps", fmt.Sprintf("C26|request-from-quarantined-peer-not-refused|%s|%s", rt, phase), det(fmt.Sprintf("agreement=%v cancel=%v", ag, cancel)), traceOf(w))
				}
			}
		}
		// the peers quarantined earlier stay quarantined as well
		for xi, x := range earlier {
			rid := swap.NewSwapId()
			mt, payload := c10Request([]string{"in", "out"}[xi%2], rid, scidOf[x.ID], c.chain)
			before := len(x.Inbox)
			x.Send("alice", mt, payload)
			w.Run()
			ag, cancel := false, false
			for _, msg := range x.Inbox[before:] {
				switch msg.Type {
				case ref.MsgSwapInAgreement, ref.MsgSwapOutAgreement:
					ag = true
				case ref.MsgCancel:
					cancel = true
				}
			}
			r.Count("followup_requests_earlier_quarantined", 1)
			if ag || !cancel {
				r.Violate("cannot-start-swaps", fmt.Sprintf("C26|request-from-earlier-quarantined-peer-not-refused|%s", phase), det(fmt.Sprintf("peer %d of the list: agreement=%v cancel=%v", xi, ag, cancel)), traceOf(w))
			}
		}
		if round == 0 {
			// control: the same kind of request from a peer that is not quarantined is answered with an agreement
			mt, payload := c10Request("in", swap.NewSwapId(), "300x1x0", c.chain)
			before := len(q.Inbox)
			q.Send("alice", mt, payload)
			w.Run()
			ok := false
			for _, msg := range q.Inbox[before:] {
				if msg.Type == ref.MsgSwapInAgreement {
					ok = true
				}
			}
			if !ok {
				r.Inconclusive("control request of a non-quarantined peer was not admitted: the refusals above prove nothing")
			}
		}
		// local initiations towards P
		for _, lt := range []string{"in", "out"} {
			mark := len(w.Events())
			var ierr error
			if lt == "in" {
				_, ierr, _ = m.SwapIn(p.ID, c.chain, "200x1x0", 300_000, 100000)
			} else {
				_, ierr, _ = m.SwapOut(p.ID, c.chain, "200x1x0", 300_000, 100000)
			}
			w.Run()
			sent := false
			for _, e := range w.Events()[mark:] {
				if e.Node == "alice" && e.Kind == "msg.send" {
					if mm := e.P.(sim.EvMsg); mm.Peer == p.ID && (mm.Type == ref.MsgSwapInRequest || mm.Type == ref.MsgSwapOutRequest) {
						sent = true
					}
				}
			}
			r.Seen(fmt.Sprintf("%s/%s/local-%s/err=%v/request-sent=%v", tag, phase, lt, ierr != nil, sent))
			r.Count("followup_initiations", 1)
			if ierr == nil || sent {
				r.Violate("refuses-to-start", fmt.Sprintf("C26|local-swap-towards-quarantined-peer|%s|%s", lt, phase), det(fmt.Sprintf("err=%v request sent=%v", ierr, sent)), traceOf(w))
			}
		}
		// peer-sync
		c26PeerSync(r, w, m, p, q, tag, phase, det)
	}
}

// c26SeedPeerSync writes the peer-sync records of both peers as they were before the swap (both had answered polls).
func c26SeedPeerSync(r *Run, m *sim.Node, p, q *sim.Peer) bool {
	st, err := peersync.NewStore(filepath.Join(m.Dir, "peersync-c26.db"))
	if err != nil {
		r.Inconclusive("peersync store: " + err.Error())
		return false
	}
	defer st.Close()
	ln := &c28LN{connected: map[string]bool{p.ID: true, q.ID: true}, ch: make(chan peersync.CustomMessage)}
	ln.onSend = func(string, messages.MessageType, []byte) {}
	nodeID, _ := peersync.NewPeerID(m.ID)
	inc := m.Inc()
	ps := peersync.NewPeerSync(nodeID, st, ln, inc.Policy, []string{"btc", "lbtc"}, inc.Premium)
	payload := mustJSON(map[string]any{"version": 7, "assets": []string{"btc", "lbtc"}, "peer_allowed": true,
		"btc_swap_in_premium_rate_ppm": 1, "btc_swap_out_premium_rate_ppm": 2, "lbtc_swap_in_premium_rate_ppm": 3, "lbtc_swap_out_premium_rate_ppm": 4})
	for _, x := range []*sim.Peer{p, q} {
		id, _ := peersync.NewPeerID(x.ID)
		ps.VerifProcessMessage(context.Background(), peersync.CustomMessage{From: id, Type: messages.MESSAGETYPE_POLL, Payload: payload})
	}
	pid, _ := peersync.NewPeerID(p.ID)
	if stored, err := st.GetPeerState(pid); err != nil || stored == nil || stored.Capability() == nil {
		r.Inconclusive("peer-sync seed: the peer's capability was not stored before the swap")
		return false
	}
	return true
}

func c26PeerSync(r *Run, w *sim.World, m *sim.Node, p, q *sim.Peer, tag, phase string, det func(string) string) {
	st, err := peersync.NewStore(filepath.Join(m.Dir, "peersync-c26.db"))
	if err != nil {
		r.Inconclusive("peersync store: " + err.Error())
		return
	}
	defer st.Close()
	sent := map[string]int{}
	ln := &c28LN{connected: map[string]bool{p.ID: true, q.ID: true}, ch: make(chan peersync.CustomMessage)}
	ln.onSend = func(to string, typ messages.MessageType, payload []byte) { sent[to]++ }
	nodeID, _ := peersync.NewPeerID(m.ID)
	inc := m.Inc()
	ps := peersync.NewPeerSync(nodeID, st, ln, inc.Policy, []string{"btc", "lbtc"}, inc.Premium)
	ctx := context.Background()
	pid, _ := peersync.NewPeerID(p.ID)
	qid, _ := peersync.NewPeerID(q.ID)
	payload := mustJSON(map[string]any{"version": 7, "assets": []string{"btc", "lbtc"}, "peer_allowed": true,
		"btc_swap_in_premium_rate_ppm": 10, "btc_swap_out_premium_rate_ppm": 20, "lbtc_swap_in_premium_rate_ppm": 30, "lbtc_swap_out_premium_rate_ppm": 40})
	for _, mt := range []messages.MessageType{messages.MESSAGETYPE_REQUEST_POLL, messages.MESSAGETYPE_POLL} {
		ps.VerifProcessMessage(ctx, peersync.CustomMessage{From: pid, Type: mt, Payload: payload})
		ps.VerifProcessMessage(ctx, peersync.CustomMessage{From: qid, Type: mt, Payload: payload})
	}
	ps.PollAllPeers(ctx)
	ps.ForcePollAllPeers(ctx)
	ps.RequestPoll(ctx, pid)
	r.Count("peersync_rounds", 1)
	r.Seen(fmt.Sprintf("%s/%s/peersync/sent-to-quarantined=%d/sent-to-control=%d", tag, phase, sent[p.ID], sent[q.ID]))
	if sent[q.ID] == 0 {
		r.Inconclusive("peer-sync control peer received nothing: the workload does not exercise sending")
	}
	if sent[p.ID] != 0 {
		r.Violate("peersync-silent", "C26|peersync-sent-to-quarantined-peer|"+phase, det(fmt.Sprintf("%d peer-sync messages sent to the quarantined peer", sent[p.ID])), nil)
	}
	// the record from before the quarantine (rates 1/2/3/4) may stay; the polls of the quarantined peer (10/20/30/40)
	// must not have been taken
	if stored, err := st.GetPeerState(pid); err == nil && stored != nil && stored.Capability() != nil {
		if v := c28ViewOf(stored.Capability()); v.Rates[0] == 10 || v.Rates[1] == 20 {
			r.Violate("peersync-no-capability", "C26|peersync-stored-capability-of-quarantined-peer|"+phase, det(fmt.Sprintf("capability stored: %v", v)), nil)
		}
	}
	if stored, err := st.GetPeerState(qid); err != nil || stored == nil || stored.Capability() == nil {
		r.Inconclusive("peer-sync control peer's capability was not stored")
	}
}

func TestC26(t *testing.T) {
	r := newRun(t, "C26", "exploration")
	defer r.Finish()
	r.Rule = "both maker roles × both chains × taker behaviour {silence, cancel, coop_close with a wrong key} are driven to a CSV refund on a real node; then the policy file, a fresh policy from that file, 4 incoming requests from the peer, 2 local initiations towards it and a real PeerSync instance (same policy object, fake Lightning port, a second connected peer as control) are examined, before and after a restart. distinct = (chain, role, phase, follow-up kind, outcome)"
	r.Rule += " Three earlier-quarantined peers (unsorted) and an admitted control peer exist; the policy file is either written by the node or hand-edited with a last line (quarantine or allowlist entry) without line end; in half of the silent-taker histories the node is killed at the quarantine write and restarted; the peer-sync store already holds the peer's record from before the swap."
	r.Assumptions = []string{"peer-sync is instantiated by the harness with the node's policy and premium objects exactly as the mains do"}
	var cases []c26Case
	for _, ch := range []string{"btc", "lbtc"} {
		for _, ty := range []string{"in", "out"} {
			for _, b := range []string{"silence", "cancel", "coop-wrong-key"} {
				cases = append(cases, c26Case{ch, ty, b, false})
				if b == "silence" || r.Thorough() {
					cases = append(cases, c26Case{ch, ty, b, true})
				}
			}
		}
	}
	reps := r.N(1, 20)
	parallelDo(len(cases)*reps, 8, func(i int) { runC26(r, r.Seed*389+int64(i)+1, cases[i%len(cases)]) })
	cs, _ := r.Extra["csv_refunds_reached"].(int)
	r.Sample(map[string]any{"case": "lbtc out/receiver, taker silent", "followups": "4 requests, 2 initiations, peer-sync request_poll/poll/PollAllPeers/ForcePollAllPeers/RequestPoll, twice (before/after restart)"})
	r.Require(cs >= len(cases)*reps*3/4, fmt.Sprintf("only %d of %d histories ended in a CSV refund", cs, len(cases)*reps))
}
