package props

import (
	"bytes"
	"crypto/rand"
	"crypto/sha256"
	"encoding/hex"
	"fmt"
	mrand "math/rand"
	"testing"

	"github.com/btcsuite/btcd/btcec/v2"
	"github.com/btcsuite/btcd/btcec/v2/ecdsa"
	"github.com/btcsuite/btcd/chaincfg/chainhash"
	"github.com/btcsuite/btcd/txscript"
	"github.com/btcsuite/btcd/wire"
	"github.com/elementsproject/peerswap/onchain"
	"github.com/elementsproject/peerswap/swap"
	"github.com/vulpemventures/go-elements/transaction"

	"verifharness/ref/tmpl"
	"verifharness/sim"
)

// witness alphabet item kinds
const (
	itSigT = iota
	itSigM
	itSigX
	itSigTWrongAmt
	itEmpty
	itPre
	itOther32
	itPre31
	itPre33
	itOne
	itScript
	itSigMWrongSeq
	nItems
)

var itemNames = [...]string{"sigT", "sigM", "sigX", "sigT(amt+1)", "empty", "P", "rand32", "P[:31]", "P+1byte", "0x01", "script", "sigM(seq+1)"}

const stdFlags = txscript.ScriptBip16 | txscript.ScriptVerifyWitness | txscript.ScriptVerifyCheckLockTimeVerify |
	txscript.ScriptVerifyCheckSequenceVerify | txscript.ScriptVerifyDERSignatures | txscript.ScriptVerifyStrictEncoding |
	txscript.ScriptVerifyLowS | txscript.ScriptVerifyNullFail | txscript.ScriptVerifyMinimalIf | txscript.ScriptVerifyCleanStack |
	txscript.ScriptVerifyMinimalData | txscript.ScriptVerifyWitnessPubKeyType | txscript.ScriptStrictMultiSig

const consensusFlags = txscript.ScriptBip16 | txscript.ScriptVerifyWitness | txscript.ScriptVerifyCheckLockTimeVerify |
	txscript.ScriptVerifyCheckSequenceVerify | txscript.ScriptVerifyDERSignatures

type c02Set struct {
	taker, maker, third *btcec.PrivateKey
	pre                 []byte
	hash                []byte
	csv                 uint32
	script              []byte // redeem script built by the real code
	pkScript            []byte // P2WSH program built by the real code
	liquid              bool
}

func signDER(k *btcec.PrivateKey, digest []byte) []byte {
	return append(ecdsa.Sign(k, digest).Serialize(), byte(txscript.SigHashAll))
}

func mkSet(csv uint32, liquid bool) (*c02Set, error) { return mkSetPre(csv, liquid, 32) }

// mkSetPre builds a set whose payment hash is the SHA256 of a random value of preLen bytes (a real
// preimage has 32; other lengths probe the length clause of the hash lock).
func mkSetPre(csv uint32, liquid bool, preLen int) (*c02Set, error) {
	s := &c02Set{csv: csv, liquid: liquid}
	s.taker, _ = btcec.NewPrivateKey()
	s.maker, _ = btcec.NewPrivateKey()
	s.third, _ = btcec.NewPrivateKey()
	s.pre = make([]byte, preLen)
	rand.Read(s.pre)
	h := sha256.Sum256(s.pre)
	s.hash = h[:]
	params := &swap.OpeningParams{
		TakerPubkey:      hex.EncodeToString(s.taker.PubKey().SerializeCompressed()),
		MakerPubkey:      hex.EncodeToString(s.maker.PubKey().SerializeCompressed()),
		ClaimPaymentHash: hex.EncodeToString(s.hash),
		Amount:           100000,
		CSV:              csv,
	}
	var err error
	s.script, err = onchain.ParamsToTxScript(params, csv)
	if err != nil {
		return nil, err
	}
	if liquid {
		l := onchain.NewLiquidOnChain(nil, sim.LiquidNet)
		s.pkScript, err = l.GetOutputScript(params)
	} else if csv == onchain.BitcoinCsv {
		b := onchain.NewBitcoinOnChain(nil, 253, 253, sim.BtcParams)
		s.pkScript, err = b.GetOutputScript(params)
	} else {
		// Bitcoin swaps always use CSV 1008; the other CSV values are run on Bitcoin
		// transactions only to compare the template interpreter with btcd on the scripts
		// Liquid uses, so the program is derived here.
		wp := sha256.Sum256(s.script)
		s.pkScript = append([]byte{0x00, 0x20}, wp[:]...)
	}
	return s, err
}

type c02Tx struct {
	version int32
	seq     uint32
	amount  int64
	btc     *wire.MsgTx
	lq      *transaction.Transaction
	lqVal   []byte
	items   [nItems][]byte
	fetcher txscript.PrevOutputFetcher
	hashes  *txscript.TxSigHashes
}

func (s *c02Set) sighashBtc(tx *wire.MsgTx, amount int64) []byte {
	f := txscript.NewCannedPrevOutputFetcher(s.pkScript, amount)
	h, err := txscript.CalcWitnessSigHash(s.script, txscript.NewTxSigHashes(tx, f), txscript.SigHashAll, tx, 0, amount)
	if err != nil {
		panic(err)
	}
	return h
}

func (s *c02Set) mkTx(version int32, seq uint32) *c02Tx {
	t := &c02Tx{version: version, seq: seq, amount: 100000}
	var prev chainhash.Hash
	rand.Read(prev[:])
	if !s.liquid {
		build := func(sq uint32) *wire.MsgTx {
			m := wire.NewMsgTx(version)
			in := wire.NewTxIn(wire.NewOutPoint(&prev, 1), nil, nil)
			in.Sequence = sq
			m.AddTxIn(in)
			m.AddTxOut(wire.NewTxOut(99000, []byte{0x00, 0x14, 1, 2, 3, 4, 5, 6, 7, 8, 9, 10, 11, 12, 13, 14, 15, 16, 17, 18, 19, 20}))
			return m
		}
		t.btc = build(seq)
		d := s.sighashBtc(t.btc, t.amount)
		t.items[itSigT] = signDER(s.taker, d)
		t.items[itSigM] = signDER(s.maker, d)
		t.items[itSigX] = signDER(s.third, d)
		t.items[itSigTWrongAmt] = signDER(s.taker, s.sighashBtc(t.btc, t.amount+1))
		t.items[itSigMWrongSeq] = signDER(s.maker, s.sighashBtc(build(seq+1), t.amount))
		t.fetcher = txscript.NewCannedPrevOutputFetcher(s.pkScript, t.amount)
		t.hashes = txscript.NewTxSigHashes(t.btc, t.fetcher)
	} else {
		build := func(sq uint32) *transaction.Transaction {
			m := transaction.NewTx(version)
			in := transaction.NewTxInput(prev[:], 1)
			in.Sequence = sq
			m.AddInput(in)
			m.AddOutput(sim.ExplicitOut(sim.PolicyAsset(), 99000, []byte{0x00, 0x14, 1, 2, 3, 4, 5, 6, 7, 8, 9, 10, 11, 12, 13, 14, 15, 16, 17, 18, 19, 20}))
			m.AddOutput(sim.ExplicitOut(sim.PolicyAsset(), 1000, []byte{}))
			return m
		}
		t.lq = build(seq)
		val := sim.ExplicitOut(sim.PolicyAsset(), uint64(t.amount), nil).Value
		val2 := sim.ExplicitOut(sim.PolicyAsset(), uint64(t.amount+1), nil).Value
		t.lqVal = val
		dg := func(m *transaction.Transaction, v []byte) []byte {
			h := m.HashForWitnessV0(0, s.script, v, txscript.SigHashAll)
			return h[:]
		}
		d := dg(t.lq, val)
		t.items[itSigT] = signDER(s.taker, d)
		t.items[itSigM] = signDER(s.maker, d)
		t.items[itSigX] = signDER(s.third, d)
		t.items[itSigTWrongAmt] = signDER(s.taker, dg(t.lq, val2))
		t.items[itSigMWrongSeq] = signDER(s.maker, dg(build(seq+1), val))
	}
	t.items[itEmpty] = []byte{}
	t.items[itPre] = s.pre
	o := make([]byte, 32)
	rand.Read(o)
	t.items[itOther32] = o
	t.items[itPre31] = s.pre[:min(31, len(s.pre))]
	t.items[itPre33] = append(append([]byte{}, s.pre...), 0x01)
	t.items[itOne] = []byte{1}
	t.items[itScript] = s.script
	return t
}

func (s *c02Set) runBtcd(t *c02Tx, wit [][]byte, flags txscript.ScriptFlags) bool {
	t.btc.TxIn[0].Witness = wit
	vm, err := txscript.NewEngine(s.pkScript, t.btc, 0, flags, nil, t.hashes, t.amount, t.fetcher)
	if err != nil {
		return false
	}
	return vm.Execute() == nil
}

func (s *c02Set) runTmpl(t *c02Tx, wit [][]byte) error {
	ctx := &tmpl.Ctx{TxVersion: t.version, Sequence: t.seq}
	if !s.liquid {
		ctx.SigHash = func(ht byte, sc []byte) ([]byte, error) {
			return txscript.CalcWitnessSigHash(sc, t.hashes, txscript.SigHashType(ht), t.btc, 0, t.amount)
		}
	} else {
		ctx.SigHash = func(ht byte, sc []byte) ([]byte, error) {
			h := t.lq.HashForWitnessV0(0, sc, t.lqVal, txscript.SigHashType(ht))
			return h[:], nil
		}
	}
	return tmpl.VerifyP2WSH(s.pkScript, wit, ctx)
}

// allowed is the semantic oracle written from the property statement.
func (s *c02Set) allowed(t *c02Tx, stack []int) bool {
	has := func(k int) bool {
		for _, x := range stack {
			if x == k {
				return true
			}
		}
		return false
	}
	seqOK := t.version >= 2 && t.seq&(1<<31) == 0 && t.seq&(1<<22) == 0 && t.seq&0xffff >= s.csv
	return (has(itSigT) && has(itPre)) || (has(itSigT) && has(itSigM)) || (has(itSigM) && seqOK)
}

func stackName(stack []int) string {
	var b bytes.Buffer
	b.WriteString("[")
	for i, x := range stack {
		if i > 0 {
			b.WriteString(" ")
		}
		b.WriteString(itemNames[x])
	}
	b.WriteString("]")
	return b.String()
}

func TestC02(t *testing.T) {
	r := newRun(t, "C02", "exploration")
	defer r.Finish()
	r.Rule = "witness stacks over a 12-item labelled alphabet (valid/invalid signatures of taker, maker, third key; preimage right/wrong/other lengths; empty; 0x01; the script) × sequences × tx versions × CSV values × chains, run on the script bytes built by the real onchain.ParamsToTxScript/GetOutputScript; executors: btcd engine with standard and consensus-only flags (Bitcoin) and the independent template interpreter (Bitcoin: must agree with btcd; Liquid: Elements sighash). In addition scripts are built for payment hashes that are the SHA256 of 0/1/20/31/33/64/65/520-byte values: no witness carrying that value may be accepted (32-byte clause of the hash lock). distinct = (chain, csv, version, sequence class, accepting stack | rejecting-shape class)"
	r.Rule += " In addition whole-node worlds: a real maker (both roles, both chains) against a scripted taker whose agreement carries protocol_version 0/6/7/8/255; if an opening tx is broadcast, the announced output must carry exactly the script of (taker key, maker key, invoice hash, the chain's protocol-7 CSV)."
	r.Assumptions = []string{"btcd txscript is a faithful consensus interpreter", "Elements script rules for these opcodes equal Bitcoin's; Elements segwit-v0 sighash is go-elements HashForWitnessV0"}

	type combo struct {
		csv     uint32
		liquid  bool
		version int32
		seq     uint32
		maxLen  int
		sample  int // number of random stacks of length 5-6
	}
	var combos []combo
	rng := mrand.New(mrand.NewSource(r.Seed + 2))
	for _, cs := range []struct {
		csv    uint32
		liquid bool
	}{{1008, false}, {10080, true}, {60, true}, {10080, false}, {60, false}} {
		seqs := []uint32{0, 1, cs.csv - 1, cs.csv, cs.csv + 1, 0xffff, cs.csv | 1<<22, cs.csv | 1<<31, 0xffffffff, 0xfffffffe}
		for _, v := range []int32{1, 2} {
			for _, sq := range seqs {
				ml := 3
				if r.Thorough() || (sq == cs.csv && v == 2) || (sq == cs.csv-1 && v == 2) || (sq == 0 && v == 2 && !cs.liquid) {
					ml = 4
				}
				combos = append(combos, combo{cs.csv, cs.liquid, v, sq, ml, r.N(300, 20000)})
			}
		}
	}
	keysets := r.N(1, 4)
	exhaustiveLen := 3
	if r.Thorough() {
		exhaustiveLen = 4
	}
	disagreements := 0
	accepts := 0
	canon := 0
	for ks := 0; ks < keysets; ks++ {
		sets := map[string]*c02Set{}
		parallelDo(len(combos), 16, func(ci int) {
			c := combos[ci]
			key := fmt.Sprintf("%d/%v", c.csv, c.liquid)
			r.mu.Lock()
			s := sets[key]
			if s == nil {
				var err error
				s, err = mkSet(c.csv, c.liquid)
				if err != nil {
					r.mu.Unlock()
					r.Violate("build", "C02|script-build-error", err.Error(), nil)
					return
				}
				sets[key] = s
			}
			lrng := mrand.New(mrand.NewSource(rng.Int63()))
			r.mu.Unlock()
			tx := s.mkTx(c.version, c.seq)
			chain := "btc"
			if c.liquid {
				chain = "lbtc"
			}
			seqClass := fmt.Sprintf("%s/csv%d/v%d/seq%#x", chain, c.csv, c.version, c.seq)
			check := func(stack []int) {
				wit := make([][]byte, 0, len(stack)+1)
				for _, x := range stack {
					wit = append(wit, tx.items[x])
				}
				wit = append(wit, s.script)
				r.Eval()
				terr := s.runTmpl(tx, wit)
				okT := terr == nil
				ok := okT
				if !c.liquid {
					okStd := s.runBtcd(tx, wit, stdFlags)
					okCons := s.runBtcd(tx, wit, consensusFlags)
					if okStd != okT {
						r.mu.Lock()
						disagreements++
						r.mu.Unlock()
						r.Violate("differential", "C02|evaluator-disagrees-with-btcd", fmt.Sprintf("%s stack=%s btcd(std)=%v tmpl=%v (%v)", seqClass, stackName(stack), okStd, okT, terr), nil)
					}
					if okStd && !okCons {
						r.Violate("flags", "C02|std-accepts-consensus-rejects", fmt.Sprintf("%s stack=%s", seqClass, stackName(stack)), nil)
					}
					ok = okCons
				}
				if ok {
					r.mu.Lock()
					accepts++
					r.mu.Unlock()
					r.Seen(seqClass + "/accept/" + stackName(stack))
					if !s.allowed(tx, stack) {
						r.Violate("only-three-ways", fmt.Sprintf("C02|accepted-outside-allowed|%s|csv%d|%s", chain, c.csv, stackName(stack)),
							fmt.Sprintf("%s: witness %s satisfies the script built by the node (script=%x)", seqClass, stackName(stack), s.script), nil)
					}
				} else {
					r.Seen(fmt.Sprintf("%s/reject/len%d", seqClass, len(stack)))
				}
			}
			// exhaustive part
			var rec func(stack []int, depth int)
			rec = func(stack []int, depth int) {
				check(stack)
				if depth == c.maxLen {
					return
				}
				for x := 0; x < nItems; x++ {
					rec(append(stack, x), depth+1)
				}
			}
			rec(nil, 0)
			// sampled longer stacks
			for i := 0; i < c.sample; i++ {
				n := 5 + lrng.Intn(2)
				st := make([]int, n)
				for j := range st {
					st[j] = lrng.Intn(nItems)
				}
				check(st)
			}
			// canonical witnesses as the protocol document writes them must be accepted
			canonical := []struct {
				name  string
				stack []int
				need  bool
			}{
				{"preimage", []int{itSigT, itPre, itEmpty, itEmpty}, true},
				{"coop", []int{itSigT, itSigM, itEmpty}, true},
				{"csv", []int{itSigM}, c.version >= 2 && c.seq&(1<<31) == 0 && c.seq&(1<<22) == 0 && c.seq&0xffff >= c.csv},
			}
			for _, cw := range canonical {
				wit := [][]byte{}
				for _, x := range cw.stack {
					wit = append(wit, tx.items[x])
				}
				wit = append(wit, s.script)
				var ok bool
				if c.liquid {
					ok = s.runTmpl(tx, wit) == nil
				} else {
					ok = s.runBtcd(tx, wit, stdFlags)
				}
				r.mu.Lock()
				canon++
				r.mu.Unlock()
				if ok != cw.need {
					r.Violate("canonical", fmt.Sprintf("C02|canonical-%s-verdict-%v|%s|csv%d", cw.name, ok, chain, c.csv),
						fmt.Sprintf("%s: canonical %s witness accepted=%v, expected %v", seqClass, cw.name, ok, cw.need), nil)
				}
			}
		})
	}
	// hash lock length clause: when the payment hash is the SHA256 of a value that is not 32 bytes long, nobody
	// knows a 32-byte preimage, so no witness containing that value (and no maker signature) may be accepted
	lenProbes := 0
	for _, cs := range []struct {
		csv    uint32
		liquid bool
	}{{1008, false}, {10080, true}, {60, true}} {
		for _, n := range []int{0, 1, 20, 31, 33, 64, 65, 520} {
			s, err := mkSetPre(cs.csv, cs.liquid, n)
			if err != nil {
				r.Violate("build", "C02|script-build-error", err.Error(), nil)
				continue
			}
			tx := s.mkTx(2, 0)
			chain := "btc"
			if cs.liquid {
				chain = "lbtc"
			}
			for _, stack := range [][]int{{itSigT, itPre, itEmpty, itEmpty}, {itSigT, itPre, itEmpty}, {itSigT, itPre}, {itSigT, itPre, itOne, itEmpty}, {itSigX, itSigT, itPre, itEmpty, itEmpty}} {
				wit := [][]byte{}
				for _, x := range stack {
					wit = append(wit, tx.items[x])
				}
				wit = append(wit, s.script)
				r.Eval()
				lenProbes++
				ok := s.runTmpl(tx, wit) == nil
				if !cs.liquid {
					okCons := s.runBtcd(tx, wit, consensusFlags)
					if okCons != ok {
						r.Violate("differential", "C02|evaluator-disagrees-with-btcd", fmt.Sprintf("%s preimage-len %d stack=%s btcd=%v tmpl=%v", chain, n, stackName(stack), okCons, ok), nil)
					}
					ok = okCons
				}
				r.Seen(fmt.Sprintf("%s/csv%d/hash-of-%d-byte-value/%s/accepted=%v", chain, cs.csv, n, stackName(stack), ok))
				if ok {
					r.Violate("preimage-32-bytes", fmt.Sprintf("C02|accepted-non-32-byte-preimage|%s|len%d", chain, n),
						fmt.Sprintf("%s csv %d: witness %s with a %d-byte value hashing to the payment hash satisfies the script built by the node (script=%x)", chain, cs.csv, stackName(stack), n, s.script), nil)
				}
			}
		}
	}
	r.Extra["preimage_length_probes"] = lenProbes
	r.Extra["accepting_executions"] = accepts
	r.Extra["canonical_checks"] = canon
	r.Extra["btcd_vs_template_disagreements"] = disagreements
	r.Extra["exhaustive_stack_len"] = exhaustiveLen
	r.Extra["exhaustive"] = true
	r.Extra["exhaustive_note"] = fmt.Sprintf("all witness stacks of length 0..%d over the 12-item alphabet for every (chain, csv, version, sequence) combination; length 4 for the boundary sequences in quick; lengths 5-6 sampled", exhaustiveLen)
	r.Sample(map[string]any{"stack": "[sigT P empty empty] + script", "seq": 0, "version": 2, "verdict": "accept (preimage path)"})
	r.Sample(map[string]any{"stack": "[sigM] + script", "seq": "csv-1", "version": 2, "verdict": "reject (BIP112)"})
	// the script real makers fund (whole-node worlds): protocol 7 on both sides, the taker's own message carries other
	// values in the fields the maker does not validate
	{
		type fc struct {
			chain, typ string
			v          uint8
		}
		var fcs []fc
		for _, ch := range []string{"btc", "lbtc"} {
			for _, v := range []uint8{7, 0, 6, 8, 255} {
				fcs = append(fcs, fc{ch, "in", v})
			}
			fcs = append(fcs, fc{ch, "out", 7})
		}
		parallelDo(len(fcs)*r.N(1, 5), 8, func(i int) {
			c := fcs[i%len(fcs)]
			runC02Funded(r, r.Seed*3011+int64(i)+1, c.chain, c.typ, c.v)
		})
		if n, _ := r.Extra["funded_scripts_judged"].(int); n < 4 {
			r.Inconclusive(fmt.Sprintf("only %d funded scripts judged", n))
		}
	}
	r.Require(accepts > 0, "no accepting execution observed")
	r.Require(r.Evaluations > 10000, "too few executions")
}
