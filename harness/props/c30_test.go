package props

import (
	"errors"
	"fmt"
	"math"
	"math/big"
	mrand "math/rand"
	"strconv"
	"strings"
	"testing"

	"github.com/btcsuite/btcd/btcutil"
	"github.com/btcsuite/btcd/chaincfg"
	"github.com/elementsproject/glightning/gbitcoin"
	"github.com/elementsproject/peerswap/onchain"
	"github.com/elementsproject/peerswap/version"
)

// ---------------------------------------------------------------------------------------
// reference oracles (written from the property statement)
// ---------------------------------------------------------------------------------------

func c30IsDigit(c byte) bool { return c >= '0' && c <= '9' }

// c30RefVersion: first run of ASCII digits = major, optional ".digits" = minor, optional
// ".digits" = patch. ok=false when the string has no digit.
func c30RefVersion(s string) (major, minor, patch *big.Int, ok bool) {
	i := 0
	for i < len(s) && !c30IsDigit(s[i]) {
		i++
	}
	if i == len(s) {
		return nil, nil, nil, false
	}
	run := func() *big.Int {
		j := i
		for j < len(s) && c30IsDigit(s[j]) {
			j++
		}
		n, _ := new(big.Int).SetString(s[i:j], 10)
		i = j
		return n
	}
	major = run()
	minor, patch = new(big.Int), new(big.Int)
	if i+1 < len(s) && s[i] == '.' && c30IsDigit(s[i+1]) {
		i++
		minor = run()
		if i+1 < len(s) && s[i] == '.' && c30IsDigit(s[i+1]) {
			i++
			patch = run()
		}
	}
	return major, minor, patch, true
}

// c30RefFloor: 25 iff (major, minor) >= (29, 2), else 253. rel names the region for coverage.
func c30RefFloor(s string) (floor int64, rel string) {
	ma, mi, _, ok := c30RefVersion(s)
	if !ok {
		return 253, "no-version"
	}
	c := ma.Cmp(big.NewInt(29))
	switch {
	case c > 0:
		return 25, "major>29"
	case c < 0:
		return 253, "major<29"
	}
	switch mi.Cmp(big.NewInt(2)) {
	case -1:
		return 253, "29.minor<2"
	case 0:
		return 25, "29.2"
	}
	return 25, "29.minor>2"
}

func c30Components(s string) []*big.Int {
	var o []*big.Int
	for i := 0; i < len(s); {
		if !c30IsDigit(s[i]) {
			i++
			continue
		}
		j := i
		for j < len(s) && c30IsDigit(s[j]) {
			j++
		}
		n, _ := new(big.Int).SetString(s[i:j], 10)
		o = append(o, n)
		i = j
	}
	return o
}

// c30RefCmp: -1/0/+1 lexicographic over numeric components, missing components = 0.
func c30RefCmp(a, b []*big.Int) int {
	zero := new(big.Int)
	n := len(a)
	if len(b) > n {
		n = len(b)
	}
	for i := 0; i < n; i++ {
		x, y := zero, zero
		if i < len(a) {
			x = a[i]
		}
		if i < len(b) {
			y = b[i]
		}
		if c := x.Cmp(y); c != 0 {
			return c
		}
	}
	return 0
}

func c30FitsInt(c []*big.Int) bool {
	for _, x := range c {
		if !x.IsInt64() {
			return false
		}
		if strconv.IntSize == 32 && (x.Int64() > math.MaxInt32 || x.Int64() < math.MinInt32) {
			return false
		}
	}
	return true
}

// c30ExpFee = floor(rate*4*size/1000) exactly.
func c30ExpFee(rate, size int64) *big.Int {
	x := new(big.Int).Mul(big.NewInt(rate), big.NewInt(4))
	x.Mul(x, big.NewInt(size))
	return x.Div(x, big.NewInt(1000))
}

// c30Near: |got-exp| <= 1 sat (+ 2^-50 relative for values beyond float64 integer precision).
func c30Near(got uint64, exp *big.Int) bool {
	d := new(big.Int).Sub(new(big.Int).SetUint64(got), exp)
	d.Abs(d)
	tol := new(big.Int).Rsh(exp, 50)
	tol.Add(tol, big.NewInt(1))
	return d.Cmp(tol) <= 0
}

// ---------------------------------------------------------------------------------------
// fakes at the node boundary
// ---------------------------------------------------------------------------------------

type c30Est struct {
	v   btcutil.Amount
	err error
}

func (e *c30Est) EstimateFeePerKW(uint32) (btcutil.Amount, error) { return e.v, e.err }
func (e *c30Est) Start() error                                    { return nil }

type c30Backend struct {
	fee    *gbitcoin.FeeResponse
	feeErr error
	mp     *gbitcoin.MempoolInfo
	mpErr  error
}

func (b *c30Backend) GetMempoolInfo() (*gbitcoin.MempoolInfo, error) { return b.mp, b.mpErr }
func (b *c30Backend) EstimateFee(uint32, string) (*gbitcoin.FeeResponse, error) {
	if b.feeErr != nil {
		return &gbitcoin.FeeResponse{}, b.feeErr
	}
	return b.fee, nil
}
func (b *c30Backend) Ping() (bool, error) { return true, nil }

// ---------------------------------------------------------------------------------------
// version-string grammar
// ---------------------------------------------------------------------------------------

type c30Ver struct {
	prefix string
	comps  []string
	seps   []string // len(comps)-1
	suffix string
}

func (v c30Ver) String() string {
	var b strings.Builder
	b.WriteString(v.prefix)
	for i, c := range v.comps {
		if i > 0 {
			b.WriteString(v.seps[i-1])
		}
		b.WriteString(c)
	}
	b.WriteString(v.suffix)
	return b.String()
}

var c30Prefixes = []string{"", "", "", "v", "v", "V", "version-", "/Satoshi:", "lnd version ", "Core Lightning v", "release_"}
var c30Suffixes = []string{"", "", "", "", "rc1", "-rc2", "-beta", "-modded", "-12-gabcdef0", "+build5", " (release)", "\n", "/"}

func c30GenComp(rng *mrand.Rand, small bool) string {
	k := rng.Intn(100)
	if small {
		switch {
		case k < 70:
			return strconv.Itoa(rng.Intn(3))
		case k < 85:
			return strings.Repeat("0", 1+rng.Intn(2)) + strconv.Itoa(rng.Intn(3))
		default:
			return strconv.Itoa(rng.Intn(30))
		}
	}
	switch {
	case k < 35:
		return strconv.Itoa(rng.Intn(4))
	case k < 60:
		return strconv.Itoa(rng.Intn(41))
	case k < 68:
		return strconv.Itoa(2023 + rng.Intn(4))
	case k < 80:
		return strings.Repeat("0", 1+rng.Intn(25)) + strconv.Itoa(rng.Intn(12))
	case k < 88:
		return []string{"9223372036854775806", "9223372036854775807", "9223372036854775808", "18446744073709551615", "18446744073709551616", "2147483647", "2147483648"}[rng.Intn(7)]
	case k < 95:
		b := []byte{byte('1' + rng.Intn(9))}
		for n := 19 + rng.Intn(15); len(b) < n; {
			b = append(b, byte('0'+rng.Intn(10)))
		}
		return string(b)
	default:
		return "0"
	}
}

func c30GenVer(rng *mrand.Rand, small bool) c30Ver {
	v := c30Ver{prefix: c30Prefixes[rng.Intn(len(c30Prefixes))], suffix: c30Suffixes[rng.Intn(len(c30Suffixes))]}
	n := rng.Intn(6)
	if small {
		n = rng.Intn(4)
	}
	for i := 0; i < n; i++ {
		v.comps = append(v.comps, c30GenComp(rng, small))
		if i > 0 {
			s := "."
			if rng.Intn(8) == 0 {
				s = []string{"-", "_", "..", " ", ".v"}[rng.Intn(5)]
			}
			v.seps = append(v.seps, s)
		}
	}
	return v
}

// c30Mutate derives a close relative of v (same/adjacent position in the order).
func c30Mutate(rng *mrand.Rand, v c30Ver) c30Ver {
	w := c30Ver{prefix: v.prefix, suffix: v.suffix, comps: append([]string{}, v.comps...), seps: append([]string{}, v.seps...)}
	switch rng.Intn(7) {
	case 0:
		w.prefix = c30Prefixes[rng.Intn(len(c30Prefixes))]
	case 1:
		w.suffix = c30Suffixes[rng.Intn(len(c30Suffixes))]
	case 2: // append .0
		if len(w.comps) > 0 {
			w.seps = append(w.seps, ".")
		}
		w.comps = append(w.comps, "0")
	case 3: // drop last component
		if len(w.comps) > 0 {
			w.comps = w.comps[:len(w.comps)-1]
			if len(w.seps) > 0 {
				w.seps = w.seps[:len(w.seps)-1]
			}
		}
	case 4: // leading zero
		if len(w.comps) > 0 {
			i := rng.Intn(len(w.comps))
			w.comps[i] = "0" + w.comps[i]
		}
	case 5, 6: // +-1 on one component
		if len(w.comps) > 0 {
			i := rng.Intn(len(w.comps))
			n, _ := new(big.Int).SetString(w.comps[i], 10)
			if rng.Intn(2) == 0 || n.Sign() == 0 {
				n.Add(n, big.NewInt(1))
			} else {
				n.Sub(n, big.NewInt(1))
			}
			w.comps[i] = n.String()
		}
	}
	return w
}

func c30Shape(s string) string {
	comps := c30Components(s)
	n := len(comps)
	f := "" // P=text before first number, S=text after last, Z=leading zeros, H=component beyond int
	if i := strings.IndexAny(s, "0123456789"); i > 0 {
		f += "P" // something before the first number
	}
	if j := strings.LastIndexAny(s, "0123456789"); j >= 0 && j < len(s)-1 {
		f += "S" // something after the last number
	}
	lz := false
	for i := 0; i+1 < len(s); i++ {
		if s[i] == '0' && c30IsDigit(s[i+1]) && (i == 0 || !c30IsDigit(s[i-1])) {
			lz = true
		}
	}
	if lz {
		f += "Z"
	}
	if !c30FitsInt(comps) {
		f += "H"
	}
	if n == 0 {
		return "no-number"
	}
	if f == "" {
		return "plain"
	}
	return f
}

func c30LenClass(n int) string {
	if n >= 3 {
		return "3+"
	}
	return strconv.Itoa(n)
}

// ---------------------------------------------------------------------------------------

func TestC30(t *testing.T) {
	r := newRun(t, "C30", "exploration")
	defer r.Finish()
	r.Rule = "four monitors on the real functions. (A) onchain.DetermineFeeFloor on a grid of subversion strings (majors 0..40 x minors x patches x 7 wrappers) plus junk, int31-boundary, random-alphabet and grammar strings (components < 2^31) vs floor=25 iff (major,minor)>=(29,2) else 253 from an independent parser. (B) onchain.BitcoinOnChain.GetFee with a fake Estimator answering {error, error+value, 0, 1, floor-1, floor, floor+1, 1e6, MaxSatoshi/4, MaxSatoshi, -1, random} x fallbacks x sizes 1..1e6: fee >= floor(floorRate*4*size/1000) and fee == exact value for max(fallback,floor) (estimator error/0) or max(estimate,floor), 1 sat tolerance. (C) onchain.GBitcoindEstimator (fake bitcoind backend, with/without Start and mempoolminfee) : result >= version floor; backend error/unparsable/zero feerate -> max(fallback, node floor); else max(estimate, node floor). (D) version.CompareVersionStrings vs math/big lexicographic >= over all digit runs padded with zeros on grammar-generated pairs (related pairs by mutation), errors only if a component overflows int, and order laws (reflexive, total, antisymmetric up to component equality, transitive) on all triples of generated pools. distinct = monitor / input class / branch"
	r.Assumptions = []string{
		"the node floor for GBitcoindEstimator includes the backend's mempoolminfee (max with the version floor) once Start has run",
		"version components are maximal runs of ASCII digits",
		"estimator answers are bounded by btcutil.MaxSatoshi (2.1e15) sat/kW: larger values are not valid btcutil.Amounts (more than the coin supply), so rate*4 cannot overflow int64",
		"subversion strings given to DetermineFeeFloor have major/minor/patch < 2^31: they are Bitcoin Core version components (CLIENT_VERSION is a 32-bit int); components beyond int are generated only for CompareVersionStrings, whose property speaks about errors on overflow",
	}
	rng := mrand.New(mrand.NewSource(r.Seed*104729 + 30))

	// ----------------------------------------------------------------------------------
	// (A) DetermineFeeFloor
	// ----------------------------------------------------------------------------------
	nA := 0
	two31 := new(big.Int).Lsh(big.NewInt(1), 31)
	floorDomain := func(s string) bool {
		ma, mi, pa, ok := c30RefVersion(s)
		return !ok || (ma.Cmp(two31) < 0 && mi.Cmp(two31) < 0 && pa.Cmp(two31) < 0)
	}
	checkFloor := func(shape, s string) {
		if !floorDomain(s) {
			r.Count("fee_floor_generated_outside_domain_skipped", 1)
			return
		}
		r.Eval()
		nA++
		got, _ := onchain.DetermineFeeFloor(s)
		want, rel := c30RefFloor(s)
		r.Seen("floor/" + shape + "/" + rel)
		if int64(got) != want {
			// input class of the signature: a component beyond int is one class whatever generator made it
			cause := shape
			if ma, mi, _, ok := c30RefVersion(s); ok {
				if !c30FitsInt([]*big.Int{ma}) {
					cause = "major-exceeds-int"
				} else if !c30FitsInt([]*big.Int{mi}) {
					cause = "minor-exceeds-int"
				}
			}
			r.Violate("fee-floor", fmt.Sprintf("C30|fee-floor|%s|got-%d-want-%d", cause, int64(got), want),
				fmt.Sprintf("DetermineFeeFloor(%q) = %d, reference floor %d (region %s)", s, int64(got), want, rel), nil)
		}
		// the floor handed to the fee computation is respected end to end
		if nA%7 == 0 {
			size := int64(1 + rng.Intn(1000000))
			b := onchain.NewBitcoinOnChain(&c30Est{v: btcutil.Amount(rng.Intn(300))}, got, got, &chaincfg.RegressionNetParams)
			fee, err := b.GetFee(size)
			bound := c30ExpFee(want, size)
			if err != nil || new(big.Int).SetUint64(fee+1).Cmp(bound) < 0 {
				r.Violate("fee-floor", fmt.Sprintf("C30|fee-floor-end-to-end|%s|fee-below-floor-bound", shape),
					fmt.Sprintf("subversion %q: GetFee(%d)=%d err=%v with the floor from DetermineFeeFloor (%d); reference floor %d needs >= %s", s, size, fee, err, int64(got), want, bound), nil)
			}
		}
	}
	wrappers := []struct{ name, f string }{
		{"bare", "%s"}, {"satoshi", "/Satoshi:%s/"}, {"v-prefix", "v%s"}, {"knots", "/Satoshi:%s/Knots:20251010/"},
		{"uacomment", "/Satoshi:%s(node 7.1)/"}, {"core-banner", "Bitcoin Core version v%s-rc1"}, {"suffix-junk", "%s.x-dirty"},
	}
	majors := []int{}
	for m := 0; m <= 40; m++ {
		majors = append(majors, m)
	}
	majors = append(majors, 100, 290, 2900)
	minors := []string{"", "0", "1", "2", "3", "5", "10", "02", "002", "20", "19"}
	patches := []string{"", "0", "99"}
	for _, w := range wrappers {
		for _, ma := range majors {
			for _, mi := range minors {
				for _, pa := range patches {
					if mi == "" && pa != "" {
						continue
					}
					v := strconv.Itoa(ma)
					if mi != "" {
						v += "." + mi
					}
					if pa != "" {
						v += "." + pa
					}
					checkFloor("grid/"+w.name, fmt.Sprintf(w.f, v))
				}
			}
		}
	}
	for _, s := range []string{"", "abc", "/Satoshi/", "...", "v", "-", "٢٩.٢", "29,2", "29 .2", "29. 2", "29..2", ".29.2", "x.29.2", "1e3", "0x1d.2",
		"+29.2", "-29.2", "29.2.", "29.-2", "29.2.0.1", "029.2", "29.2\n", "\n29.2", "29\n.2", "v29.2rc1", "29.2rc1", "29rc2", "28.99.99", "30", "/Satoshi:0.21.1/", "0.29.2", "2 9.2"} {
		checkFloor("junk", s)
	}
	b31 := func() string { return []string{"2147483647", "2147483646", "1000000000", "02147483647"}[rng.Intn(4)] }
	for i := 0; i < r.N(60, 2000); i++ {
		checkFloor("int31-major", fmt.Sprintf("/Satoshi:%s.%d.0/", b31(), rng.Intn(4)))
		checkFloor("int31-minor", fmt.Sprintf("/Satoshi:%d.%s.0/", 27+rng.Intn(5), b31()))
		checkFloor("int31-patch", fmt.Sprintf("/Satoshi:%d.%d.%s/", 27+rng.Intn(5), rng.Intn(4), b31()))
	}
	const alpha = "0123456789.2938v/: -rc"
	for i := 0; i < r.N(12000, 500000); i++ {
		b := make([]byte, rng.Intn(11))
		for j := range b {
			b[j] = alpha[rng.Intn(len(alpha))]
		}
		checkFloor("random-alphabet", string(b))
	}
	for i := 0; i < r.N(4000, 200000); i++ {
		g := c30GenVer(rng, false).String()
		for try := 0; try < 20 && !floorDomain(g); try++ {
			g = c30GenVer(rng, false).String()
		}
		checkFloor("grammar", g)
	}
	r.Extra["fee_floor_cases"] = nA

	// ----------------------------------------------------------------------------------
	// (B) BitcoinOnChain.GetFee with a fake estimator
	// ----------------------------------------------------------------------------------
	type estClass struct {
		name string
		v    func(floor int64) int64
		err  bool
	}
	estClasses := []estClass{
		{"error", func(int64) int64 { return 0 }, true},
		{"error+value", func(int64) int64 { return 5000 }, true},
		{"0", func(int64) int64 { return 0 }, false},
		{"1", func(int64) int64 { return 1 }, false},
		{"floor-1", func(f int64) int64 { return f - 1 }, false},
		{"floor", func(f int64) int64 { return f }, false},
		{"floor+1", func(f int64) int64 { return f + 1 }, false},
		{"1e6", func(int64) int64 { return 1000000 }, false},
		{"MaxSatoshi/4", func(int64) int64 { return int64(btcutil.MaxSatoshi) / 4 }, false},
		{"MaxSatoshi", func(int64) int64 { return int64(btcutil.MaxSatoshi) }, false},
		{"-1", func(int64) int64 { return -1 }, false},
		{"random<=1e6", func(int64) int64 { return 1 + rng.Int63n(1000000) }, false},
	}
	fbClasses := []struct {
		name string
		v    func(floor int64) int64
	}{
		{"0", func(int64) int64 { return 0 }}, {"1", func(int64) int64 { return 1 }}, {"floor-1", func(f int64) int64 { return f - 1 }},
		{"floor", func(f int64) int64 { return f }}, {"floor+1", func(f int64) int64 { return f + 1 }},
		{"6250", func(int64) int64 { return 6250 }}, {"1e6", func(int64) int64 { return 1000000 }},
	}
	sizeClass := func(s int64) string {
		switch {
		case s < 10:
			return "1..9"
		case s < 250:
			return "10..249"
		case s <= 1000:
			return "250..1000"
		case s < 100000:
			return "1001..99999"
		}
		return "1e5..1e6"
	}
	fixedSizes := []int64{1, 2, 9, 10, 39, 40, 249, 250, 251, 350, 999, 1000, 1001, 123457, 999999, 1000000}
	nB := 0
	rounds := r.N(20, 600)
	for round := 0; round < rounds; round++ {
		for _, floor := range []int64{25, 253} {
			for _, ec := range estClasses {
				for _, fc := range fbClasses {
					ev, fb := ec.v(floor), fc.v(floor)
					est := &c30Est{v: btcutil.Amount(ev)}
					if ec.err {
						est.err = errors.New("estimator unavailable")
					}
					b := onchain.NewBitcoinOnChain(est, btcutil.Amount(fb), btcutil.Amount(floor), &chaincfg.RegressionNetParams)
					sizes := fixedSizes
					if round > 0 {
						sizes = []int64{1 + rng.Int63n(1000000), 1 + rng.Int63n(1000), int64(math.Exp(rng.Float64() * math.Log(1e6))), 1 + rng.Int63n(1000000)}
					}
					for _, size := range sizes {
						if size < 1 {
							size = 1
						}
						r.Eval()
						nB++
						fee, err := b.GetFee(size)
						fallbackBranch := ec.err || ev == 0
						rate := ev
						branch := "estimate"
						if fallbackBranch {
							rate = fb
							branch = "fallback"
						}
						if rate < floor {
							rate = floor
							branch += "->floor"
						}
						if fallbackBranch {
							r.Seen(fmt.Sprintf("getfee/floor%d/est:%s/fb:%s/%s", floor, ec.name, fc.name, branch))
						} else {
							r.Seen(fmt.Sprintf("getfee/floor%d/est:%s/%s", floor, ec.name, branch))
						}
						r.Seen("getfee/size:" + sizeClass(size))
						exp := c30ExpFee(rate, size)
						bound := c30ExpFee(floor, size)
						wit := fmt.Sprintf("floor=%d fallback=%d estimator=(%d, err=%v) size=%d: GetFee=%d err=%v; floor bound %s, expected %s (rate %d)", floor, fb, ev, est.err, size, fee, err, bound, exp, rate)
						// one check: the fee is the exact value (1 sat tolerance), which implies the floor
						// bound; if the exact value does not fit uint64 only the floor bound is demanded.
						okFee := err == nil
						if okFee && exp.IsUint64() {
							okFee = c30Near(fee, exp)
						} else if okFee {
							r.Seen("getfee/expected-exceeds-uint64/est:" + ec.name)
							okFee = new(big.Int).SetUint64(fee).Cmp(new(big.Int).Sub(bound, big.NewInt(1))) >= 0
						}
						if new(big.Int).SetUint64(fee+1).Cmp(bound) < 0 {
							r.Count("getfee_below_floor_bound", 1)
							wit += " [below the floor bound]"
						}
						if !okFee {
							if fallbackBranch {
								r.Violate("getfee", fmt.Sprintf("C30|getfee|est:%s|fb:%s|not-value-of-max(fallback,floor)", ec.name, fc.name), wit, nil)
							} else {
								r.Violate("getfee", fmt.Sprintf("C30|getfee|est:%s|not-value-of-max(estimate,floor)", ec.name), wit, nil)
							}
						}
					}
				}
			}
		}
	}
	r.Extra["getfee_cases"] = nB

	// ----------------------------------------------------------------------------------
	// (C) GBitcoindEstimator behind a fake bitcoind
	// ----------------------------------------------------------------------------------
	type beClass struct {
		name  string
		satKB func(floor int64) float64 // sat/kB answered by estimatesmartfee
		fails bool                      // estimation fails (rpc error / unparsable)
		zero  bool
	}
	beClasses := []beClass{
		{"rpc-error", func(int64) float64 { return 0 }, true, false},
		{"zero-feerate(insufficient data)", func(int64) float64 { return 0 }, false, true},
		{"nan-feerate", func(int64) float64 { return math.NaN() }, true, false},
		{"1sat/kB", func(int64) float64 { return 1 }, false, false},
		{"floor-1", func(f int64) float64 { return float64(4 * (f - 1)) }, false, false},
		{"floor", func(f int64) float64 { return float64(4 * f) }, false, false},
		{"floor+1", func(f int64) float64 { return float64(4 * (f + 1)) }, false, false},
		{"floor+3/4", func(f int64) float64 { return float64(4*f + 3) }, false, false},
		{"23000sat/kB", func(int64) float64 { return 23000 }, false, false},
		{"1e6sat/kw", func(int64) float64 { return 4000000 }, false, false},
		{"negative", func(int64) float64 { return -1000 }, false, false},
		{"random", func(int64) float64 { return float64(1 + rng.Intn(400000)) }, false, false},
	}
	mpClasses := []struct {
		name    string
		started bool
		satKB   int64
	}{
		{"not-started", false, 0}, {"mempoolmin=0", true, 0}, {"mempoolmin=100sat/kB", true, 100}, {"mempoolmin=1000sat/kB", true, 1000},
		{"mempoolmin=1012sat/kB", true, 1012}, {"mempoolmin=5000sat/kB", true, 5000}, {"mempoolmin=40000sat/kB", true, 40000},
	}
	nC := 0
	for round := 0; round < r.N(2, 60); round++ {
		for _, floor := range []int64{25, 253} {
			for _, fc := range fbClasses {
				fb := fc.v(floor)
				for _, mc := range mpClasses {
					for _, bc := range beClasses {
						be := &c30Backend{mp: &gbitcoin.MempoolInfo{MempoolMinFee: float64(mc.satKB) / 1e8, MinRelayTxFee: float64(mc.satKB) / 1e8}}
						skb := bc.satKB(floor)
						if bc.name == "rpc-error" {
							be.feeErr = errors.New("rpc: connection refused")
						} else {
							be.fee = &gbitcoin.FeeResponse{FeeRate: skb / 1e8, Blocks: 6}
							if bc.zero {
								be.fee = &gbitcoin.FeeResponse{Errors: []string{"Insufficient data or no feerate found"}}
							}
						}
						ge, err := onchain.NewGBitcoindEstimator(be, "ECONOMICAL", btcutil.Amount(fb), btcutil.Amount(floor))
						if err != nil {
							r.Violate("gbitcoind", "C30|gbitcoind-estimator|constructor-error", err.Error(), nil)
							continue
						}
						if mc.started {
							if err := ge.Start(); err != nil {
								r.Violate("gbitcoind", "C30|gbitcoind-estimator|start-error", err.Error(), nil)
								continue
							}
						}
						r.Eval()
						nC++
						got, err := ge.EstimateFeePerKW(6)
						eff := floor
						if mc.started && mc.satKB/4 > eff {
							eff = mc.satKB / 4
						}
						var want int64
						branch := ""
						if bc.fails || bc.zero {
							want = fb
							branch = "fallback"
						} else {
							want = int64(math.Floor(skb / 4))
							branch = "estimate"
						}
						if want < eff {
							want = eff
							branch += "->node-floor"
						}
						r.Seen(fmt.Sprintf("gbitcoind/backend:%s/%s", bc.name, branch))
						r.Seen(fmt.Sprintf("gbitcoind/floor%d/%s", floor, mc.name))
						wit := fmt.Sprintf("version floor=%d fallback=%d %s backend estimatesmartfee=%s: EstimateFeePerKW=%d err=%v; node floor %d, expected %d (%s)",
							floor, fb, mc.name, bc.name, int64(got), err, eff, want, branch)
						d := int64(got) - want
						switch {
						case err != nil:
							r.Violate("gbitcoind", fmt.Sprintf("C30|gbitcoind-estimator|backend:%s|returned-error", bc.name), wit, nil)
						case int64(got) < floor:
							r.Violate("gbitcoind", fmt.Sprintf("C30|gbitcoind-estimator|backend:%s|below-version-floor", bc.name), wit, nil)
						case d > 1 || d < -1:
							if bc.fails || bc.zero {
								r.Violate("gbitcoind", fmt.Sprintf("C30|gbitcoind-estimator|backend:%s|not-max(fallback,floor)", bc.name), wit, nil)
							} else {
								r.Violate("gbitcoind", fmt.Sprintf("C30|gbitcoind-estimator|backend:%s|not-max(estimate,floor)", bc.name), wit, nil)
							}
						}
						// wired as in cmd/peerswap-plugin: BitcoinOnChain(fallback=floor, floor) on top
						size := int64(1 + rng.Intn(1000000))
						fee, ferr := onchain.NewBitcoinOnChain(ge, btcutil.Amount(floor), btcutil.Amount(floor), &chaincfg.RegressionNetParams).GetFee(size)
						if ferr != nil || new(big.Int).SetUint64(fee+1).Cmp(c30ExpFee(floor, size)) < 0 {
							r.Violate("gbitcoind", fmt.Sprintf("C30|gbitcoind+getfee|backend:%s|fee-below-floor-bound", bc.name), wit+fmt.Sprintf("; GetFee(%d)=%d err=%v", size, fee, ferr), nil)
						}
					}
				}
			}
		}
	}
	r.Extra["gbitcoind_estimator_cases"] = nC

	// ----------------------------------------------------------------------------------
	// (D) CompareVersionStrings
	// ----------------------------------------------------------------------------------
	nPairs, nErr := 0, 0
	checkPair := func(a, b string) {
		r.Eval()
		nPairs++
		ca, cb := c30Components(a), c30Components(b)
		fits := c30FitsInt(ca) && c30FitsInt(cb)
		ref := c30RefCmp(ca, cb)
		rel := map[int]string{-1: "a<b", 0: "a==b", 1: "a>b"}[ref]
		lens := "len:" + c30LenClass(len(ca)) + "v" + c30LenClass(len(cb))
		got, err := version.CompareVersionStrings(a, b)
		r.Seen("cmp-shape/" + c30Shape(a))
		r.Seen("cmp-shape/" + c30Shape(b))
		if err != nil {
			nErr++
			if fits {
				r.Violate("compare", fmt.Sprintf("C30|compare|error-without-int-overflow|%s", lens),
					fmt.Sprintf("CompareVersionStrings(%q, %q) error %v although every component fits an int", a, b, err), nil)
				return
			}
			r.Seen("cmp/error-on-int-overflow/" + rel)
			return
		}
		r.Seen(fmt.Sprintf("cmp/%s/%s", lens, rel))
		if got != (ref >= 0) {
			r.Violate("compare", fmt.Sprintf("C30|compare|differs-from-reference|ref:%s|%s", rel, lens),
				fmt.Sprintf("CompareVersionStrings(%q, %q) = %v, reference components %v vs %v give %s", a, b, got, ca, cb, rel), nil)
		}
	}
	fixed := []string{"", "v", "v0.1.2", "v22.11rc1", "v23.05", "23.05", "v23.05.1", "v23.5", "v23.05rc1", "v23.05.0", "v23.05-modded", "v24.02", "0.18.4-beta", "0.18.4-beta.rc1",
		"0.18", "0.18.0.0.0", "1", "1.0", "01.00", "v1", "10", "9", "v0.9", "v0.10", "25.09", "v25.09.1-3-gdeadbee"}
	for _, a := range fixed {
		for _, b := range fixed {
			checkPair(a, b)
		}
	}
	for i := 0; i < r.N(30000, 1000000); i++ {
		va := c30GenVer(rng, rng.Intn(2) == 0)
		var vb c30Ver
		if rng.Intn(10) < 4 {
			vb = c30Mutate(rng, va)
			if rng.Intn(3) == 0 {
				vb = c30Mutate(rng, vb)
			}
		} else {
			vb = c30GenVer(rng, rng.Intn(2) == 0)
		}
		if rng.Intn(2) == 0 {
			va, vb = vb, va
		}
		checkPair(va.String(), vb.String())
	}
	// order laws on all triples of pools of closely related strings
	nTriples := 0
	const poolN = 24
	for p := 0; p < r.N(40, 1500); p++ {
		pool := make([]string, 0, poolN)
		comps := make([][]*big.Int, 0, poolN)
		var last c30Ver
		for len(pool) < poolN {
			var v c30Ver
			if len(pool) > 0 && rng.Intn(2) == 0 {
				v = c30Mutate(rng, last)
			} else {
				v = c30GenVer(rng, true)
			}
			last = v
			s := v.String()
			c := c30Components(s)
			if !c30FitsInt(c) {
				continue
			}
			pool = append(pool, s)
			comps = append(comps, c)
		}
		var ge [poolN][poolN]bool
		bad := false
		for i := range pool {
			for j := range pool {
				r.Eval()
				g, err := version.CompareVersionStrings(pool[i], pool[j])
				if err != nil {
					r.Violate("compare", "C30|compare|error-without-int-overflow|law-pool", fmt.Sprintf("CompareVersionStrings(%q, %q): %v", pool[i], pool[j], err), nil)
					bad = true
				}
				ge[i][j] = g
			}
		}
		if bad {
			continue
		}
		for i := range pool {
			if !ge[i][i] {
				r.Violate("compare-laws", "C30|compare|law:reflexive", fmt.Sprintf("CompareVersionStrings(%q, same) = false", pool[i]), nil)
			}
			r.Seen("law/reflexive")
			for j := range pool {
				if !ge[i][j] && !ge[j][i] {
					r.Violate("compare-laws", "C30|compare|law:total", fmt.Sprintf("neither %q >= %q nor the converse", pool[i], pool[j]), nil)
				}
				r.Seen("law/total")
				if ge[i][j] && ge[j][i] {
					r.Seen("law/antisymmetric/both-directions-hold")
					if c30RefCmp(comps[i], comps[j]) != 0 {
						r.Violate("compare-laws", "C30|compare|law:antisymmetric", fmt.Sprintf("%q >= %q and converse, but components %v and %v differ", pool[i], pool[j], comps[i], comps[j]), nil)
					}
				}
				for k := range pool {
					nTriples++
					if ge[i][j] && ge[j][k] {
						if i != j && j != k && i != k {
							r.Seen("law/transitive/antecedent-holds")
						}
						if !ge[i][k] {
							r.Violate("compare-laws", "C30|compare|law:transitive", fmt.Sprintf("%q >= %q >= %q but not %q >= %q", pool[i], pool[j], pool[k], pool[i], pool[k]), nil)
						}
					}
				}
			}
		}
	}
	r.Extra["compare_pairs"] = nPairs
	r.Extra["compare_errors_on_overflow"] = nErr
	r.Extra["compare_law_triples"] = nTriples

	r.Sample(map[string]any{"monitor": "fee-floor", "input": "/Satoshi:29.2.0/Knots:20251010/", "expected_floor": 25})
	r.Sample(map[string]any{"monitor": "fee-floor", "input": "/Satoshi:29.1.99/", "expected_floor": 253})
	r.Sample(map[string]any{"monitor": "getfee", "floor": 253, "fallback": 6250, "estimator": "error", "size": 350, "expected_fee": c30ExpFee(6250, 350).String()})
	r.Sample(map[string]any{"monitor": "gbitcoind-estimator", "floor": 253, "fallback": 6250, "backend": "zero feerate", "expected": 6250})
	r.Sample(map[string]any{"monitor": "compare", "a": "v23.05", "b": "v23.5.0", "expected": "a>=b and b>=a"})
	r.Sample(map[string]any{"monitor": "compare", "a": "v22.11rc1", "b": "v23.05", "expected": "false"})
	r.Require(nA >= 10000 && nB >= 2000 && nC >= 1000 && nPairs >= 10000, "too few cases in one of the monitors")
	r.Require(nTriples >= 100000, "too few order-law triples")
}
