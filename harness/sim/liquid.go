package sim

import (
	"bytes"
	"crypto/rand"
	"encoding/hex"
	"errors"
	"fmt"

	"github.com/btcsuite/btcd/btcec/v2"
	"github.com/btcsuite/btcd/txscript"
	"github.com/elementsproject/peerswap/onchain"
	"github.com/elementsproject/peerswap/swap"
	"github.com/vulpemventures/go-elements/address"
	"github.com/vulpemventures/go-elements/confidential"
	"github.com/vulpemventures/go-elements/elementsutil"
	"github.com/vulpemventures/go-elements/network"
	"github.com/vulpemventures/go-elements/payment"
	"github.com/vulpemventures/go-elements/transaction"

	"verifharness/ref/tmpl"
)

// LiquidNet is the Elements network of the simulated world.
var LiquidNet = &network.Regtest

// PolicyAsset returns the 33-byte explicit serialisation of the policy asset.
func PolicyAsset() []byte {
	b, _ := hex.DecodeString(LiquidNet.AssetID)
	return append([]byte{0x01}, elementsutil.ReverseBytes(b)...)
}

// LiquidAddr is an address the simulated wallet handed out.
type LiquidAddr struct {
	Addr     string
	Script   []byte
	BlindKey *btcec.PrivateKey
}

// LiquidWallet is the elementsd-like wallet under the real onchain.LiquidOnChain.
type LiquidWallet struct {
	n     *Node
	Addrs []*LiquidAddr
	// Layout decides the order of [swap, change..., fee] outputs: returns the index of the
	// swap output among (1+changeOuts) non-fee outputs, the number of change outputs and
	// whether the fee output comes first. nil = swap first, one change, fee last.
	Layout func() (swapIndex, changeOuts int, feeFirst bool)
	// FeeErr makes GetFee fail.
	FeeErr bool
	Opened []string
}

func newLiquidWallet(n *Node) *LiquidWallet { return &LiquidWallet{n: n} }

func (l *LiquidWallet) forInc(inc *Incarnation) *onchain.LiquidOnChain {
	return onchain.NewLiquidOnChain(&liquidAdapter{l: l, inc: inc}, LiquidNet)
}

type liquidAdapter struct {
	l   *LiquidWallet
	inc *Incarnation
}

func (l *LiquidWallet) newAddr() *LiquidAddr {
	k, _ := btcec.NewPrivateKey()
	bk, _ := btcec.NewPrivateKey()
	p := payment.FromPublicKey(k.PubKey(), LiquidNet, bk.PubKey())
	a, err := p.ConfidentialWitnessPubKeyHash()
	if err != nil {
		panic(err)
	}
	s, _ := address.ToOutputScript(a)
	la := &LiquidAddr{Addr: a, Script: s, BlindKey: bk}
	l.n.w.mu.Lock()
	l.Addrs = append(l.Addrs, la)
	l.n.w.mu.Unlock()
	return la
}

// Own returns the wallet address record for a script (nil if foreign).
func (l *LiquidWallet) Own(script []byte) *LiquidAddr {
	l.n.w.mu.Lock()
	defer l.n.w.mu.Unlock()
	for _, a := range l.Addrs {
		if bytes.Equal(a.Script, script) {
			return a
		}
	}
	return nil
}

func (a *liquidAdapter) GetAddress() (string, error) { return a.l.newAddr().Addr, nil }
func (a *liquidAdapter) SendToAddress(string, uint64) (string, error) {
	return "", errors.New("not supported by the simulator")
}
func (a *liquidAdapter) GetBalance() (uint64, error) {
	a.l.n.w.mu.Lock()
	defer a.l.n.w.mu.Unlock()
	return a.l.n.Cfg.LbtcBalance, nil
}
func (a *liquidAdapter) GetFee(txSize int64) (uint64, error) {
	if a.l.FeeErr {
		return 0, errors.New("fee estimation failed")
	}
	return a.l.n.Cfg.LbtcFee, nil
}
func (a *liquidAdapter) SetLabel(txID, address, label string) error { return nil }
func (a *liquidAdapter) Ping() (bool, error)                        { return true, nil }

func rand32() []byte {
	b := make([]byte, 32)
	rand.Read(b)
	return b
}

// BlindedOut describes how to build one confidential output.
type BlindedOut struct {
	Script      []byte
	BlindPub    []byte // 33-byte blinding pubkey of the receiver
	Value       uint64
	Asset       []byte // 32-byte asset id committed to (internal byte order)
	RewindAsset []byte // asset disclosed in the range-proof message (nil = Asset)
	Abf         []byte // nil = random
	RewindAbf   []byte // nil = Abf
}

// BuildBlindedOutput makes a really blinded output (commitments, nonce, range proof, surjection proof
// against one explicit input of the policy asset).
func BuildBlindedOutput(o BlindedOut) (*transaction.TxOutput, error) {
	abf := o.Abf
	if abf == nil {
		abf = rand32()
	}
	vbf := rand32()
	ac, err := confidential.AssetCommitment(o.Asset, abf)
	if err != nil {
		return nil, err
	}
	vc, err := confidential.ValueCommitment(o.Value, ac, vbf)
	if err != nil {
		return nil, err
	}
	eph, _ := btcec.NewPrivateKey()
	nonce, err := confidential.NonceHash(o.BlindPub, eph.Serialize())
	if err != nil {
		return nil, err
	}
	rAsset, rAbf := o.RewindAsset, o.RewindAbf
	if rAsset == nil {
		rAsset = o.Asset
	}
	if rAbf == nil {
		rAbf = abf
	}
	var vbfA [32]byte
	copy(vbfA[:], vbf)
	rp, err := confidential.RangeProof(confidential.RangeProofArgs{
		Value: o.Value, Nonce: nonce, Asset: rAsset, AssetBlindingFactor: rAbf,
		ValueBlindFactor: vbfA, ValueCommit: vc, ScriptPubkey: o.Script, Exp: 0, MinBits: 52,
	})
	if err != nil {
		return nil, err
	}
	sp, ok := confidential.SurjectionProof(confidential.SurjectionProofArgs{
		OutputAsset: o.Asset, OutputAssetBlindingFactor: abf,
		InputAssets: [][]byte{o.Asset}, InputAssetBlindingFactors: [][]byte{make([]byte, 32)},
		Seed: rand32(),
	})
	if !ok {
		sp = nil
	}
	return &transaction.TxOutput{Asset: ac, Value: vc, Script: o.Script, Nonce: eph.PubKey().SerializeCompressed(), RangeProof: rp, SurjectionProof: sp}, nil
}

// ExplicitOut builds an unblinded output.
func ExplicitOut(asset33 []byte, value uint64, script []byte) *transaction.TxOutput {
	v, _ := elementsutil.ValueToBytes(value)
	return transaction.NewTxOutput(asset33, v, script)
}

// FundLiquid builds a funding transaction with fake wallet inputs and the given outputs.
func FundLiquid(inputs int, outs []*transaction.TxOutput) (*transaction.Transaction, string) {
	tx := transaction.NewTx(2)
	for i := 0; i < inputs; i++ {
		in := transaction.NewTxInput(rand32(), uint32(i))
		in.Witness = transaction.TxWitness{{0x30}, {0x02}}
		tx.AddInput(in)
	}
	for _, o := range outs {
		tx.AddOutput(o)
	}
	h, _ := tx.ToHex()
	return tx, h
}

func (a *liquidAdapter) CreateAndBroadcastTransaction(p *swap.OpeningParams, asset []byte) (string, string, uint64, error) {
	l := a.l
	script, err := address.ToOutputScript(p.OpeningAddress)
	if err != nil {
		return "", "", 0, err
	}
	l.n.w.mu.Lock()
	bal := l.n.Cfg.LbtcBalance
	l.n.w.mu.Unlock()
	fee := l.n.Cfg.LbtcFee
	if p.Amount+fee > bal {
		return "", "", 0, errors.New("Insufficient funds")
	}
	swapIdx, changeOuts, feeFirst := 0, 1, false
	if l.Layout != nil {
		swapIdx, changeOuts, feeFirst = l.Layout()
	}
	assetID := asset[1:]
	swapOut, err := BuildBlindedOutput(BlindedOut{Script: script, BlindPub: p.BlindingKey.PubKey().SerializeCompressed(), Value: p.Amount, Asset: assetID})
	if err != nil {
		return "", "", 0, err
	}
	var outs []*transaction.TxOutput
	total := changeOuts + 1
	if swapIdx >= total {
		swapIdx = total - 1
	}
	feeOut := ExplicitOut(asset, fee, []byte{})
	if feeFirst {
		outs = append(outs, feeOut)
	}
	for i := 0; i < total; i++ {
		if i == swapIdx {
			outs = append(outs, swapOut)
			continue
		}
		ca := l.newAddr()
		co, err := BuildBlindedOutput(BlindedOut{Script: ca.Script, BlindPub: ca.BlindKey.PubKey().SerializeCompressed(), Value: 20_000 + uint64(i)*333, Asset: assetID})
		if err != nil {
			return "", "", 0, err
		}
		outs = append(outs, co)
	}
	if !feeFirst {
		outs = append(outs, feeOut)
	}
	_, txHex := FundLiquid(2, outs)
	ct, err := l.n.w.LBTC.AddWalletTx(txHex, l.n.Name, "open")
	if err != nil {
		return "", "", 0, err
	}
	l.n.w.mu.Lock()
	l.Opened = append(l.Opened, ct.ID)
	l.n.Cfg.LbtcBalance -= p.Amount + fee
	l.n.w.mu.Unlock()
	return ct.ID, txHex, fee, nil
}

func (a *liquidAdapter) SendRawTx(rawTx string) (string, error) {
	kind := "raw"
	if tx, err := transaction.NewTxFromHex(rawTx); err == nil && len(tx.Inputs) == 1 {
		switch len(tx.Inputs[0].Witness) {
		case 5:
			kind = "preimage"
		case 4:
			kind = "coop"
		case 2:
			kind = "csv"
		}
	}
	ct, err := a.l.n.w.LBTC.Broadcast(rawTx, a.l.n.Name, kind)
	if err != nil {
		return "", err
	}
	return ct.ID, nil
}

// ---------------------------------------------------------------------------
// chain side

func parseLiquidTx(hexStr string) (*ChainTx, error) {
	t, err := transaction.NewTxFromHex(hexStr)
	if err != nil {
		return nil, err
	}
	tx := &ChainTx{ID: t.TxHash().String(), Hex: hexStr, Version: t.Version, Raw: t}
	for _, in := range t.Inputs {
		tx.Ins = append(tx.Ins, OutRef{hex.EncodeToString(elementsutil.ReverseBytes(in.Hash)), in.Index})
		tx.Seqs = append(tx.Seqs, in.Sequence)
	}
	for _, o := range t.Outputs {
		co := ChainOut{Script: o.Script, Value: -1, Raw: o}
		if len(o.Value) == 9 && o.Value[0] == 1 {
			v, _ := elementsutil.ValueFromBytes(o.Value)
			co.Value = int64(v)
		}
		tx.Outs = append(tx.Outs, co)
	}
	return tx, nil
}

// checkLiquidSpend validates a spend of a P2WSH output with the independent template
// interpreter and the Elements segwit-v0 signature hash over the real value commitment.
// Other output types (wallet outputs) are not spent in the simulator.
func checkLiquidSpend(c *Chain, tx *ChainTx, idx int, prev *ChainTx, out ChainOut) error {
	t := tx.Raw.(*transaction.Transaction)
	po := out.Raw.(*transaction.TxOutput)
	if len(out.Script) != 34 || out.Script[0] != 0 || out.Script[1] != 0x20 {
		return errors.New("simulator: only P2WSH outputs can be spent")
	}
	ctx := &tmpl.Ctx{TxVersion: t.Version, Sequence: t.Inputs[idx].Sequence,
		SigHash: func(ht byte, sc []byte) ([]byte, error) {
			h := t.HashForWitnessV0(idx, sc, po.Value, txscript.SigHashType(ht))
			return h[:], nil
		}}
	if err := tmpl.VerifyP2WSH(out.Script, t.Inputs[idx].Witness, ctx); err != nil {
		return err
	}
	// outputs: every confidential output must carry verifiable proofs
	for i, o := range t.Outputs {
		if !o.IsConfidential() {
			continue
		}
		if !confidential.VerifyRangeProof(o.Value, o.Asset, o.Script, o.RangeProof) {
			return fmt.Errorf("bad range proof on output %d", i)
		}
	}
	return nil
}

// OwnLocked is Own for online monitors (world lock already held).
func (l *LiquidWallet) OwnLocked(script []byte) *LiquidAddr {
	for _, a := range l.Addrs {
		if bytes.Equal(a.Script, script) {
			return a
		}
	}
	return nil
}
