package sim

import (
	"context"
	"encoding/hex"
	"fmt"
	"os"
	"path/filepath"
	"runtime/debug"
	"strings"
	"sync"
	"sync/atomic"
	"time"

	"github.com/btcsuite/btcd/btcec/v2"
	"github.com/elementsproject/peerswap/messages"
	"github.com/elementsproject/peerswap/policy"
	"github.com/elementsproject/peerswap/premium"
	"github.com/elementsproject/peerswap/swap"
	"go.etcd.io/bbolt"
)

// NodeConfig configures a real node under test.
type NodeConfig struct {
	BitcoinEnabled bool
	LiquidEnabled  bool
	PolicyText     string // initial content of the policy file
	Impl           string // "CLN" / "LND" (Implementation())
	Pers           Personality
	BtcBalance     uint64 // on-chain sats
	LbtcBalance    uint64
	BtcFeePerKw    int64 // estimator answer (0 = fallback), <0 = estimator error
	LbtcFee        uint64
	// PremiumPPM, if set, holds default premium rates "btc/in", "btc/out", "lbtc/in", "lbtc/out" (ppm) that the
	// operator configured (stored through the real premium.Setting at every start).
	PremiumPPM map[string]int64
	// BtcAdapter selects the Bitcoin wallet adapter: "" = the harness mirror of clightning_wallet.go over the real
	// onchain helpers; "cln" = the real clightning.ClightningClient wallet methods over a fake lightningd / bitcoind.
	BtcAdapter string
	CLNVersion string // version reported by the fake lightningd ("" = v24.08)
	// BtcNetworkName, if set, is what the Bitcoin wallet reports as its network (bitcoind's "chain": mainnet,
	// testnet3, testnet4, signet, regtest); transactions are built with the simulator's parameters all the same.
	BtcNetworkName string
}

// DefaultNodeConfig is a permissive two-chain configuration.
func DefaultNodeConfig() NodeConfig {
	return NodeConfig{
		BitcoinEnabled: true, LiquidEnabled: true,
		PolicyText: "accept_all_peers=1\nmin_swap_amount_msat=1000000\n",
		Impl:       "CLN",
		BtcBalance: 50_000_000, LbtcBalance: 50_000_000,
		BtcFeePerKw: 1000, LbtcFee: 300,
	}
}

// Node is a real peerswap node (swap service + stores + policy) in the world.
type Node struct {
	w    *World
	Name string
	ID   string // 33-byte compressed pubkey, hex
	Dir  string
	Cfg  NodeConfig

	incMu sync.Mutex
	inc   *Incarnation
	incN  int

	crossings atomic.Int64
	// crash plan: crash at the CrashAt-th crossing of this node (0 = never).
	CrashAt     int64
	CrashFlavor string // "before" | "after"
	// Fault is consulted at every crossing; a non-nil error is returned to the node instead of the effect.
	Fault func(op string) error
	// OnCrossing is called at every crossing before the crash plan is applied.
	OnCrossing func(k int64, op string)
	// CrossLog records op names per crossing index (1-based) when RecordCrossings is set.
	RecordCrossings bool
	CrossOps        []string

	BtcW  *BtcWallet
	LbtcW *LiquidWallet
}

// Incarnation is one process lifetime of a node.
type Incarnation struct {
	N      int
	node   *Node
	dead   atomic.Bool
	closed atomic.Bool
	deadCh chan struct{}
	ready  chan struct{} // closed once Start has finished wiring the incarnation (hooks installed)

	DB      *bbolt.DB
	Store   swap.Store // the real bbolt store
	Svc     *swap.SwapService
	Policy  *policy.Policy
	Premium *premium.Setting
	Mgr     *messages.Manager
	MgrWrap *mgrWrap
	BtcWat  *RefWatcher
	LbtcWat *RefWatcher

	hMu     sync.Mutex
	handler func(peerId string, msgType string, payload []byte) error
	payCb   func(swapId string, invoiceType swap.InvoiceType)
	// ExtBtcWatcher / ExtLbtcWatcher replace the reference watcher (W-real).
}

// AddNode creates a node (not yet started).
func (w *World) AddNode(name string, cfg NodeConfig) *Node {
	priv, _ := btcec.NewPrivateKey()
	id := hex.EncodeToString(priv.PubKey().SerializeCompressed())
	dir := filepath.Join(w.BaseDir, name)
	os.MkdirAll(dir, 0o755)
	n := &Node{w: w, Name: name, ID: id, Dir: dir, Cfg: cfg}
	os.WriteFile(n.PolicyPath(), []byte(cfg.PolicyText), 0o644)
	n.BtcW = newBtcWallet(n)
	n.LbtcW = newLiquidWallet(n)
	w.Nodes[name] = n
	w.nodeOrder = append(w.nodeOrder, name)
	w.byKey[id] = name
	return n
}

// World returns the world the node lives in.
func (n *Node) World() *World { return n.w }

// PolicyPath is the node's policy file.
func (n *Node) PolicyPath() string { return filepath.Join(n.Dir, "policy.conf") }

// DBPath is the node's bbolt file.
func (n *Node) DBPath() string { return filepath.Join(n.Dir, "swaps") }

// Inc returns the current incarnation (may be dead or nil).
func (n *Node) Inc() *Incarnation {
	n.incMu.Lock()
	defer n.incMu.Unlock()
	return n.inc
}

// Alive reports whether the node has a live incarnation.
func (n *Node) Alive() bool {
	inc := n.Inc()
	return inc != nil && !inc.dead.Load()
}

// StartOpts tune the start sequence.
type StartOpts struct {
	// NoRecover skips RecoverSwaps (caller runs it later: restart window).
	NoRecover bool
	// ExtWatchers lets the caller supply real watchers instead of the reference ones.
	BtcWatcher, LbtcWatcher swap.TxWatcher
}

// Start boots a new incarnation exactly like the mains do: open db, stores,
// policy, premium settings, manager, services, Start(), RecoverSwaps().
func (n *Node) Start(opts ...StartOpts) error {
	var o StartOpts
	if len(opts) > 0 {
		o = opts[0]
	}
	n.incMu.Lock()
	if n.inc != nil && !n.inc.dead.Load() {
		n.incMu.Unlock()
		return fmt.Errorf("node %s already running", n.Name)
	}
	n.incN++
	inc := &Incarnation{N: n.incN, node: n, deadCh: make(chan struct{}), ready: make(chan struct{})}
	n.incMu.Unlock()
	var readyOnce sync.Once
	markReady := func() { readyOnce.Do(func() { close(inc.ready) }) }
	defer markReady()

	db, err := bbolt.Open(n.DBPath(), 0o700, &bbolt.Options{Timeout: 5 * time.Second, NoSync: true, NoFreelistSync: true})
	if err != nil {
		return err
	}
	inc.DB = db
	st, err := swap.NewBboltStore(db)
	if err != nil {
		return err
	}
	inc.Store = st
	rs, err := swap.NewRequestedSwapsStore(db)
	if err != nil {
		return err
	}
	pol, err := policy.CreateFromFile(n.PolicyPath())
	if err != nil {
		db.Close()
		return fmt.Errorf("policy: %w", err)
	}
	inc.Policy = pol
	ps, err := premium.NewSetting(db)
	if err != nil {
		return err
	}
	inc.Premium = ps
	for k, ppm := range n.Cfg.PremiumPPM {
		asset, op := premium.BTC, premium.SwapIn
		if strings.HasPrefix(k, "lbtc/") {
			asset = premium.LBTC
		}
		if strings.HasSuffix(k, "/out") {
			op = premium.SwapOut
		}
		if pr, err := premium.NewPremiumRate(asset, op, premium.NewPPM(ppm)); err == nil {
			ps.SetDefaultRate(context.Background(), pr)
		}
	}
	inc.Mgr = messages.NewManager()
	inc.MgrWrap = &mgrWrap{inc: inc, real: inc.Mgr, live: map[string]int{}}
	inc.BtcWat = newRefWatcher(inc, n.w.BTC, 3)
	inc.LbtcWat = newRefWatcher(inc, n.w.LBTC, 2)
	var btcW, lbtcW swap.TxWatcher = inc.BtcWat, inc.LbtcWat
	if o.BtcWatcher != nil {
		btcW = o.BtcWatcher
	}
	if o.LbtcWatcher != nil {
		lbtcW = o.LbtcWatcher
	}

	ln := &lnWrap{inc: inc}
	ms := &msgWrap{inc: inc}
	var btcReal swap.Wallet = n.BtcW.forInc(inc)
	if n.Cfg.BtcAdapter == "cln" {
		// the real clightning wallet adapter over a fake lightningd and a fake bitcoind
		cw, err := n.BtcW.newCLNWallet(inc)
		if err != nil {
			return err
		}
		btcReal = cw
	} else if n.Cfg.BtcAdapter == "lnd" {
		// the real lnd wallet adapter over fakes of the lightning and wallet-kit rpc interfaces
		btcReal = n.BtcW.newLNDWallet(inc)
	}
	btcWallet := &walletWrap{inc: inc, chain: "btc", real: btcReal}
	btcVal := &validatorWrap{inc: inc, chain: "btc", real: n.BtcW.onchain}
	lw := n.LbtcW.forInc(inc)
	lbtcWallet := &walletWrap{inc: inc, chain: "lbtc", real: lw}
	lbtcVal := &validatorWrap{inc: inc, chain: "lbtc", real: lw}

	services := swap.NewSwapServices(
		&storeWrap{inc: inc, real: st}, rs, ln, ms, inc.MgrWrap, &policyWrap{inc: inc, real: pol},
		n.Cfg.BitcoinEnabled, btcWallet, btcVal, &watcherWrap{inc: inc, chain: "btc", real: btcW},
		n.Cfg.LiquidEnabled, lbtcWallet, lbtcVal, &watcherWrap{inc: inc, chain: "lbtc", real: lbtcW},
		ps,
	)
	inc.Svc = swap.NewSwapService(services)
	n.incMu.Lock()
	n.inc = inc
	n.incMu.Unlock()
	n.w.Emit(n.Name, inc.N, "node.start", EvNote{})
	if err := inc.Svc.Start(); err != nil {
		return err
	}
	inc.Svc.VerifSetTimeouts(func(ctx context.Context, d time.Duration, swapId string, fire func()) {
		n.w.mu.Lock()
		n.w.addTimerLocked(n.Name, inc.N, swapId, d, ctx.Done(), fire)
		n.w.emitLocked(n.Name, inc.N, "timer.arm", EvNote{Note: swapId})
		n.w.mu.Unlock()
	})
	markReady()
	if !o.NoRecover {
		n.Recover()
	}
	return nil
}

// Recover runs RecoverSwaps of the current incarnation (completes on return or death).
func (n *Node) Recover() string {
	inc := n.Inc()
	if inc == nil {
		return ""
	}
	n.w.Emit(n.Name, inc.N, "node.recover", EvNote{})
	p := n.Call(func() { inc.Svc.RecoverSwaps() })
	n.w.Emit(n.Name, inc.N, "node.recover.ret", EvRet{Panic: p})
	return p
}

// Crash kills the current incarnation (as if the process received SIGKILL).
func (n *Node) Crash() {
	inc := n.Inc()
	if inc == nil || inc.dead.Load() {
		return
	}
	inc.die("external", 0)
}

// Restart = Crash (if alive) + close db + Start.
func (n *Node) Restart(opts ...StartOpts) error {
	n.Crash()
	n.closeInc()
	return n.Start(opts...)
}

func (n *Node) closeInc() {
	inc := n.Inc()
	if inc == nil || inc.DB == nil || !inc.closed.CompareAndSwap(false, true) {
		return
	}
	// the DB field is never cleared (goroutines of the dead incarnation may still read it); a closed
	// bbolt handle answers every later call with an error
	done := make(chan struct{})
	go func() { inc.DB.Close(); close(done) }()
	select {
	case <-done:
	case <-time.After(10 * time.Second):
		panic("harness: bbolt close blocked (a parked goroutine holds a transaction)")
	}
}

// Stop kills the incarnation and closes its database file (so that the file can be edited).
func (n *Node) Stop() { n.shutdown() }

func (n *Node) shutdown() {
	n.Crash()
	n.closeInc()
}

func (inc *Incarnation) die(flavor string, at int64) {
	if inc.dead.CompareAndSwap(false, true) {
		close(inc.deadCh)
		inc.node.w.Emit(inc.node.Name, inc.N, "node.crash", EvCrash{At: at, Flavor: flavor})
	}
}

// parkForever is where goroutines of a dead incarnation stop, like threads of a killed process.
//
//go:noinline
func parkForever() {
	select {}
}

// enter is called at the beginning of every boundary crossing.
func (inc *Incarnation) enter(op string) (int64, error) {
	if inc.dead.Load() {
		parkForever()
	}
	n := inc.node
	k := n.crossings.Add(1)
	if n.RecordCrossings {
		n.w.mu.Lock()
		n.CrossOps = append(n.CrossOps, op)
		n.w.mu.Unlock()
	}
	if n.OnCrossing != nil {
		n.OnCrossing(k, op)
	}
	if n.CrashAt == k && n.CrashFlavor != "after" {
		inc.die("before:"+op, k)
		parkForever()
	}
	if n.Fault != nil {
		if err := n.Fault(op); err != nil {
			n.w.Emit(n.Name, inc.N, "fault", EvCall{Op: op, Err: err.Error()})
			return k, err
		}
	}
	return k, nil
}

// leave is called after the effect of a crossing, before the result is returned.
func (inc *Incarnation) leave(k int64, op string) {
	n := inc.node
	if n.CrashAt == k && n.CrashFlavor == "after" {
		inc.die("after:"+op, k)
		parkForever()
	}
	if inc.dead.Load() {
		parkForever()
	}
}

// Crossings returns the number of boundary crossings so far.
func (n *Node) Crossings() int64 { return n.crossings.Load() }

// Call runs fn (a call into the node) in its own goroutine and returns when it
// returned or the incarnation died. A panic inside fn is caught and returned as text.
func (n *Node) Call(fn func()) (panicText string) {
	return n.callOn(n.Inc(), fn)
}

// Call is Node.Call bound to this incarnation (returns when fn returned or this incarnation died).
func (inc *Incarnation) Call(fn func()) string { return inc.node.callOn(inc, fn) }

func (n *Node) callOn(inc *Incarnation, fn func()) (panicText string) {
	done := make(chan string, 1)
	go func() {
		defer func() {
			if r := recover(); r != nil {
				done <- fmt.Sprintf("%v\n%s", r, debug.Stack())
				return
			}
			done <- ""
		}()
		if inc != nil {
			// a call that arrives while the incarnation is still being wired (hooks not yet installed) waits, as a
			// delivery does
			inc.waitReady()
		}
		fn()
	}()
	var dead chan struct{}
	if inc != nil {
		dead = inc.deadCh
	}
	wd := time.NewTimer(120 * time.Second)
	defer wd.Stop()
	var limit <-chan time.Time
	if n.w.CallBlockLimit > 0 {
		lt := time.NewTimer(n.w.CallBlockLimit)
		defer lt.Stop()
		limit = lt.C
	}
	select {
	case p := <-done:
		return p
	case <-limit:
		// the call is blocked inside the node (e.g. waiting for a pending payment): the scenario
		// continues, the call finishes in the background
		n.w.blocked.Add(1)
		n.w.Emit(n.Name, inc.N, "call.blocked", EvNote{})
		go func() {
			select {
			case p := <-done:
				n.w.Emit(n.Name, inc.N, "call.late-return", EvRet{Panic: p})
			case <-dead:
			}
			n.w.blocked.Add(-1)
		}()
		return ""
	case <-dead:
		// give a goroutine that was about to finish the chance to report a panic
		select {
		case p := <-done:
			return p
		case <-time.After(2 * time.Millisecond):
		}
		return ""
	case <-wd.C:
		return "HARNESS-WATCHDOG: call did not return within 120s"
	}
}

func (inc *Incarnation) msgHandler() func(string, string, []byte) error {
	inc.waitReady()
	inc.hMu.Lock()
	defer inc.hMu.Unlock()
	return inc.handler
}

// waitReady holds a delivery back while the incarnation is still being started (a message that
// reaches the socket while the daemon boots): the verif timeout hook is installed after Start.
func (inc *Incarnation) waitReady() {
	select {
	case <-inc.ready:
	case <-inc.deadCh:
	}
}

func (inc *Incarnation) payCallback() func(string, int) {
	inc.waitReady()
	inc.hMu.Lock()
	defer inc.hMu.Unlock()
	if inc.payCb == nil {
		return nil
	}
	cb := inc.payCb
	return func(id string, t int) { cb(id, swap.InvoiceType(t)) }
}

// ---------------------------------------------------------------------------
// convenience calls into the node

// SwapOut starts a swap-out on the running incarnation.
func (n *Node) SwapOut(peerID, chain, scid string, amtSat uint64, premiumLimitPPM int64) (sm *swap.SwapStateMachine, err error, panicText string) {
	inc := n.Inc()
	n.w.Emit(n.Name, inc.N, "call.swapout", EvCall{Op: "swapout", Args: fmt.Sprintf("%s %s %s %d %d", peerID, chain, scid, amtSat, premiumLimitPPM)})
	// the call may be abandoned (incarnation killed while it runs): its results are only read if it completed
	type result struct {
		sm  *swap.SwapStateMachine
		err error
	}
	done := make(chan result, 1)
	panicText = n.callOn(inc, func() { // bound to the incarnation whose service is called: the node may be restarted meanwhile
		s, e := inc.Svc.SwapOut(peerID, chain, scid, n.ID, amtSat, premiumLimitPPM)
		done <- result{s, e}
	})
	select {
	case r := <-done:
		sm, err = r.sm, r.err
	default:
	}
	es := ""
	if err != nil {
		es = err.Error()
	}
	n.w.Emit(n.Name, inc.N, "call.swapout.ret", EvRet{Err: es, Panic: panicText})
	return
}

// SwapIn starts a swap-in on the running incarnation.
func (n *Node) SwapIn(peerID, chain, scid string, amtSat uint64, premiumLimitPPM int64) (sm *swap.SwapStateMachine, err error, panicText string) {
	inc := n.Inc()
	n.w.Emit(n.Name, inc.N, "call.swapin", EvCall{Op: "swapin", Args: fmt.Sprintf("%s %s %s %d %d", peerID, chain, scid, amtSat, premiumLimitPPM)})
	// the call may be abandoned (incarnation killed while it runs): its results are only read if it completed
	type result struct {
		sm  *swap.SwapStateMachine
		err error
	}
	done := make(chan result, 1)
	panicText = n.callOn(inc, func() { // bound to the incarnation whose service is called: the node may be restarted meanwhile
		s, e := inc.Svc.SwapIn(peerID, chain, scid, n.ID, amtSat, premiumLimitPPM)
		done <- result{s, e}
	})
	select {
	case r := <-done:
		sm, err = r.sm, r.err
	default:
	}
	es := ""
	if err != nil {
		es = err.Error()
	}
	n.w.Emit(n.Name, inc.N, "call.swapin.ret", EvRet{Err: es, Panic: panicText})
	return
}

// StoredSwaps reads all persisted swaps through an independent read of the db file's
// current incarnation handle (committed data only).
func (n *Node) StoredSwaps() map[string][]byte {
	inc := n.Inc()
	res := map[string][]byte{}
	if inc == nil || inc.DB == nil {
		return res
	}
	inc.DB.View(func(tx *bbolt.Tx) error {
		b := tx.Bucket([]byte("swaps"))
		if b == nil {
			return nil
		}
		return b.ForEach(func(k, v []byte) error {
			res[hex.EncodeToString(k)] = append([]byte(nil), v...)
			return nil
		})
	})
	return res
}

// StoredSwap decodes the committed record of a swap (nil if absent).
func (n *Node) StoredSwap(id string) *swap.SwapStateMachine {
	inc := n.Inc()
	if inc == nil || inc.DB == nil {
		return nil
	}
	sm, err := inc.Store.GetData(id)
	if err != nil {
		return nil
	}
	return sm
}

// InjectMsg enqueues a message to this node as if sent by node id `from`.
func (w *World) InjectMsg(from, toName string, msgType int, payload []byte) {
	w.mu.Lock()
	w.enqueueLocked(&qItem{kind: qMsg, to: toName, from: from, msgType: msgType, payload: append([]byte(nil), payload...)})
	w.mu.Unlock()
}

// DeliverNow delivers a message synchronously (bypassing the queue); returns handler error text and panic text.
func (w *World) DeliverNow(from, toName string, msgTypeHex string, payload []byte) (errText, panicText string) {
	n := w.Nodes[toName]
	inc := n.Inc()
	if inc == nil || inc.dead.Load() {
		return "dead", ""
	}
	h := inc.msgHandler()
	if h == nil {
		return "nohandler", ""
	}
	var err error
	panicText = n.callOn(inc, func() { err = h(from, msgTypeHex, payload) })
	if err != nil {
		errText = err.Error()
	}
	return
}

// StoredSwapLocked is StoredSwap for online monitors (it does not touch the world lock).
func (n *Node) StoredSwapLocked(id string) *swap.SwapStateMachine { return n.StoredSwap(id) }
