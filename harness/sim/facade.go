package sim

import (
	"context"
	"crypto/sha256"
	"errors"
	"fmt"
	"strings"
	"sync"
	"sync/atomic"

	goelectrum "github.com/checksum0/go-electrum/electrum"
	"github.com/elementsproject/peerswap/txwatcher"
)

// ChainSnap is the ground truth at one chain version.
type ChainSnap struct {
	Version int64
	Tip     uint32
	// Heights of every known transaction (0 = mempool).
	Heights map[string]uint32
	// Spent outputs (txid:vout).
	Spent map[string]bool
}

// snapLocked records the ground truth of the current version (world lock held).
func (c *Chain) snapLocked() {
	if !c.KeepHistory {
		return
	}
	s := ChainSnap{Version: c.Version, Tip: c.heightLocked(), Heights: map[string]uint32{}, Spent: map[string]bool{}}
	for id, tx := range c.txs {
		s.Heights[id] = tx.Height
	}
	for o := range c.spent {
		s.Spent[fmt.Sprintf("%s:%d", o.TxID, o.Vout)] = true
	}
	c.Snaps = append(c.Snaps, s)
}

// SnapsSince returns the snapshots with version >= v (and the one just before, which was current at v).
func (c *Chain) SnapsSince(v int64) []ChainSnap {
	c.w.mu.Lock()
	defer c.w.mu.Unlock()
	var r []ChainSnap
	for i, s := range c.Snaps {
		if s.Version >= v {
			if len(r) == 0 && i > 0 {
				r = append(r, c.Snaps[i-1])
			}
			r = append(r, s)
		}
	}
	if len(r) == 0 && len(c.Snaps) > 0 {
		r = append(r, c.Snaps[len(c.Snaps)-1])
	}
	return r
}

// VersionNow returns the current chain version.
func (c *Chain) VersionNow() int64 {
	c.w.mu.Lock()
	defer c.w.mu.Unlock()
	return c.Version
}

// Answer is one RPC answer stamped with the chain version it was computed from.
type Answer struct {
	Seq     int64
	Call    string
	Version int64
	Err     bool
}

// RpcFacade implements txwatcher.BlockchainRpc (bitcoind / elementsd) over the chain simulator.
type RpcFacade struct {
	C *Chain
	// Hook runs before every call (outside any lock): it may mutate the chain or return an error to inject.
	Hook func(call string) error
	// StaleBest makes the next n gettxout answers carry the previous best block hash.
	StaleBest int
	// UnknownOutputs makes the next n gettxout answers null ("no such unspent output").
	UnknownOutputs atomic.Int32

	mu      sync.Mutex
	seq     int64
	Answers []Answer
}

func (f *RpcFacade) stamp(call string, v int64, err bool) {
	f.mu.Lock()
	f.seq++
	f.Answers = append(f.Answers, Answer{Seq: f.seq, Call: call, Version: v, Err: err})
	f.mu.Unlock()
}

// RecentVersion returns the smallest version among the last n answers (the window in which the watcher can
// have formed its opinion) and the number of answers so far.
func (f *RpcFacade) RecentVersion(n int) (int64, int) {
	f.mu.Lock()
	defer f.mu.Unlock()
	if len(f.Answers) == 0 {
		return 0, 0
	}
	lo := f.Answers[len(f.Answers)-1].Version
	for i := len(f.Answers) - 1; i >= 0 && i >= len(f.Answers)-n; i-- {
		if f.Answers[i].Version < lo {
			lo = f.Answers[i].Version
		}
	}
	return lo, len(f.Answers)
}

func (f *RpcFacade) pre(call string) error {
	if f.Hook != nil {
		if err := f.Hook(call); err != nil {
			f.stamp(call, f.C.VersionNow(), true)
			return err
		}
	}
	return nil
}

func (f *RpcFacade) GetBlockHeight() (uint64, error) {
	if err := f.pre("getblockcount"); err != nil {
		return 0, err
	}
	w := f.C.w
	w.mu.Lock()
	h, v := f.C.heightLocked(), f.C.Version
	w.mu.Unlock()
	f.stamp("getblockcount", v, false)
	return uint64(h) + uint64(f.C.HeightOffset), nil
}

func (f *RpcFacade) GetBlockHash(height uint32) (string, error) {
	if err := f.pre("getblockhash"); err != nil {
		return "", err
	}
	w := f.C.w
	w.mu.Lock()
	defer w.mu.Unlock()
	h := height - f.C.HeightOffset
	f.stampLocked("getblockhash")
	if int(h) >= len(f.C.hashes) {
		return "", errors.New("Block height out of range")
	}
	return f.C.hashes[h], nil
}

func (f *RpcFacade) stampLocked(call string) { f.stamp(call, f.C.Version, false) }

func (f *RpcFacade) GetTxOut(txid string, vout uint32) (*txwatcher.TxOutResp, error) {
	if err := f.pre("gettxout"); err != nil {
		return nil, err
	}
	w := f.C.w
	w.mu.Lock()
	defer w.mu.Unlock()
	f.stampLocked("gettxout")
	if f.UnknownOutputs.Load() > 0 {
		// the backend does not know the transaction right now (restarted with an empty mempool, a node behind a
		// load balancer that has not seen it yet, the block just reorganised away): gettxout answers null
		f.UnknownOutputs.Add(-1)
		return nil, nil
	}
	tx := f.C.txs[txid]
	if tx == nil || int(vout) >= len(tx.Outs) {
		return nil, nil
	}
	if _, spent := f.C.spent[OutRef{txid, vout}]; spent {
		return nil, nil
	}
	best := f.C.hashes[len(f.C.hashes)-1]
	if f.StaleBest > 0 && len(f.C.hashes) > 1 {
		f.StaleBest--
		best = f.C.hashes[len(f.C.hashes)-2]
	}
	return &txwatcher.TxOutResp{BestBlockHash: best, Confirmations: f.C.confsLocked(txid), Value: 0.001}, nil
}

func (f *RpcFacade) GetRawtransactionWithBlockHash(txID string, blockHash string) (string, error) {
	if err := f.pre("getrawtransaction"); err != nil {
		return "", err
	}
	w := f.C.w
	w.mu.Lock()
	defer w.mu.Unlock()
	f.stampLocked("getrawtransaction")
	tx := f.C.txs[txID]
	if tx == nil {
		return "", errors.New("No such mempool or blockchain transaction")
	}
	if tx.Height == 0 || int(tx.Height) >= len(f.C.hashes) || f.C.hashes[tx.Height] != blockHash {
		return "", errors.New("No such transaction found in the provided block")
	}
	return tx.Hex, nil
}

// ---------------------------------------------------------------------------
// Electrum

// ElectrumFacade implements electrum.RPC over the chain simulator.
type ElectrumFacade struct {
	C    *Chain
	Hook func(call string) error
	mu   sync.Mutex
	subs []chan *goelectrum.SubscribeHeadersResult
	seq  int64
	// Answers as for the rpc facade.
	Answers []Answer
	// hdr holds the chain version of every header notification queued for the first subscriber, in order: a
	// subscriber that lags behind is still looking at the chain of the header it is processing
	hdr []int64
}

func (e *ElectrumFacade) stamp(call string, v int64) {
	e.mu.Lock()
	e.seq++
	e.Answers = append(e.Answers, Answer{Seq: e.seq, Call: call, Version: v})
	e.mu.Unlock()
}

// RecentVersion: see RpcFacade.
func (e *ElectrumFacade) RecentVersion(n int) (int64, int) {
	e.mu.Lock()
	defer e.mu.Unlock()
	if len(e.Answers) == 0 {
		return 0, 0
	}
	lo := e.Answers[len(e.Answers)-1].Version
	for i := len(e.Answers) - 1; i >= 0 && i >= len(e.Answers)-n; i-- {
		if e.Answers[i].Version < lo {
			lo = e.Answers[i].Version
		}
	}
	if len(e.subs) > 0 {
		// the header the subscriber is working on now = the last one it took out of its queue
		if idx := len(e.hdr) - len(e.subs[0]) - 1; idx >= 0 && idx < len(e.hdr) && e.hdr[idx] < lo {
			lo = e.hdr[idx]
		}
	}
	return lo, len(e.Answers)
}

// Notify pushes a header notification for the given height (the scenario decides when and what).
func (e *ElectrumFacade) Notify(height int32) {
	e.mu.Lock()
	subs := append([]chan *goelectrum.SubscribeHeadersResult(nil), e.subs...)
	e.mu.Unlock()
	v := e.C.VersionNow()
	e.stamp("header", v)
	for i, s := range subs {
		// never block the scenario on a subscriber that stopped reading (killed incarnation): with 64
		// notifications already queued this one is dropped, a later tip supersedes it
		e.mu.Lock()
		select {
		case s <- &goelectrum.SubscribeHeadersResult{Height: height}:
			if i == 0 {
				e.hdr = append(e.hdr, v)
			}
		default:
		}
		e.mu.Unlock()
	}
}

// NotifyTip pushes the current tip.
func (e *ElectrumFacade) NotifyTip() { e.Notify(int32(e.C.Height() + e.C.HeightOffset)) }

func (e *ElectrumFacade) SubscribeHeaders(ctx context.Context) (<-chan *goelectrum.SubscribeHeadersResult, error) {
	ch := make(chan *goelectrum.SubscribeHeadersResult, 64)
	e.mu.Lock()
	first := len(e.subs) == 0
	e.subs = append(e.subs, ch)
	e.mu.Unlock()
	v := e.C.VersionNow()
	ch <- &goelectrum.SubscribeHeadersResult{Height: int32(e.C.Height() + e.C.HeightOffset)}
	if first {
		e.mu.Lock()
		e.hdr = append(e.hdr, v)
		e.mu.Unlock()
	}
	return ch, nil
}

// ScriptHash is the electrum script hash (reversed sha256, upper-case hex) of a script.
func ScriptHash(script []byte) string {
	h := sha256.Sum256(script)
	for i, j := 0, len(h)-1; i < j; i, j = i+1, j-1 {
		h[i], h[j] = h[j], h[i]
	}
	return strings.ToUpper(fmt.Sprintf("%x", h[:]))
}

func (e *ElectrumFacade) GetHistory(ctx context.Context, scripthash string) ([]*goelectrum.GetMempoolResult, error) {
	if e.Hook != nil {
		if err := e.Hook("get_history"); err != nil {
			return nil, err
		}
	}
	w := e.C.w
	w.mu.Lock()
	defer w.mu.Unlock()
	e.stamp("get_history", e.C.Version)
	var r []*goelectrum.GetMempoolResult
	for _, id := range e.C.order {
		tx := e.C.txs[id]
		for _, o := range tx.Outs {
			if strings.EqualFold(ScriptHash(o.Script), scripthash) {
				h := int32(0)
				if tx.Height != 0 {
					h = int32(tx.Height + e.C.HeightOffset)
				}
				r = append(r, &goelectrum.GetMempoolResult{Hash: tx.ID, Height: h})
				break
			}
		}
	}
	return r, nil
}

func (e *ElectrumFacade) GetRawTransaction(ctx context.Context, txHash string) (string, error) {
	if e.Hook != nil {
		if err := e.Hook("get_transaction"); err != nil {
			return "", err
		}
	}
	w := e.C.w
	w.mu.Lock()
	defer w.mu.Unlock()
	e.stamp("get_transaction", e.C.Version)
	if tx := e.C.txs[txHash]; tx != nil {
		return tx.Hex, nil
	}
	return "", errors.New("missing transaction")
}

func (e *ElectrumFacade) BroadcastTransaction(ctx context.Context, rawTx string) (string, error) {
	tx, err := e.C.Broadcast(rawTx, "electrum", "raw")
	if err != nil {
		return "", err
	}
	return tx.ID, nil
}
func (e *ElectrumFacade) GetFee(ctx context.Context, target uint32) (float32, error) { return 0.00001, nil }
func (e *ElectrumFacade) Ping(ctx context.Context) error                             { return nil }
func (e *ElectrumFacade) Reboot(ctx context.Context) error                           { return nil }

// LastVersion is the chain version of the most recent answer (0 = nothing answered yet).
func (f *RpcFacade) LastVersion() int64 {
	f.mu.Lock()
	defer f.mu.Unlock()
	if len(f.Answers) == 0 {
		return 0
	}
	return f.Answers[len(f.Answers)-1].Version
}

// LastVersion is the chain version of the most recent answer (0 = nothing answered yet).
func (f *ElectrumFacade) LastVersion() int64 {
	f.mu.Lock()
	defer f.mu.Unlock()
	if len(f.Answers) == 0 {
		return 0
	}
	return f.Answers[len(f.Answers)-1].Version
}
