// Package sim is the simulated world around real peerswap services: chains,
// a Lightning ledger, wallets, a message bus, virtual timers, a deterministic
// scheduler, crash injection at the node boundary and the event log every
// monitor reads. Only what is outside the peerswap process in production is
// simulated; the node itself is assembled from the real constructors.
package sim

import (
	"encoding/json"
	"fmt"
	"math/rand"
	"os"
	"sync"
	"sync/atomic"
	"time"
)

// Event is one boundary crossing or scheduler decision.
type Event struct {
	Seq  int64  `json:"seq"`
	Node string `json:"node,omitempty"`
	Inc  int    `json:"inc,omitempty"`
	Kind string `json:"kind"`
	// P is the typed payload (one of the Ev* structs).
	P any `json:"p,omitempty"`
}

// World is one simulated environment. All mutable world state is guarded by mu.
type World struct {
	Seed int64
	Rng  *rand.Rand

	mu sync.Mutex

	BTC  *Chain
	LBTC *Chain
	LN   *Ledger

	Nodes     map[string]*Node // real nodes by name
	nodeOrder []string
	blockSubs []func(*Chain)
	Peers     map[string]*Peer  // scripted peers by name
	byKey     map[string]string // node id (pubkey hex) -> name

	queue   []*qItem
	timers  []*vTimer
	Now     time.Duration // virtual time
	seq     atomic.Int64
	events  []Event
	subs    []func(*Event)
	replayF *os.File

	// Sched decides what the bus does with each queued item. nil = FIFO deliver.
	Sched func(w *World, it *QView) Decision

	BaseDir string
	// CallBlockLimit, if > 0, lets a call into a node return to the scenario after this long while it
	// keeps running in the background (see WaitIdle).
	CallBlockLimit time.Duration
	blocked        atomic.Int64
	closers []func()

	// Violations collected by monitors.
	vioMu      sync.Mutex
	Violations []Violation
}

// Violation is a monitor verdict with a witness.
type Violation struct {
	Property  string  `json:"property"`
	Rule      string  `json:"rule"`
	Signature string  `json:"signature"`
	Detail    string  `json:"detail"`
	Seed      int64   `json:"seed"`
	Case      string  `json:"case"`
	Trace     []Event `json:"trace,omitempty"`
}

// NewWorld creates an empty world; dir is a scratch directory (removed by Close).
func NewWorld(seed int64) *World {
	dir, err := os.MkdirTemp("", "vpw-")
	if err != nil {
		panic(err)
	}
	w := &World{
		Seed:    seed,
		Rng:     rand.New(rand.NewSource(seed)),
		Nodes:   map[string]*Node{},
		Peers:   map[string]*Peer{},
		byKey:   map[string]string{},
		BaseDir: dir,
	}
	w.BTC = newChain(w, "btc", 100)
	w.LBTC = newChain(w, "lbtc", 1000)
	w.LN = newLedger(w)
	return w
}

// Close releases every resource of the world (db files, temp dir).
func (w *World) Close() {
	for _, n := range w.Nodes {
		n.shutdown()
	}
	for _, c := range w.closers {
		c()
	}
	if w.replayF != nil {
		w.replayF.Close()
	}
	os.RemoveAll(w.BaseDir)
}

// Subscribe registers an online monitor; it is called under the log mutex
// (world mutex) for every event, in order.
func (w *World) Subscribe(f func(*Event)) { w.subs = append(w.subs, f) }

// StreamTo streams events as JSON lines to path.
func (w *World) StreamTo(path string) error {
	f, err := os.Create(path)
	if err != nil {
		return err
	}
	w.replayF = f
	return nil
}

// emitLocked appends an event; w.mu must be held.
func (w *World) emitLocked(node string, inc int, kind string, p any) *Event {
	ev := Event{Seq: w.seq.Add(1), Node: node, Inc: inc, Kind: kind, P: p}
	w.events = append(w.events, ev)
	e := &w.events[len(w.events)-1]
	if w.replayF != nil {
		b, _ := json.Marshal(e)
		w.replayF.Write(append(b, '\n'))
	}
	for _, s := range w.subs {
		s(e)
	}
	return e
}

// Emit appends an event taking the world lock.
func (w *World) Emit(node string, inc int, kind string, p any) {
	w.mu.Lock()
	w.emitLocked(node, inc, kind, p)
	w.mu.Unlock()
}

// Events returns a copy of the log.
func (w *World) Events() []Event {
	w.mu.Lock()
	defer w.mu.Unlock()
	return append([]Event(nil), w.events...)
}

// Tail returns the last n events.
func (w *World) Tail(n int) []Event {
	w.mu.Lock()
	defer w.mu.Unlock()
	if len(w.events) < n {
		n = len(w.events)
	}
	return append([]Event(nil), w.events[len(w.events)-n:]...)
}

// Violate records a violation.
func (w *World) Violate(prop, rule, sig, detail string) {
	w.vioMu.Lock()
	defer w.vioMu.Unlock()
	w.Violations = append(w.Violations, Violation{Property: prop, Rule: rule, Signature: sig, Detail: detail, Seed: w.Seed})
}

// ---------------------------------------------------------------------------
// queue / scheduler

type qKind int

const (
	qMsg qKind = iota
	qPayNotify
	qConfirm
	qCsv
	qTimer
	qFunc
)

func (k qKind) String() string {
	return [...]string{"msg", "paynotify", "confirm", "csv", "timer", "func"}[k]
}

type qItem struct {
	kind qKind
	to   string // node or peer name
	inc  int    // incarnation the item is bound to (0 = whichever is alive); timers/notifies are bound
	// msg
	from    string // sender node id (pubkey)
	msgType int
	payload []byte
	// paynotify
	swapID  string
	invType int
	// confirm
	txHex string
	err   error
	// func / timer
	fn   func()
	note string
}

// QView is what a scheduling policy sees.
type QView struct {
	Kind    string
	To      string
	MsgType int
	Payload []byte
	From    string
	Index   int
}

// Decision of a scheduling policy for the head item.
type Decision int

const (
	Deliver Decision = iota
	Drop
	Duplicate // deliver now and re-enqueue a copy at the tail
	Defer     // move to the tail
)

func (w *World) enqueueLocked(it *qItem) {
	w.queue = append(w.queue, it)
}

// QueueLen returns the number of pending items.
func (w *World) QueueLen() int {
	w.mu.Lock()
	defer w.mu.Unlock()
	return len(w.queue)
}

// Step processes one queued item; returns false if the queue is empty.
func (w *World) Step() bool {
	w.mu.Lock()
	if len(w.queue) == 0 {
		w.mu.Unlock()
		return false
	}
	it := w.queue[0]
	w.queue = w.queue[1:]
	dec := Deliver
	if w.Sched != nil {
		v := &QView{Kind: it.kind.String(), To: it.to, MsgType: it.msgType, Payload: it.payload, From: it.from}
		w.mu.Unlock()
		dec = w.Sched(w, v)
		w.mu.Lock()
	}
	switch dec {
	case Drop:
		w.emitLocked(it.to, 0, "sched.drop", EvSched{Kind: it.kind.String(), MsgType: it.msgType})
		w.mu.Unlock()
		return true
	case Defer:
		w.queue = append(w.queue, it)
		w.mu.Unlock()
		return true
	case Duplicate:
		cp := *it
		w.queue = append(w.queue, &cp)
		w.emitLocked(it.to, 0, "sched.dup", EvSched{Kind: it.kind.String(), MsgType: it.msgType})
	}
	w.mu.Unlock()
	w.deliver(it)
	return true
}

// Run drains the queue (at most max steps; 0 = 10000). Returns steps taken.
func (w *World) Run() int {
	n := 0
	for n < 10000 && w.Step() {
		n++
	}
	return n
}

func (w *World) deliver(it *qItem) {
	if p, ok := w.Peers[it.to]; ok {
		if it.kind == qMsg {
			p.receive(it.from, it.msgType, it.payload)
		} else if it.kind == qPayNotify {
			p.paid(it.swapID, it.invType)
		}
		return
	}
	n, ok := w.Nodes[it.to]
	if !ok {
		return
	}
	inc := n.Inc()
	if inc == nil || inc.dead.Load() || (it.inc != 0 && it.inc != inc.N) {
		w.Emit(it.to, 0, "sched.lost", EvSched{Kind: it.kind.String(), MsgType: it.msgType})
		return
	}
	switch it.kind {
	case qMsg:
		h := inc.msgHandler()
		if h == nil {
			w.Emit(it.to, inc.N, "sched.lost", EvSched{Kind: "msg-nohandler", MsgType: it.msgType})
			return
		}
		w.Emit(it.to, inc.N, "deliver.msg", EvMsg{Peer: it.from, Type: it.msgType, Payload: it.payload})
		// the call may be abandoned (incarnation killed) while the handler is still running
		var errv atomic.Value
		panicked := n.Call(func() {
			if err := h(it.from, fmt.Sprintf("%x", it.msgType), it.payload); err != nil {
				errv.Store(err.Error())
			}
		})
		es, _ := errv.Load().(string)
		w.Emit(it.to, inc.N, "deliver.msg.ret", EvRet{Err: es, Panic: panicked})
	case qPayNotify:
		cb := inc.payCallback()
		if cb == nil {
			return
		}
		w.Emit(it.to, inc.N, "deliver.paid", EvPaid{SwapID: it.swapID, InvType: it.invType})
		p := n.Call(func() { cb(it.swapID, it.invType) })
		w.Emit(it.to, inc.N, "deliver.paid.ret", EvRet{Panic: p})
	case qConfirm, qCsv, qTimer, qFunc:
		w.Emit(it.to, inc.N, "deliver."+it.kind.String(), EvNote{Note: it.note})
		p := n.Call(it.fn)
		w.Emit(it.to, inc.N, "deliver."+it.kind.String()+".ret", EvRet{Panic: p})
	}
}

// ---------------------------------------------------------------------------
// virtual timers

type vTimer struct {
	node   string
	inc    int
	swapID string
	due    time.Duration
	fire   func()
	done   <-chan struct{}
	fired  bool
}

func (w *World) addTimerLocked(node string, inc int, swapID string, d time.Duration, done <-chan struct{}, fire func()) {
	w.timers = append(w.timers, &vTimer{node: node, inc: inc, swapID: swapID, due: w.Now + d, fire: fire, done: done})
}

// Advance moves the virtual clock and enqueues the callbacks of all timers that
// became due (for live incarnations, not cancelled).
func (w *World) Advance(d time.Duration) int {
	w.mu.Lock()
	defer w.mu.Unlock()
	w.Now += d
	n := 0
	for _, t := range w.timers {
		if t.fired || t.due > w.Now {
			continue
		}
		t.fired = true
		select {
		case <-t.done:
			continue
		default:
		}
		w.enqueueLocked(&qItem{kind: qTimer, to: t.node, inc: t.inc, fn: t.fire, note: "timeout " + t.swapID})
		n++
	}
	return n
}

// PendingTimers returns how many armed, unfired timers exist for live incarnations.
func (w *World) PendingTimers(node string) int {
	w.mu.Lock()
	defer w.mu.Unlock()
	c := 0
	n := w.Nodes[node]
	for _, t := range w.timers {
		if t.node == node && !t.fired && n != nil && n.inc != nil && t.inc == n.inc.N {
			c++
		}
	}
	return c
}

// ---------------------------------------------------------------------------
// event payload types

type EvSched struct {
	Kind    string `json:"kind"`
	MsgType int    `json:"msg_type,omitempty"`
}
type EvMsg struct {
	Peer    string `json:"peer"`
	Type    int    `json:"type"`
	Payload []byte `json:"payload"`
}
type EvRet struct {
	Err   string `json:"err,omitempty"`
	Panic string `json:"panic,omitempty"`
}
type EvPaid struct {
	SwapID  string `json:"swap_id"`
	InvType int    `json:"inv_type"`
}
type EvNote struct {
	Note string `json:"note"`
}
type EvStore struct {
	SwapID string `json:"swap_id"`
	State  string `json:"state"`
	Bytes  []byte `json:"bytes,omitempty"`
	Err    string `json:"err,omitempty"`
}
type EvPay struct {
	Op      string `json:"op"` // rebalance | fee | recover | pay
	Payreq  string `json:"payreq"`
	Scid    string `json:"scid,omitempty"`
	MaxCLTV uint32 `json:"max_cltv,omitempty"`
	Hash    string `json:"hash,omitempty"`
	Attempt int    `json:"attempt,omitempty"`
	Outcome string `json:"outcome,omitempty"`
	Err     string `json:"err,omitempty"`
	// ground truth at the crossing
	BtcTip  uint32 `json:"btc_tip"`
	LbtcTip uint32 `json:"lbtc_tip"`
}
type EvInvoice struct {
	Payreq string `json:"payreq"`
	Msat   uint64 `json:"msat"`
	Hash   string `json:"hash"`
	SwapID string `json:"swap_id"`
	Type   int    `json:"type"`
	Expiry uint64 `json:"expiry"`
	Cltv   uint64 `json:"cltv"`
}
type EvTx struct {
	Chain string `json:"chain"`
	Op    string `json:"op"` // open | preimage | csv | coop | raw
	TxID  string `json:"txid,omitempty"`
	Hex   string `json:"hex,omitempty"`
	Vout  uint32 `json:"vout,omitempty"`
	Addr  string `json:"addr,omitempty"`
	Err   string `json:"err,omitempty"`
	Tip   uint32 `json:"tip"`
}
type EvWatch struct {
	Chain  string `json:"chain"`
	Op     string `json:"op"` // conf | csv | height
	SwapID string `json:"swap_id,omitempty"`
	TxID   string `json:"txid,omitempty"`
	Vout   uint32 `json:"vout,omitempty"`
	Start  uint32 `json:"start,omitempty"`
	Window uint32 `json:"window,omitempty"`
	Height uint32 `json:"height,omitempty"`
	Err    string `json:"err,omitempty"`
}
type EvCrash struct {
	At     int64  `json:"at"`
	Flavor string `json:"flavor"`
	Kind   string `json:"kind"`
}
type EvCall struct {
	Op   string `json:"op"`
	Args string `json:"args,omitempty"`
	Err  string `json:"err,omitempty"`
}

// WaitIdle waits until no call into a node is running in the background any more.
func (w *World) WaitIdle(max time.Duration) bool {
	deadline := time.Now().Add(max)
	for w.blocked.Load() > 0 {
		if time.Now().After(deadline) {
			return false
		}
		time.Sleep(200 * time.Microsecond)
	}
	return true
}

// Blocked returns the number of calls still running in the background.
func (w *World) Blocked() int64 { return w.blocked.Load() }
