package sim

// Fakes of the two lnd rpc interfaces the REAL lnd wallet adapter (lnd/lnd_wallet.go) talks to: wallet kit
// (FundPsbt, FinalizePsbt, PublishTransaction, LabelTransaction) and lightning (NewAddress, WalletBalance). They are
// Go-interface level fakes (the adapter holds lnrpc.LightningClient / walletrpc.WalletKitClient interfaces), bound to
// one incarnation, so their calls are boundary crossings like every other service call.

import (
	"bytes"
	"context"
	"encoding/hex"
	"fmt"
	"io"
	"sync"
	"time"

	"github.com/btcsuite/btcd/btcutil/psbt"
	"github.com/btcsuite/btcd/chaincfg/chainhash"
	"github.com/elementsproject/peerswap/lnd"
	"github.com/elementsproject/peerswap/swap"
	"github.com/lightningnetwork/lnd/lnrpc"
	"github.com/lightningnetwork/lnd/lnrpc/chainrpc"
	"github.com/lightningnetwork/lnd/lnrpc/walletrpc"
	"google.golang.org/grpc"
	"google.golang.org/grpc/codes"
	"google.golang.org/grpc/status"
)

type fakeLndWalletKit struct {
	walletrpc.WalletKitClient // every method not overridden below is never called by the wallet adapter
	inc                       *Incarnation
	b                         *BtcWallet
	mu                        sync.Mutex
	prep                      map[string]*clnPrepared // by txid of the unsigned transaction
}

type fakeLndLightning struct {
	lnrpc.LightningClient
	inc *Incarnation
	b   *BtcWallet
}

// newLNDWallet returns the real lnd client wallet over the fakes.
func (b *BtcWallet) newLNDWallet(inc *Incarnation) swap.Wallet {
	wk := &fakeLndWalletKit{inc: inc, b: b, prep: map[string]*clnPrepared{}}
	ln := &fakeLndLightning{inc: inc, b: b}
	return lnd.VerifNewWalletClient(context.Background(), ln, wk, b.onchain)
}

func (f *fakeLndWalletKit) FundPsbt(ctx context.Context, in *walletrpc.FundPsbtRequest, _ ...grpc.CallOption) (*walletrpc.FundPsbtResponse, error) {
	if _, err := f.inc.enter("btc.lnd.fundpsbt"); err != nil {
		return nil, err
	}
	raw := in.GetRaw()
	if raw == nil || len(raw.Outputs) != 1 {
		return nil, fmt.Errorf("fake lnd: unsupported FundPsbt template")
	}
	var addr string
	var amount uint64
	for a, v := range raw.Outputs {
		addr, amount = a, v
	}
	pr, packet, err := f.b.buildFunding(addr, amount)
	if err != nil {
		return nil, err
	}
	var buf bytes.Buffer
	if err := packet.Serialize(&buf); err != nil {
		return nil, err
	}
	f.mu.Lock()
	f.prep[packet.UnsignedTx.TxHash().String()] = pr
	f.mu.Unlock()
	return &walletrpc.FundPsbtResponse{FundedPsbt: buf.Bytes(), ChangeOutputIndex: -1}, nil
}

func (f *fakeLndWalletKit) FinalizePsbt(ctx context.Context, in *walletrpc.FinalizePsbtRequest, _ ...grpc.CallOption) (*walletrpc.FinalizePsbtResponse, error) {
	if _, err := f.inc.enter("btc.lnd.finalizepsbt"); err != nil {
		return nil, err
	}
	packet, err := psbt.NewFromRawBytes(bytes.NewReader(in.FundedPsbt), false)
	if err != nil {
		return nil, err
	}
	f.mu.Lock()
	pr := f.prep[packet.UnsignedTx.TxHash().String()]
	f.mu.Unlock()
	if pr == nil {
		return nil, fmt.Errorf("fake lnd: unknown psbt")
	}
	rawFinal, _ := hex.DecodeString(pr.signed)
	return &walletrpc.FinalizePsbtResponse{SignedPsbt: in.FundedPsbt, RawFinalTx: rawFinal}, nil
}

func (f *fakeLndWalletKit) PublishTransaction(ctx context.Context, in *walletrpc.Transaction, _ ...grpc.CallOption) (*walletrpc.PublishResponse, error) {
	txHex := hex.EncodeToString(in.TxHex)
	n := f.b.n
	f.mu.Lock()
	var funding *clnPrepared
	for k, pr := range f.prep {
		if pr.signed == txHex {
			funding = pr
			delete(f.prep, k)
		}
	}
	f.mu.Unlock()
	op := "btc.lnd.publish"
	k, err := f.inc.enter(op)
	if err != nil {
		return nil, err
	}
	if funding != nil {
		ct, err := n.w.BTC.AddWalletTx(txHex, n.Name, "open")
		if err != nil {
			return nil, err
		}
		n.w.mu.Lock()
		f.b.Opened = append(f.b.Opened, ct.ID)
		n.Cfg.BtcBalance -= funding.amount
		n.w.mu.Unlock()
	} else if _, err := n.w.BTC.Broadcast(txHex, n.Name, spendKindOf(txHex)); err != nil {
		return nil, err
	}
	f.inc.leave(k, op)
	return &walletrpc.PublishResponse{}, nil
}

func (f *fakeLndWalletKit) LabelTransaction(ctx context.Context, in *walletrpc.LabelTransactionRequest, _ ...grpc.CallOption) (*walletrpc.LabelTransactionResponse, error) {
	if _, err := f.inc.enter("btc.lnd.label"); err != nil {
		return nil, err
	}
	return &walletrpc.LabelTransactionResponse{}, nil
}

func (f *fakeLndLightning) NewAddress(ctx context.Context, in *lnrpc.NewAddressRequest, _ ...grpc.CallOption) (*lnrpc.NewAddressResponse, error) {
	if _, err := f.inc.enter("btc.lnd.newaddr"); err != nil {
		return nil, err
	}
	a, _ := f.b.newAddr()
	return &lnrpc.NewAddressResponse{Address: a}, nil
}

func (f *fakeLndLightning) WalletBalance(ctx context.Context, in *lnrpc.WalletBalanceRequest, _ ...grpc.CallOption) (*lnrpc.WalletBalanceResponse, error) {
	n := f.b.n
	n.w.mu.Lock()
	defer n.w.mu.Unlock()
	return &lnrpc.WalletBalanceResponse{TotalBalance: int64(n.Cfg.BtcBalance), ConfirmedBalance: int64(n.Cfg.BtcBalance)}, nil
}

// ---------------------------------------------------------------------------
// lnd chain notifier (for the REAL lnd tx watcher, lnd/txwatcher.go)

// LndChainFake implements the two rpc client interfaces lnd's TxWatcher uses — chainrpc.ChainNotifierClient
// (RegisterConfirmationsNtfn, RegisterBlockEpochNtfn) and lnrpc.LightningClient (GetInfo) — over the chain
// simulator. Every event / answer is stamped with the chain version it was computed from (as the rpc facades do).
type LndChainFake struct {
	lnrpc.LightningClient
	chainrpc.ChainNotifierClient
	C *Chain
	// Hook runs before every GetInfo answer and before every event is handed out (outside any lock).
	Hook func(call string) error
	// Poll is how often the notifier looks at the chain (default 300µs).
	Poll time.Duration

	mu      sync.Mutex
	seq     int64
	Answers []Answer
}

func (f *LndChainFake) stamp(call string, v int64) {
	f.mu.Lock()
	f.seq++
	f.Answers = append(f.Answers, Answer{Seq: f.seq, Call: call, Version: v})
	f.mu.Unlock()
}

// RecentVersion: see RpcFacade.
func (f *LndChainFake) RecentVersion(n int) (int64, int) {
	f.mu.Lock()
	defer f.mu.Unlock()
	if len(f.Answers) == 0 {
		return 0, 0
	}
	lo := f.Answers[len(f.Answers)-1].Version
	for i := len(f.Answers) - 1; i >= 0 && i >= len(f.Answers)-n; i-- {
		if f.Answers[i].Version < lo {
			lo = f.Answers[i].Version
		}
	}
	return lo, len(f.Answers)
}

func (f *LndChainFake) poll() time.Duration {
	if f.Poll > 0 {
		return f.Poll
	}
	return 300 * time.Microsecond
}

func (f *LndChainFake) GetInfo(ctx context.Context, in *lnrpc.GetInfoRequest, _ ...grpc.CallOption) (*lnrpc.GetInfoResponse, error) {
	if f.Hook != nil {
		if err := f.Hook("getinfo"); err != nil {
			return nil, err
		}
	}
	w := f.C.w
	w.mu.Lock()
	h, v := f.C.heightLocked(), f.C.Version
	w.mu.Unlock()
	f.stamp("getinfo", v)
	return &lnrpc.GetInfoResponse{BlockHeight: h + f.C.HeightOffset, SyncedToChain: true}, nil
}

type lndConfStream struct {
	grpc.ClientStream
	ctx context.Context
	ch  chan *chainrpc.ConfEvent
}

func (s *lndConfStream) Recv() (*chainrpc.ConfEvent, error) {
	select {
	case ev, ok := <-s.ch:
		if !ok {
			return nil, io.EOF
		}
		return ev, nil
	case <-s.ctx.Done():
		return nil, status.Error(codes.Canceled, "context canceled")
	}
}

// RegisterConfirmationsNtfn: one ConfEvent_Conf when the transaction has numConfs confirmations on the best chain
// (raw transaction and the height of its block), as lnd's chain notifier does; nothing while it has fewer.
func (f *LndChainFake) RegisterConfirmationsNtfn(ctx context.Context, in *chainrpc.ConfRequest, _ ...grpc.CallOption) (chainrpc.ChainNotifier_RegisterConfirmationsNtfnClient, error) {
	if f.Hook != nil {
		if err := f.Hook("registerconf"); err != nil {
			return nil, err
		}
	}
	h, err := chainhash.NewHash(in.Txid)
	if err != nil {
		return nil, err
	}
	txid := h.String()
	st := &lndConfStream{ctx: ctx, ch: make(chan *chainrpc.ConfEvent, 1)}
	go func() {
		t := time.NewTicker(f.poll())
		defer t.Stop()
		for {
			select {
			case <-ctx.Done():
				return
			case <-t.C:
			}
			w := f.C.w
			w.mu.Lock()
			tx := f.C.txs[txid]
			var ev *chainrpc.ConfEvent
			v := f.C.Version
			if tx != nil && tx.Height != 0 && f.C.heightLocked()-tx.Height+1 >= in.NumConfs {
				raw, _ := hex.DecodeString(tx.Hex)
				ev = &chainrpc.ConfEvent{Event: &chainrpc.ConfEvent_Conf{Conf: &chainrpc.ConfDetails{RawTx: raw, BlockHeight: tx.Height + f.C.HeightOffset}}}
			}
			w.mu.Unlock()
			if ev == nil {
				continue
			}
			if f.Hook != nil {
				if err := f.Hook("confevent"); err != nil {
					continue
				}
			}
			f.stamp("confevent", v)
			select {
			case st.ch <- ev:
			case <-ctx.Done():
			}
			return
		}
	}()
	return st, nil
}

type lndEpochStream struct {
	grpc.ClientStream
	ctx context.Context
	ch  chan *chainrpc.BlockEpoch
}

func (s *lndEpochStream) Recv() (*chainrpc.BlockEpoch, error) {
	select {
	case ev, ok := <-s.ch:
		if !ok {
			return nil, io.EOF
		}
		return ev, nil
	case <-s.ctx.Done():
		return nil, status.Error(codes.Canceled, "context canceled")
	}
}

// RegisterBlockEpochNtfn: the current best block at once, then one epoch per new tip height.
func (f *LndChainFake) RegisterBlockEpochNtfn(ctx context.Context, in *chainrpc.BlockEpoch, _ ...grpc.CallOption) (chainrpc.ChainNotifier_RegisterBlockEpochNtfnClient, error) {
	st := &lndEpochStream{ctx: ctx, ch: make(chan *chainrpc.BlockEpoch, 64)}
	go func() {
		t := time.NewTicker(f.poll())
		defer t.Stop()
		last := uint32(0)
		for {
			w := f.C.w
			w.mu.Lock()
			tip, v := f.C.heightLocked(), f.C.Version
			w.mu.Unlock()
			if tip != last {
				last = tip
				f.stamp("epoch", v)
				select {
				case st.ch <- &chainrpc.BlockEpoch{Height: tip + f.C.HeightOffset}:
				case <-ctx.Done():
					return
				}
			}
			select {
			case <-ctx.Done():
				return
			case <-t.C:
			}
		}
	}()
	return st, nil
}

// LastVersion is the chain version of the most recent event or answer (0 = none yet).
func (f *LndChainFake) LastVersion() int64 {
	f.mu.Lock()
	defer f.mu.Unlock()
	if len(f.Answers) == 0 {
		return 0
	}
	return f.Answers[len(f.Answers)-1].Version
}
