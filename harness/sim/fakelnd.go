package sim

// Fakes of the two lnd rpc interfaces the REAL lnd wallet adapter (lnd/lnd_wallet.go) talks to: wallet kit
// (FundPsbt, FinalizePsbt, PublishTransaction, LabelTransaction) and lightning (NewAddress, WalletBalance). They are
// Go-interface level fakes (the adapter holds lnrpc.LightningClient / walletrpc.WalletKitClient interfaces), bound to
// one incarnation, so their calls are boundary crossings like every other service call.

import (
	"bytes"
	"context"
	"encoding/hex"
	"fmt"
	"sync"

	"github.com/btcsuite/btcd/btcutil/psbt"
	"github.com/elementsproject/peerswap/lnd"
	"github.com/elementsproject/peerswap/swap"
	"github.com/lightningnetwork/lnd/lnrpc"
	"github.com/lightningnetwork/lnd/lnrpc/walletrpc"
	"google.golang.org/grpc"
)

type fakeLndWalletKit struct {
	walletrpc.WalletKitClient // every method not overridden below is never called by the wallet adapter
	inc                       *Incarnation
	b                         *BtcWallet
	mu                        sync.Mutex
	prep                      map[string]*clnPrepared // by txid of the unsigned transaction
}

type fakeLndLightning struct {
	lnrpc.LightningClient
	inc *Incarnation
	b   *BtcWallet
}

// newLNDWallet returns the real lnd client wallet over the fakes.
func (b *BtcWallet) newLNDWallet(inc *Incarnation) swap.Wallet {
	wk := &fakeLndWalletKit{inc: inc, b: b, prep: map[string]*clnPrepared{}}
	ln := &fakeLndLightning{inc: inc, b: b}
	return lnd.VerifNewWalletClient(context.Background(), ln, wk, b.onchain)
}

func (f *fakeLndWalletKit) FundPsbt(ctx context.Context, in *walletrpc.FundPsbtRequest, _ ...grpc.CallOption) (*walletrpc.FundPsbtResponse, error) {
	if _, err := f.inc.enter("btc.lnd.fundpsbt"); err != nil {
		return nil, err
	}
	raw := in.GetRaw()
	if raw == nil || len(raw.Outputs) != 1 {
		return nil, fmt.Errorf("fake lnd: unsupported FundPsbt template")
	}
	var addr string
	var amount uint64
	for a, v := range raw.Outputs {
		addr, amount = a, v
	}
	pr, packet, err := f.b.buildFunding(addr, amount)
	if err != nil {
		return nil, err
	}
	var buf bytes.Buffer
	if err := packet.Serialize(&buf); err != nil {
		return nil, err
	}
	f.mu.Lock()
	f.prep[packet.UnsignedTx.TxHash().String()] = pr
	f.mu.Unlock()
	return &walletrpc.FundPsbtResponse{FundedPsbt: buf.Bytes(), ChangeOutputIndex: -1}, nil
}

func (f *fakeLndWalletKit) FinalizePsbt(ctx context.Context, in *walletrpc.FinalizePsbtRequest, _ ...grpc.CallOption) (*walletrpc.FinalizePsbtResponse, error) {
	if _, err := f.inc.enter("btc.lnd.finalizepsbt"); err != nil {
		return nil, err
	}
	packet, err := psbt.NewFromRawBytes(bytes.NewReader(in.FundedPsbt), false)
	if err != nil {
		return nil, err
	}
	f.mu.Lock()
	pr := f.prep[packet.UnsignedTx.TxHash().String()]
	f.mu.Unlock()
	if pr == nil {
		return nil, fmt.Errorf("fake lnd: unknown psbt")
	}
	rawFinal, _ := hex.DecodeString(pr.signed)
	return &walletrpc.FinalizePsbtResponse{SignedPsbt: in.FundedPsbt, RawFinalTx: rawFinal}, nil
}

func (f *fakeLndWalletKit) PublishTransaction(ctx context.Context, in *walletrpc.Transaction, _ ...grpc.CallOption) (*walletrpc.PublishResponse, error) {
	txHex := hex.EncodeToString(in.TxHex)
	n := f.b.n
	f.mu.Lock()
	var funding *clnPrepared
	for k, pr := range f.prep {
		if pr.signed == txHex {
			funding = pr
			delete(f.prep, k)
		}
	}
	f.mu.Unlock()
	op := "btc.lnd.publish"
	k, err := f.inc.enter(op)
	if err != nil {
		return nil, err
	}
	if funding != nil {
		ct, err := n.w.BTC.AddWalletTx(txHex, n.Name, "open")
		if err != nil {
			return nil, err
		}
		n.w.mu.Lock()
		f.b.Opened = append(f.b.Opened, ct.ID)
		n.Cfg.BtcBalance -= funding.amount
		n.w.mu.Unlock()
	} else if _, err := n.w.BTC.Broadcast(txHex, n.Name, spendKindOf(txHex)); err != nil {
		return nil, err
	}
	f.inc.leave(k, op)
	return &walletrpc.PublishResponse{}, nil
}

func (f *fakeLndWalletKit) LabelTransaction(ctx context.Context, in *walletrpc.LabelTransactionRequest, _ ...grpc.CallOption) (*walletrpc.LabelTransactionResponse, error) {
	if _, err := f.inc.enter("btc.lnd.label"); err != nil {
		return nil, err
	}
	return &walletrpc.LabelTransactionResponse{}, nil
}

func (f *fakeLndLightning) NewAddress(ctx context.Context, in *lnrpc.NewAddressRequest, _ ...grpc.CallOption) (*lnrpc.NewAddressResponse, error) {
	if _, err := f.inc.enter("btc.lnd.newaddr"); err != nil {
		return nil, err
	}
	a, _ := f.b.newAddr()
	return &lnrpc.NewAddressResponse{Address: a}, nil
}

func (f *fakeLndLightning) WalletBalance(ctx context.Context, in *lnrpc.WalletBalanceRequest, _ ...grpc.CallOption) (*lnrpc.WalletBalanceResponse, error) {
	n := f.b.n
	n.w.mu.Lock()
	defer n.w.mu.Unlock()
	return &lnrpc.WalletBalanceResponse{TotalBalance: int64(n.Cfg.BtcBalance), ConfirmedBalance: int64(n.Cfg.BtcBalance)}, nil
}
