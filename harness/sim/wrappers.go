package sim

import (
	"encoding/hex"
	"fmt"
	"time"

	"github.com/elementsproject/peerswap/messages"
	"github.com/elementsproject/peerswap/policy"
	"github.com/elementsproject/peerswap/swap"
	"go.etcd.io/bbolt"
)

func errStr(err error) string {
	if err == nil {
		return ""
	}
	return err.Error()
}

// ---------------------------------------------------------------------------
// store

type storeWrap struct {
	inc  *Incarnation
	real swap.Store
}

func (s *storeWrap) UpdateData(sm *swap.SwapStateMachine) error {
	k, err := s.inc.enter("store.write")
	if err != nil {
		return err
	}
	err = s.real.UpdateData(sm)
	// read back what is committed now, through an independent read transaction
	id := sm.SwapId.String()
	var committed []byte
	if db := s.inc.DB; db != nil {
		db.View(func(tx *bbolt.Tx) error {
			if b := tx.Bucket([]byte("swaps")); b != nil {
				kb, _ := hex.DecodeString(id)
				committed = append([]byte(nil), b.Get(kb)...)
			}
			return nil
		})
	}
	n := s.inc.node
	n.w.mu.Lock()
	n.w.emitLocked(n.Name, s.inc.N, "store.write", EvStore{SwapID: id, State: string(sm.Current), Bytes: committed, Err: errStr(err)})
	n.w.mu.Unlock()
	s.inc.leave(k, "store.write")
	return err
}

func (s *storeWrap) GetData(id string) (*swap.SwapStateMachine, error) {
	if s.inc.dead.Load() {
		parkForever()
	}
	return s.real.GetData(id)
}
func (s *storeWrap) ListAll() ([]*swap.SwapStateMachine, error) {
	if s.inc.dead.Load() {
		parkForever()
	}
	return s.real.ListAll()
}
func (s *storeWrap) ListAllByPeer(peer string) ([]*swap.SwapStateMachine, error) {
	if s.inc.dead.Load() {
		parkForever()
	}
	return s.real.ListAllByPeer(peer)
}

// ---------------------------------------------------------------------------
// messenger

type msgWrap struct{ inc *Incarnation }

func (m *msgWrap) SendMessage(peerId string, message []byte, messageType int) error {
	op := fmt.Sprintf("msg.send:%d", messageType)
	k, err := m.inc.enter(op)
	if err != nil {
		return err
	}
	n := m.inc.node
	w := n.w
	payload := append([]byte(nil), message...)
	w.mu.Lock()
	w.emitLocked(n.Name, m.inc.N, "msg.send", EvMsg{Peer: peerId, Type: messageType, Payload: payload})
	if to, ok := w.byKey[peerId]; ok {
		w.enqueueLocked(&qItem{kind: qMsg, to: to, from: n.ID, msgType: messageType, payload: payload})
	}
	w.mu.Unlock()
	m.inc.leave(k, op)
	return nil
}

func (m *msgWrap) AddMessageHandler(f func(peerId string, msgType string, payload []byte) error) {
	m.inc.hMu.Lock()
	m.inc.handler = f
	m.inc.hMu.Unlock()
}

// mgrWrap records AddSender/RemoveSender around the real messages.Manager.
type mgrWrap struct {
	inc  *Incarnation
	real *messages.Manager
	live map[string]int
}

type EvSender struct {
	Op   string `json:"op"`
	ID   string `json:"id"`
	Live int    `json:"live"`
	Err  string `json:"err,omitempty"`
}

func (m *mgrWrap) AddSender(id string, messenger messages.StoppableMessenger) error {
	if m.inc.dead.Load() {
		parkForever()
	}
	err := m.real.AddSender(id, messenger)
	w := m.inc.node.w
	w.mu.Lock()
	if err == nil {
		m.live[id]++
	}
	w.emitLocked(m.inc.node.Name, m.inc.N, "sender.add", EvSender{Op: "add", ID: id, Live: m.live[id], Err: errStr(err)})
	w.mu.Unlock()
	return err
}

func (m *mgrWrap) RemoveSender(id string) {
	if m.inc.dead.Load() {
		parkForever()
	}
	m.real.RemoveSender(id)
	w := m.inc.node.w
	w.mu.Lock()
	if m.live[id] > 0 {
		m.live[id]--
	}
	w.emitLocked(m.inc.node.Name, m.inc.N, "sender.remove", EvSender{Op: "remove", ID: id, Live: m.live[id]})
	w.mu.Unlock()
}

// ---------------------------------------------------------------------------
// policy (real policy.Policy; only the write is a crossing)

type policyWrap struct {
	inc  *Incarnation
	real *policy.Policy
}

func (p *policyWrap) IsPeerAllowed(peer string) bool    { return p.real.IsPeerAllowed(peer) }
func (p *policyWrap) IsPeerSuspicious(peer string) bool { return p.real.IsPeerSuspicious(peer) }
func (p *policyWrap) GetReserveOnchainMsat() uint64     { return p.real.GetReserveOnchainMsat() }
func (p *policyWrap) GetMinSwapAmountMsat() uint64      { return p.real.GetMinSwapAmountMsat() }
func (p *policyWrap) NewSwapsAllowed() bool             { return p.real.NewSwapsAllowed() }
func (p *policyWrap) AddToSuspiciousPeerList(pubkey string) error {
	k, err := p.inc.enter("policy.suspicious")
	if err != nil {
		return err
	}
	err = p.real.AddToSuspiciousPeerList(pubkey)
	p.inc.node.w.Emit(p.inc.node.Name, p.inc.N, "policy.suspicious", EvCall{Op: "add-suspicious", Args: pubkey, Err: errStr(err)})
	p.inc.leave(k, "policy.suspicious")
	return err
}

// ---------------------------------------------------------------------------
// lightning client

type lnWrap struct{ inc *Incarnation }

func (l *lnWrap) tips() (uint32, uint32) {
	w := l.inc.node.w
	return w.BTC.heightLocked() + w.BTC.HeightOffset, w.LBTC.heightLocked() + w.LBTC.HeightOffset
}

func (l *lnWrap) DecodePayreq(payreq string) (string, uint64, int64, error) {
	if _, err := l.inc.enter("ln.decode"); err != nil {
		return "", 0, 0, err
	}
	inv := l.inc.node.w.LN.Invoice(payreq)
	if inv == nil {
		return "", 0, 0, fmt.Errorf("invalid bolt11: %q", payreq)
	}
	return inv.Hash, inv.Msat, inv.Cltv, nil
}

func (l *lnWrap) doPay(op, evop, payreq, scid string, maxCLTV uint32, via bool) (string, error) {
	k, err := l.inc.enter(op)
	n := l.inc.node
	w := n.w
	if err != nil {
		w.mu.Lock()
		bt, lt := l.tips()
		w.emitLocked(n.Name, l.inc.N, "ln.pay", EvPay{Op: evop, Payreq: payreq, Scid: scid, MaxCLTV: maxCLTV, Outcome: "fault-before", Err: err.Error(), BtcTip: bt, LbtcTip: lt})
		w.mu.Unlock()
		return "", err
	}
	// announce the attempt before it takes effect so that online monitors see the
	// world state of this instant
	w.mu.Lock()
	bt, lt := l.tips()
	hash := ""
	if inv := w.LN.Invoices[payreq]; inv != nil {
		hash = inv.Hash
	}
	w.emitLocked(n.Name, l.inc.N, "ln.pay.try", EvPay{Op: evop, Payreq: payreq, Scid: scid, MaxCLTV: maxCLTV, Hash: hash, BtcTip: bt, LbtcTip: lt})
	w.mu.Unlock()
	pre, outcome, perr, block := w.LN.pay(n.ID, l.inc.N, payreq, scid, maxCLTV, via)
	w.mu.Lock()
	bt, lt = l.tips()
	w.emitLocked(n.Name, l.inc.N, "ln.pay", EvPay{Op: evop, Payreq: payreq, Scid: scid, MaxCLTV: maxCLTV, Hash: hash, Outcome: outcome, Err: errStr(perr), BtcTip: bt, LbtcTip: lt})
	w.mu.Unlock()
	if block {
		<-l.inc.deadCh
		parkForever()
	}
	l.inc.leave(k, op)
	return pre, perr
}

func (l *lnWrap) PayInvoice(payreq string) (string, error) {
	return l.doPay("ln.pay", "pay", payreq, "", 0, false)
}
func (l *lnWrap) PayInvoiceViaChannel(payreq string, channel string) (string, error) {
	return l.doPay("ln.payfee", "fee", payreq, channel, 0, true)
}
func (l *lnWrap) RebalancePayment(payreq string, channel string, maxTotalCLTVDelta uint32) (string, error) {
	return l.doPay("ln.rebalance", "rebalance", payreq, channel, maxTotalCLTVDelta, true)
}

func (l *lnWrap) RecoverClaimPayment(payreq string) (string, error) {
	k, err := l.inc.enter("ln.recover")
	if err != nil {
		return "", err
	}
	n := l.inc.node
	w := n.w
	// like waitsendpay / TrackPaymentV2 the call blocks while the payment is in flight
	announced := false
	for {
		w.mu.Lock()
		pend := false
		if inv := w.LN.Invoices[payreq]; inv != nil {
			for _, a := range w.LN.attemptsLocked(n.ID, inv.Hash) {
				if a.State == "pending" {
					pend = true
				}
				if a.State == "settled" {
					pend = false
					break
				}
			}
		}
		if pend && !announced {
			bt, lt := l.tips()
			w.emitLocked(n.Name, l.inc.N, "ln.recover.wait", EvPay{Op: "recover", Payreq: payreq, BtcTip: bt, LbtcTip: lt})
			announced = true
		}
		w.mu.Unlock()
		if !pend {
			break
		}
		if l.inc.dead.Load() {
			parkForever()
		}
		time.Sleep(200 * time.Microsecond)
	}
	w.mu.Lock()
	inv := w.LN.Invoices[payreq]
	var pre string
	var rerr error
	if inv == nil {
		rerr = fmt.Errorf("invalid bolt11")
	} else {
		at := w.LN.attemptsLocked(n.ID, inv.Hash)
		switch {
		case len(at) == 0:
			rerr = fmt.Errorf("claim payment was not found")
		default:
			rerr = fmt.Errorf("claim payment already failed")
			for _, a := range at {
				if a.State == "settled" {
					pre, rerr = inv.Preimage, nil
				}
			}
			if rerr != nil {
				for _, a := range at {
					if a.State == "pending" {
						rerr = ErrPayRPC // waitsendpay would block; the simulator reports a timeout instead
					}
				}
			}
		}
	}
	bt, lt := l.tips()
	w.emitLocked(n.Name, l.inc.N, "ln.recover", EvPay{Op: "recover", Payreq: payreq, Err: errStr(rerr), BtcTip: bt, LbtcTip: lt})
	w.mu.Unlock()
	l.inc.leave(k, "ln.recover")
	return pre, rerr
}

func (l *lnWrap) GetPayreq(msatAmount uint64, preimage string, swapId string, memo string, invoiceType swap.InvoiceType, expirySeconds, expiryCltv uint64) (string, error) {
	k, err := l.inc.enter("ln.getpayreq")
	if err != nil {
		return "", err
	}
	n := l.inc.node
	w := n.w
	w.mu.Lock()
	inv := w.LN.newInvoiceLocked(n.ID, msatAmount, preimage, swapId, memo, int(invoiceType), expirySeconds, int64(expiryCltv))
	w.emitLocked(n.Name, l.inc.N, "ln.invoice", EvInvoice{Payreq: inv.Payreq, Msat: msatAmount, Hash: inv.Hash, SwapID: swapId, Type: int(invoiceType), Expiry: expirySeconds, Cltv: expiryCltv})
	w.mu.Unlock()
	l.inc.leave(k, "ln.getpayreq")
	return inv.Payreq, nil
}

func (l *lnWrap) AddPaymentCallback(f func(swapId string, invoiceType swap.InvoiceType)) {
	l.inc.hMu.Lock()
	l.inc.payCb = f
	l.inc.hMu.Unlock()
}

func (l *lnWrap) AddPaymentNotifier(swapId string, payreq string, invoiceType swap.InvoiceType) {
	if _, err := l.inc.enter("ln.notifier"); err != nil {
		return
	}
	l.inc.node.w.LN.watch(l.inc.node.Name, l.inc.N, payreq, swapId, int(invoiceType))
}

func (l *lnWrap) CanSpend(amountMsat uint64) error {
	if _, err := l.inc.enter("ln.canspend"); err != nil {
		return err
	}
	return nil
}
func (l *lnWrap) Implementation() string { return l.inc.node.Cfg.Impl }

func (l *lnWrap) SpendableMsat(scid string) (uint64, error) {
	if _, err := l.inc.enter("ln.spendable"); err != nil {
		return 0, err
	}
	w := l.inc.node.w
	w.mu.Lock()
	defer w.mu.Unlock()
	return w.LN.spendableLocked(l.inc.node.ID, scid)
}
func (l *lnWrap) ReceivableMsat(scid string) (uint64, error) {
	if _, err := l.inc.enter("ln.receivable"); err != nil {
		return 0, err
	}
	w := l.inc.node.w
	w.mu.Lock()
	defer w.mu.Unlock()
	return w.LN.receivableLocked(l.inc.node.ID, scid)
}
func (l *lnWrap) ProbePayment(scid string, amountMsat uint64) (bool, string, error) {
	if _, err := l.inc.enter("ln.probe"); err != nil {
		return false, "", err
	}
	w := l.inc.node.w
	w.mu.Lock()
	defer w.mu.Unlock()
	sp, err := w.LN.spendableLocked(l.inc.node.ID, scid)
	if err != nil {
		return false, "", err
	}
	if sp < amountMsat {
		return false, "insufficient balance", nil
	}
	return true, "", nil
}

// ---------------------------------------------------------------------------
// wallet / validator / watcher crossings

type walletWrap struct {
	inc   *Incarnation
	chain string
	real  swap.Wallet
}

func (w *walletWrap) tip() uint32 {
	if w.chain == "btc" {
		return w.inc.node.w.BTC.Height()
	}
	return w.inc.node.w.LBTC.Height()
}

func (w *walletWrap) SetLabel(txID, address, label string) error {
	k, err := w.inc.enter(w.chain + ".label")
	if err != nil {
		return err
	}
	err = w.real.SetLabel(txID, address, label)
	w.inc.leave(k, w.chain+".label")
	return err
}

func (w *walletWrap) CreateOpeningTransaction(p *swap.OpeningParams) (string, string, string, uint64, uint32, error) {
	op := w.chain + ".open"
	k, err := w.inc.enter(op)
	if err != nil {
		return "", "", "", 0, 0, err
	}
	txHex, addr, txid, fee, vout, err := w.real.CreateOpeningTransaction(p)
	w.inc.node.w.Emit(w.inc.node.Name, w.inc.N, "wallet.open", EvTx{Chain: w.chain, Op: "open", TxID: txid, Hex: txHex, Vout: vout, Addr: addr, Err: errStr(err), Tip: w.tip()})
	w.inc.leave(k, op)
	return txHex, addr, txid, fee, vout, err
}

func (w *walletWrap) spend(kind string, f func() (string, string, string, error)) (string, string, string, error) {
	op := w.chain + "." + kind
	k, err := w.inc.enter(op)
	if err != nil {
		return "", "", "", err
	}
	txid, txHex, addr, err := f()
	w.inc.node.w.Emit(w.inc.node.Name, w.inc.N, "wallet.spend", EvTx{Chain: w.chain, Op: kind, TxID: txid, Hex: txHex, Addr: addr, Err: errStr(err), Tip: w.tip()})
	w.inc.leave(k, op)
	return txid, txHex, addr, err
}

func (w *walletWrap) CreatePreimageSpendingTransaction(p *swap.OpeningParams, c *swap.ClaimParams) (string, string, string, error) {
	return w.spend("preimage", func() (string, string, string, error) { return w.real.CreatePreimageSpendingTransaction(p, c) })
}
func (w *walletWrap) CreateCsvSpendingTransaction(p *swap.OpeningParams, c *swap.ClaimParams) (string, string, string, error) {
	return w.spend("csv", func() (string, string, string, error) { return w.real.CreateCsvSpendingTransaction(p, c) })
}
func (w *walletWrap) CreateCoopSpendingTransaction(p *swap.OpeningParams, c *swap.ClaimParams, s swap.Signer) (string, string, string, error) {
	return w.spend("coop", func() (string, string, string, error) { return w.real.CreateCoopSpendingTransaction(p, c, s) })
}
func (w *walletWrap) GetOutputScript(p *swap.OpeningParams) ([]byte, error) {
	if _, err := w.inc.enter(w.chain + ".outputscript"); err != nil {
		return nil, err
	}
	return w.real.GetOutputScript(p)
}
func (w *walletWrap) NewAddress() (string, error) {
	if _, err := w.inc.enter(w.chain + ".newaddr"); err != nil {
		return "", err
	}
	return w.real.NewAddress()
}
func (w *walletWrap) GetRefundFee() (uint64, error) {
	if _, err := w.inc.enter(w.chain + ".refundfee"); err != nil {
		return 0, err
	}
	return w.real.GetRefundFee()
}
func (w *walletWrap) GetFlatOpeningTXFee() (uint64, error) {
	if _, err := w.inc.enter(w.chain + ".openfee"); err != nil {
		return 0, err
	}
	return w.real.GetFlatOpeningTXFee()
}
func (w *walletWrap) GetAsset() string   { return w.real.GetAsset() }
func (w *walletWrap) GetNetwork() string {
	if n := w.inc.node.Cfg.BtcNetworkName; n != "" && w.chain == "btc" {
		return n
	}
	return w.real.GetNetwork()
}
func (w *walletWrap) GetOnchainBalance() (uint64, error) {
	if _, err := w.inc.enter(w.chain + ".balance"); err != nil {
		return 0, err
	}
	return w.real.GetOnchainBalance()
}

type validatorWrap struct {
	inc   *Incarnation
	chain string
	real  swap.Validator
}

// EvValidate records a validator invocation and its verdict.
type EvValidate struct {
	Chain string `json:"chain"`
	OK    bool   `json:"ok"`
	Err   string `json:"err,omitempty"`
	TxHex string `json:"tx_hex,omitempty"`
}

func (v *validatorWrap) TxIdFromHex(txHex string) (string, error) { return v.real.TxIdFromHex(txHex) }
func (v *validatorWrap) ValidateTx(p *swap.OpeningParams, txHex string) (bool, error) {
	if v.inc.dead.Load() {
		parkForever()
	}
	ok, err := v.real.ValidateTx(p, txHex)
	v.inc.node.w.Emit(v.inc.node.Name, v.inc.N, "validate", EvValidate{Chain: v.chain, OK: ok, Err: errStr(err), TxHex: txHex})
	return ok, err
}
func (v *validatorWrap) GetCSVHeight() uint32 { return v.real.GetCSVHeight() }

type watcherWrap struct {
	inc   *Incarnation
	chain string
	real  swap.TxWatcher
}

func (t *watcherWrap) AddWaitForConfirmationTx(swapID, txID string, vout, startingHeight, paymentWindow uint32, scriptpubkey []byte) {
	op := t.chain + ".watchconf"
	k, err := t.inc.enter(op)
	if err != nil {
		return
	}
	t.inc.node.w.Emit(t.inc.node.Name, t.inc.N, "watch.conf", EvWatch{Chain: t.chain, Op: "conf", SwapID: swapID, TxID: txID, Vout: vout, Start: startingHeight, Window: paymentWindow})
	t.real.AddWaitForConfirmationTx(swapID, txID, vout, startingHeight, paymentWindow, scriptpubkey)
	t.inc.leave(k, op)
}
func (t *watcherWrap) AddWaitForCsvTx(swapID, txID string, vout, startingHeight, csv uint32, scriptpubkey []byte) {
	op := t.chain + ".watchcsv"
	k, err := t.inc.enter(op)
	if err != nil {
		return
	}
	t.inc.node.w.Emit(t.inc.node.Name, t.inc.N, "watch.csv", EvWatch{Chain: t.chain, Op: "csv", SwapID: swapID, TxID: txID, Vout: vout, Start: startingHeight, Window: csv})
	t.real.AddWaitForCsvTx(swapID, txID, vout, startingHeight, csv, scriptpubkey)
	t.inc.leave(k, op)
}
func (t *watcherWrap) AddConfirmationCallback(f func(swapId string, txHex string, err error) error) {
	t.real.AddConfirmationCallback(f)
}
func (t *watcherWrap) AddCsvCallback(f func(swapId string) error) { t.real.AddCsvCallback(f) }
func (t *watcherWrap) GetBlockHeight() (uint32, error) {
	op := t.chain + ".height"
	if _, err := t.inc.enter(op); err != nil {
		t.inc.node.w.Emit(t.inc.node.Name, t.inc.N, "watch.height", EvWatch{Chain: t.chain, Op: "height", Err: err.Error()})
		return 0, err
	}
	h, err := t.real.GetBlockHeight()
	t.inc.node.w.Emit(t.inc.node.Name, t.inc.N, "watch.height", EvWatch{Chain: t.chain, Op: "height", Height: h, Err: errStr(err)})
	return h, err
}
func (t *watcherWrap) StartWatchingTxs() error { return t.real.StartWatchingTxs() }
