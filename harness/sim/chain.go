package sim

import (
	"bytes"
	"crypto/sha256"
	"encoding/hex"
	"errors"
	"fmt"

	"github.com/btcsuite/btcd/txscript"
	"github.com/btcsuite/btcd/wire"
)

// OutRef names a transaction output.
type OutRef struct {
	TxID string
	Vout uint32
}

// ChainOut is what the ground truth knows about one output.
type ChainOut struct {
	Script []byte
	Value  int64 // explicit value; -1 if confidential
	Raw    any   // *transaction.TxOutput for liquid
}

// ChainTx is a transaction known to the chain simulator.
type ChainTx struct {
	ID      string
	Hex     string
	Version int32
	Ins     []OutRef
	Seqs    []uint32
	Outs    []ChainOut
	Height  uint32 // 0 = mempool
	// MaxDepth is the largest depth the transaction ever had on the best chain.
	MaxDepth uint32
	// NoMine keeps the transaction in the mempool forever (never confirmed).
	NoMine bool
	Wallet bool   // funded by a simulated wallet: inputs are not validated
	By     string // who handed it to the chain (node name / peer name)
	Kind   string // open | preimage | csv | coop | raw
	Msg    *wire.MsgTx
	Raw    any
}

// Chain is a deterministic single-best-chain simulator with a mempool.
type Chain struct {
	w      *World
	Name   string
	hashes []string // index = height
	txs    map[string]*ChainTx
	order  []string // broadcast order
	spent  map[OutRef]string
	// Version increases with every mutation (mined block, reorg, broadcast).
	Version int64
	// Broadcasts counts accepted and rejected broadcast attempts per txid.
	Broadcasts map[string]int
	// parse turns a hex string into a ChainTx (chain specific).
	parse func(hexStr string) (*ChainTx, error)
	// checkSpend validates input idx of tx against the referenced output (chain specific).
	checkSpend func(c *Chain, tx *ChainTx, idx int, prev *ChainTx, out ChainOut) error
	salt       int
	// KeepHistory makes every version of the ground truth available through Snaps.
	KeepHistory bool
	Snaps       []ChainSnap
	// HeightOffset is added to every height reported to nodes (heights near 2^32 without materialising blocks).
	HeightOffset uint32
	// RejectAll makes Broadcast fail (fault injection), counted down when > 0.
	FailBroadcasts int
}

func newChain(w *World, name string, start uint32) *Chain {
	c := &Chain{w: w, Name: name, txs: map[string]*ChainTx{}, spent: map[OutRef]string{}, Broadcasts: map[string]int{}}
	for h := uint32(0); h <= start; h++ {
		c.hashes = append(c.hashes, c.mkHash(h))
	}
	if name == "btc" {
		c.parse = parseBtcTx
		c.checkSpend = checkBtcSpend
	} else {
		c.parse = parseLiquidTx
		c.checkSpend = checkLiquidSpend
	}
	return c
}

func (c *Chain) mkHash(h uint32) string {
	s := sha256.Sum256([]byte(fmt.Sprintf("%s/%d/%d/%d", c.Name, h, c.salt, c.w.Seed)))
	return hex.EncodeToString(s[:])
}

// Height returns the tip height.
func (c *Chain) Height() uint32 {
	c.w.mu.Lock()
	defer c.w.mu.Unlock()
	return c.heightLocked()
}
func (c *Chain) heightLocked() uint32 { return uint32(len(c.hashes) - 1) }

// SetHeight extends the chain (empty blocks) so that the tip is h (h must be >= tip).
func (c *Chain) SetHeight(h uint32) {
	c.w.mu.Lock()
	defer c.w.mu.Unlock()
	for c.heightLocked() < h {
		c.hashes = append(c.hashes, c.mkHash(uint32(len(c.hashes))))
	}
	c.Version++
	c.snapLocked()
}

// JumpTo sets the tip height without materialising every block hash (heights near 2^32).
// Only usable before any transaction is confirmed.
func (c *Chain) BlockHash(h uint32) (string, bool) {
	c.w.mu.Lock()
	defer c.w.mu.Unlock()
	if int(h) >= len(c.hashes) {
		return "", false
	}
	return c.hashes[h], true
}

// Mine mines n blocks; the first one confirms the whole mempool.
func (c *Chain) Mine(n int) {
	c.w.mu.Lock()
	for i := 0; i < n; i++ {
		c.mineLocked()
	}
	c.w.mu.Unlock()
	c.w.notifyBlock(c)
}

func (c *Chain) mineLocked() {
	h := uint32(len(c.hashes))
	c.hashes = append(c.hashes, c.mkHash(h))
	for _, id := range c.order {
		tx := c.txs[id]
		if tx != nil && tx.Height == 0 && !tx.NoMine {
			tx.Height = h
		}
	}
	for _, tx := range c.txs {
		if tx.Height != 0 && h-tx.Height+1 > tx.MaxDepth {
			tx.MaxDepth = h - tx.Height + 1
		}
	}
	c.Version++
	c.snapLocked()
	c.w.emitLocked("", 0, "chain.block", EvBlock{Chain: c.Name, Height: h})
}

// TxLocked / HeightLocked / ConfsLocked are for online monitors, which run under the world lock.
func (c *Chain) TxLocked(id string) *ChainTx  { return c.txs[id] }
func (c *Chain) HeightLocked() uint32         { return c.heightLocked() }
func (c *Chain) ConfsLocked(id string) uint32 { return c.confsLocked(id) }
func (c *Chain) SpentByLocked(o OutRef) *ChainTx {
	if id, ok := c.spent[o]; ok {
		return c.txs[id]
	}
	return nil
}

// Unconfirmable keeps a transaction in the mempool forever.
func (c *Chain) Unconfirmable(id string) {
	c.w.mu.Lock()
	defer c.w.mu.Unlock()
	if tx := c.txs[id]; tx != nil {
		tx.NoMine = true
	}
}

// Confirmable undoes Unconfirmable.
func (c *Chain) Confirmable(id string) {
	c.w.mu.Lock()
	defer c.w.mu.Unlock()
	if tx := c.txs[id]; tx != nil {
		tx.NoMine = false
	}
}

// Reorg replaces the last k blocks by k+extra new ones. Transactions confirmed in
// the removed blocks go back to the mempool (reconfirm=false) or are re-mined in the
// first new block (reconfirm=true).
func (c *Chain) Reorg(k int, extra int, reconfirm bool) {
	c.w.mu.Lock()
	tip := c.heightLocked()
	if uint32(k) > tip {
		k = int(tip)
	}
	newTip := tip - uint32(k)
	c.hashes = c.hashes[:newTip+1]
	c.salt++
	for _, tx := range c.txs {
		if tx.Height > newTip {
			tx.Height = 0
		}
	}
	c.Version++
	c.snapLocked()
	c.w.emitLocked("", 0, "chain.reorg", EvBlock{Chain: c.Name, Height: newTip})
	for i := 0; i < k+extra; i++ {
		if reconfirm || i > 0 {
			c.mineLocked()
		} else {
			// first replacement block is empty
			h := uint32(len(c.hashes))
			c.hashes = append(c.hashes, c.mkHash(h))
			c.Version++
			c.snapLocked()
			c.w.emitLocked("", 0, "chain.block", EvBlock{Chain: c.Name, Height: h})
		}
	}
	c.w.mu.Unlock()
	c.w.notifyBlock(c)
}

// ErrTxKnown mirrors bitcoind's "already in block chain / mempool".
var ErrTxKnown = errors.New("transaction already in block chain or mempool")

// AddWalletTx inserts a funding transaction whose inputs are simulated wallet coins.
func (c *Chain) AddWalletTx(hexStr, by, kind string) (*ChainTx, error) {
	return c.broadcast(hexStr, by, kind, true)
}

// Broadcast submits a raw transaction as a node's sendrawtransaction would.
func (c *Chain) Broadcast(hexStr, by, kind string) (*ChainTx, error) {
	return c.broadcast(hexStr, by, kind, false)
}

func (c *Chain) broadcast(hexStr, by, kind string, wallet bool) (*ChainTx, error) {
	tx, err := c.parse(hexStr)
	if err != nil {
		return nil, fmt.Errorf("TX decode failed: %w", err)
	}
	tx.By, tx.Kind, tx.Wallet = by, kind, wallet
	c.w.mu.Lock()
	defer c.w.mu.Unlock()
	c.Broadcasts[tx.ID]++
	tip := c.heightLocked()
	if c.FailBroadcasts > 0 {
		c.FailBroadcasts--
		c.w.emitLocked(by, 0, "chain.reject", EvTx{Chain: c.Name, Op: kind, TxID: tx.ID, Err: "injected failure", Tip: tip})
		return nil, errors.New("injected: sendrawtransaction failed")
	}
	if _, ok := c.txs[tx.ID]; ok {
		c.w.emitLocked(by, 0, "chain.reject", EvTx{Chain: c.Name, Op: kind, TxID: tx.ID, Err: ErrTxKnown.Error(), Tip: tip})
		return nil, ErrTxKnown
	}
	for i, in := range tx.Ins {
		prev, ok := c.txs[in.TxID]
		if !ok {
			if wallet {
				continue
			}
			err := fmt.Errorf("bad-txns-inputs-missingorspent (input %d)", i)
			c.w.emitLocked(by, 0, "chain.reject", EvTx{Chain: c.Name, Op: kind, TxID: tx.ID, Err: err.Error(), Tip: tip})
			return nil, err
		}
		if int(in.Vout) >= len(prev.Outs) {
			err := fmt.Errorf("bad-txns-inputs-missingorspent (no such output %d)", in.Vout)
			c.w.emitLocked(by, 0, "chain.reject", EvTx{Chain: c.Name, Op: kind, TxID: tx.ID, Err: err.Error(), Tip: tip})
			return nil, err
		}
		if other, ok := c.spent[in]; ok {
			err := fmt.Errorf("bad-txns-inputs-missingorspent (spent by %s)", other)
			c.w.emitLocked(by, 0, "chain.reject", EvTx{Chain: c.Name, Op: kind, TxID: tx.ID, Err: err.Error(), Tip: tip})
			return nil, err
		}
		// BIP68
		seq := tx.Seqs[i]
		if tx.Version >= 2 && seq&wire.SequenceLockTimeDisabled == 0 {
			if seq&wire.SequenceLockTimeIsSeconds != 0 {
				err := errors.New("non-BIP68-final (time based lock in simulator)")
				c.w.emitLocked(by, 0, "chain.reject", EvTx{Chain: c.Name, Op: kind, TxID: tx.ID, Err: err.Error(), Tip: tip})
				return nil, err
			}
			need := seq & wire.SequenceLockTimeMask
			if need > 0 {
				if prev.Height == 0 || uint64(tip)+1 < uint64(prev.Height)+uint64(need) {
					err := errors.New("non-BIP68-final")
					c.w.emitLocked(by, 0, "chain.reject", EvTx{Chain: c.Name, Op: kind, TxID: tx.ID, Err: err.Error(), Tip: tip})
					return nil, err
				}
			}
		}
		if err := c.checkSpend(c, tx, i, prev, prev.Outs[in.Vout]); err != nil {
			err = fmt.Errorf("mandatory-script-verify-flag-failed (%v)", err)
			c.w.emitLocked(by, 0, "chain.reject", EvTx{Chain: c.Name, Op: kind, TxID: tx.ID, Err: err.Error(), Tip: tip})
			return nil, err
		}
	}
	for _, in := range tx.Ins {
		c.spent[in] = tx.ID
	}
	c.txs[tx.ID] = tx
	c.order = append(c.order, tx.ID)
	c.Version++
	c.snapLocked()
	c.w.emitLocked(by, 0, "chain.accept", EvTx{Chain: c.Name, Op: kind, TxID: tx.ID, Hex: hexStr, Tip: tip})
	return tx, nil
}

// Tx returns the transaction record (nil if unknown).
func (c *Chain) Tx(id string) *ChainTx {
	c.w.mu.Lock()
	defer c.w.mu.Unlock()
	return c.txs[id]
}

// Confs returns the depth of a transaction at the current tip (0 = mempool/unknown).
func (c *Chain) Confs(id string) uint32 {
	c.w.mu.Lock()
	defer c.w.mu.Unlock()
	return c.confsLocked(id)
}

func (c *Chain) confsLocked(id string) uint32 {
	tx, ok := c.txs[id]
	if !ok || tx.Height == 0 {
		return 0
	}
	return c.heightLocked() - tx.Height + 1
}

// SpentBy returns the transaction spending the output, if any.
func (c *Chain) SpentBy(o OutRef) *ChainTx {
	c.w.mu.Lock()
	defer c.w.mu.Unlock()
	if id, ok := c.spent[o]; ok {
		return c.txs[id]
	}
	return nil
}

// TxsByLocked is TxsBy for online monitors (world lock held).
func (c *Chain) TxsByLocked(by, kind string) []*ChainTx {
	var r []*ChainTx
	for _, id := range c.order {
		t := c.txs[id]
		if (by == "" || t.By == by) && (kind == "" || t.Kind == kind) {
			r = append(r, t)
		}
	}
	return r
}

// TxsBy lists transactions handed in by a given party with the given kind ("" = any).
func (c *Chain) TxsBy(by, kind string) []*ChainTx {
	c.w.mu.Lock()
	defer c.w.mu.Unlock()
	var r []*ChainTx
	for _, id := range c.order {
		t := c.txs[id]
		if (by == "" || t.By == by) && (kind == "" || t.Kind == kind) {
			r = append(r, t)
		}
	}
	return r
}

// EvBlock is logged for each new tip.
type EvBlock struct {
	Chain  string `json:"chain"`
	Height uint32 `json:"height"`
}

// ---------------------------------------------------------------------------
// bitcoin specifics

func parseBtcTx(hexStr string) (*ChainTx, error) {
	b, err := hex.DecodeString(hexStr)
	if err != nil {
		return nil, err
	}
	m := wire.NewMsgTx(2)
	if err := m.Deserialize(bytes.NewReader(b)); err != nil {
		return nil, err
	}
	tx := &ChainTx{ID: m.TxHash().String(), Hex: hexStr, Version: m.Version, Msg: m}
	for _, in := range m.TxIn {
		tx.Ins = append(tx.Ins, OutRef{in.PreviousOutPoint.Hash.String(), in.PreviousOutPoint.Index})
		tx.Seqs = append(tx.Seqs, in.Sequence)
	}
	for _, o := range m.TxOut {
		tx.Outs = append(tx.Outs, ChainOut{Script: o.PkScript, Value: o.Value})
	}
	return tx, nil
}

// BtcConsensusFlags is the flag set used by the ground-truth chain.
const BtcConsensusFlags = txscript.ScriptBip16 | txscript.ScriptVerifyWitness |
	txscript.ScriptVerifyCheckLockTimeVerify | txscript.ScriptVerifyCheckSequenceVerify |
	txscript.ScriptVerifyDERSignatures | txscript.ScriptVerifyStrictEncoding |
	txscript.ScriptVerifyLowS | txscript.ScriptStrictMultiSig |
	txscript.ScriptVerifyNullFail | txscript.ScriptVerifyMinimalIf | txscript.ScriptVerifyCleanStack | txscript.ScriptVerifyMinimalData

func checkBtcSpend(c *Chain, tx *ChainTx, idx int, prev *ChainTx, out ChainOut) error {
	fetcher := txscript.NewMultiPrevOutFetcher(nil)
	for _, in := range tx.Msg.TxIn {
		p := c.txs[in.PreviousOutPoint.Hash.String()]
		if p != nil && int(in.PreviousOutPoint.Index) < len(p.Outs) {
			o := p.Outs[in.PreviousOutPoint.Index]
			fetcher.AddPrevOut(in.PreviousOutPoint, wire.NewTxOut(o.Value, o.Script))
		}
	}
	hc := txscript.NewTxSigHashes(tx.Msg, fetcher)
	vm, err := txscript.NewEngine(out.Script, tx.Msg, idx, BtcConsensusFlags, nil, hc, out.Value, fetcher)
	if err != nil {
		return err
	}
	if err := vm.Execute(); err != nil {
		return err
	}
	// value conservation
	var inSum, outSum int64
	for _, in := range tx.Msg.TxIn {
		p := c.txs[in.PreviousOutPoint.Hash.String()]
		if p == nil {
			return nil // mixed wallet inputs: skip the balance check
		}
		inSum += p.Outs[in.PreviousOutPoint.Index].Value
	}
	for _, o := range tx.Msg.TxOut {
		if o.Value < 0 {
			return errors.New("bad-txns-vout-negative")
		}
		outSum += o.Value
	}
	if outSum > inSum {
		return errors.New("bad-txns-in-belowout")
	}
	return nil
}
