package sim

import (
	"bytes"
	"crypto/rand"
	"encoding/hex"
	"errors"
	"fmt"

	"github.com/btcsuite/btcd/btcec/v2"
	"github.com/btcsuite/btcd/btcutil"
	"github.com/btcsuite/btcd/chaincfg"
	"github.com/btcsuite/btcd/chaincfg/chainhash"
	"github.com/btcsuite/btcd/txscript"
	"github.com/btcsuite/btcd/wire"
	"github.com/elementsproject/peerswap/lightning"
	"github.com/elementsproject/peerswap/onchain"
	"github.com/elementsproject/peerswap/swap"
)

// BtcParams is the network all simulated Bitcoin nodes run on.
var BtcParams = &chaincfg.RegressionNetParams

type simEstimator struct{ n *Node }

func (e *simEstimator) EstimateFeePerKW(uint32) (btcutil.Amount, error) {
	v := e.n.Cfg.BtcFeePerKw
	if v < 0 {
		return 0, errors.New("estimator unavailable")
	}
	return btcutil.Amount(v), nil
}
func (e *simEstimator) Start() error { return nil }

// BtcWallet is the node's Bitcoin wallet + wallet adapter. The wallet state (coins,
// addresses) lives outside the peerswap process and survives incarnations. The adapter
// part follows clightning/clightning_wallet.go step by step, with the lightningd /
// bitcoind RPCs replaced by the simulator; all transaction construction goes through
// the real onchain.BitcoinOnChain helpers.
type BtcWallet struct {
	n       *Node
	onchain *onchain.BitcoinOnChain
	// Addrs maps handed-out addresses to their scripts.
	Addrs map[string][]byte
	// FundingLayout decides (number of inputs, index of the swap output, number of extra change outputs)
	// for the next funding transaction; nil = 1 input, change after the swap output.
	FundingLayout func() (inputs int, swapIndex int, changeOuts int)
	// ChangeValue overrides the value of change outputs (0 = derived).
	ChangeValue int64
	// SameScriptExtra, if set, returns the value of an additional output paying the swap address (a wallet
	// batching a second send to the same address) and whether it goes before the swap output; 0 = none.
	SameScriptExtra func(amount uint64) (value int64, before bool)
	// NestedInputs (real CLN adapter only) decides whether the next funding transaction spends P2SH-wrapped segwit
	// coins, whose signing changes the txid.
	NestedInputs func() bool
	Opened       []string // txids of funding transactions
}

func newBtcWallet(n *Node) *BtcWallet {
	b := &BtcWallet{n: n, Addrs: map[string][]byte{}}
	b.onchain = onchain.NewBitcoinOnChain(&simEstimator{n}, 253, onchain.LegacyFeeFloorSatPerKw, BtcParams)
	return b
}

// OnChain exposes the real helper object.
func (b *BtcWallet) OnChain() *onchain.BitcoinOnChain { return b.onchain }

type btcAdapter struct {
	b   *BtcWallet
	inc *Incarnation
}

func (b *BtcWallet) forInc(inc *Incarnation) swap.Wallet { return &btcAdapter{b: b, inc: inc} }

func (b *BtcWallet) newAddr() (string, []byte) {
	priv, _ := btcec.NewPrivateKey()
	pkh := btcutil.Hash160(priv.PubKey().SerializeCompressed())
	addr, _ := btcutil.NewAddressWitnessPubKeyHash(pkh, BtcParams)
	script, _ := txscript.PayToAddrScript(addr)
	b.n.w.mu.Lock()
	b.Addrs[addr.EncodeAddress()] = script
	b.n.w.mu.Unlock()
	return addr.EncodeAddress(), script
}

// OwnsScript reports whether the script belongs to an address of this wallet.
func (b *BtcWallet) OwnsScript(s []byte) bool {
	b.n.w.mu.Lock()
	defer b.n.w.mu.Unlock()
	for _, v := range b.Addrs {
		if bytes.Equal(v, s) {
			return true
		}
	}
	return false
}

func (a *btcAdapter) SetLabel(txID, address, label string) error { return nil }

func (a *btcAdapter) CreateOpeningTransaction(p *swap.OpeningParams) (string, string, string, uint64, uint32, error) {
	b := a.b
	addr, err := b.onchain.CreateOpeningAddress(p, onchain.BitcoinCsv)
	if err != nil {
		return "", "", "", 0, 0, err
	}
	// --- "preparetx": the wallet funds a transaction paying `addr`
	dec, err := btcutil.DecodeAddress(addr, BtcParams)
	if err != nil {
		return "", "", "", 0, 0, err
	}
	pk, _ := txscript.PayToAddrScript(dec)
	b.n.w.mu.Lock()
	bal := b.n.Cfg.BtcBalance
	b.n.w.mu.Unlock()
	if p.Amount > bal {
		return "", "", "", 0, 0, errors.New("Could not afford: insufficient funds")
	}
	inputs, swapIdx, changeOuts := 1, 0, 1
	if b.FundingLayout != nil {
		inputs, swapIdx, changeOuts = b.FundingLayout()
	}
	tx := wire.NewMsgTx(2)
	for i := 0; i < inputs; i++ {
		var h chainhash.Hash
		rand.Read(h[:])
		tx.AddTxIn(wire.NewTxIn(wire.NewOutPoint(&h, uint32(i)), nil, [][]byte{{0x30}, {0x02}}))
	}
	total := changeOuts + 1
	if swapIdx >= total {
		swapIdx = total - 1
	}
	var extraVal int64
	var extraBefore bool
	if b.SameScriptExtra != nil {
		extraVal, extraBefore = b.SameScriptExtra(p.Amount)
	}
	for i := 0; i < total; i++ {
		if i == swapIdx {
			if extraVal > 0 && extraBefore {
				tx.AddTxOut(wire.NewTxOut(extraVal, pk))
			}
			tx.AddTxOut(wire.NewTxOut(int64(p.Amount), pk))
			if extraVal > 0 && !extraBefore {
				tx.AddTxOut(wire.NewTxOut(extraVal, pk))
			}
			continue
		}
		_, cs := b.newAddr()
		v := b.ChangeValue
		if v == 0 {
			v = 10_000 + int64(i)*777
		}
		tx.AddTxOut(wire.NewTxOut(v, cs))
	}
	var buf bytes.Buffer
	tx.Serialize(&buf)
	unsignedHex := hex.EncodeToString(buf.Bytes())
	fee, _ := b.onchain.GetFee(int64(tx.SerializeSizeStripped()))
	// --- adapter: find the output index like the real adapters do
	_, vout, err := b.onchain.GetVoutAndVerify(unsignedHex, p)
	if err != nil {
		return "", "", "", 0, 0, err
	}
	// --- "txsend"
	ctx, err := b.n.w.BTC.AddWalletTx(unsignedHex, b.n.Name, "open")
	if err != nil {
		return "", "", "", 0, 0, fmt.Errorf("tx was not prepared %v", err)
	}
	b.n.w.mu.Lock()
	b.Opened = append(b.Opened, ctx.ID)
	b.n.Cfg.BtcBalance -= p.Amount
	b.n.w.mu.Unlock()
	return unsignedHex, addr, ctx.ID, fee, vout, nil
}

func (a *btcAdapter) CreatePreimageSpendingTransaction(p *swap.OpeningParams, c *swap.ClaimParams) (string, string, string, error) {
	b := a.b
	_, vout, err := b.onchain.GetVoutAndVerify(c.OpeningTxHex, p)
	if err != nil {
		return "", "", "", err
	}
	newAddr, _ := b.newAddr()
	tx, sigHash, redeemScript, err := b.onchain.PrepareSpendingTransaction(p, c, newAddr, vout, 0, 0)
	if err != nil {
		return "", "", "", err
	}
	sig, err := c.Signer.Sign(sigHash)
	if err != nil {
		return "", "", "", err
	}
	preimage, err := lightning.MakePreimageFromStr(c.Preimage)
	if err != nil {
		return "", "", "", err
	}
	tx.TxIn[0].Witness = onchain.GetPreimageWitness(sig.Serialize(), preimage[:], redeemScript)
	var buf bytes.Buffer
	if err := tx.Serialize(&buf); err != nil {
		return "", "", "", err
	}
	txHex := hex.EncodeToString(buf.Bytes())
	ct, err := b.n.w.BTC.Broadcast(txHex, b.n.Name, "preimage")
	if err != nil {
		return "", "", "", err
	}
	return ct.ID, txHex, newAddr, nil
}

func (a *btcAdapter) CreateCsvSpendingTransaction(p *swap.OpeningParams, c *swap.ClaimParams) (string, string, string, error) {
	b := a.b
	newAddr, _ := b.newAddr()
	_, vout, err := b.onchain.GetVoutAndVerify(c.OpeningTxHex, p)
	if err != nil {
		return "", "", "", err
	}
	tx, sigHash, redeemScript, err := b.onchain.PrepareSpendingTransaction(p, c, newAddr, vout, onchain.BitcoinCsv, 0)
	if err != nil {
		return "", "", "", err
	}
	sig, err := c.Signer.Sign(sigHash)
	if err != nil {
		return "", "", "", err
	}
	tx.TxIn[0].Witness = onchain.GetCsvWitness(sig.Serialize(), redeemScript)
	var buf bytes.Buffer
	if err := tx.Serialize(&buf); err != nil {
		return "", "", "", err
	}
	txHex := hex.EncodeToString(buf.Bytes())
	ct, err := b.n.w.BTC.Broadcast(txHex, b.n.Name, "csv")
	if err != nil {
		return "", "", "", err
	}
	return ct.ID, txHex, newAddr, nil
}

func (a *btcAdapter) CreateCoopSpendingTransaction(p *swap.OpeningParams, c *swap.ClaimParams, takerSigner swap.Signer) (string, string, string, error) {
	b := a.b
	refundAddr, _ := b.newAddr()
	refundFee, err := a.GetRefundFee()
	if err != nil {
		return "", "", "", err
	}
	_, vout, err := b.onchain.GetVoutAndVerify(c.OpeningTxHex, p)
	if err != nil {
		return "", "", "", err
	}
	tx, sigHash, redeemScript, err := b.onchain.PrepareSpendingTransaction(p, c, refundAddr, vout, 0, refundFee)
	if err != nil {
		return "", "", "", err
	}
	takerSig, err := takerSigner.Sign(sigHash)
	if err != nil {
		return "", "", "", err
	}
	makerSig, err := c.Signer.Sign(sigHash)
	if err != nil {
		return "", "", "", err
	}
	tx.TxIn[0].Witness = onchain.GetCooperativeWitness(takerSig.Serialize(), makerSig.Serialize(), redeemScript)
	var buf bytes.Buffer
	if err := tx.Serialize(&buf); err != nil {
		return "", "", "", err
	}
	txHex := hex.EncodeToString(buf.Bytes())
	ct, err := b.n.w.BTC.Broadcast(txHex, b.n.Name, "coop")
	if err != nil {
		return "", "", "", err
	}
	return ct.ID, txHex, refundAddr, nil
}

func (a *btcAdapter) GetOutputScript(p *swap.OpeningParams) ([]byte, error) {
	return a.b.onchain.GetOutputScript(p)
}
func (a *btcAdapter) NewAddress() (string, error) {
	addr, _ := a.b.newAddr()
	return addr, nil
}
func (a *btcAdapter) GetRefundFee() (uint64, error) { return a.b.onchain.GetFee(250) }
func (a *btcAdapter) GetFlatOpeningTXFee() (uint64, error) {
	return a.b.onchain.GetFee(onchain.EstimatedOpeningTxSize)
}
func (a *btcAdapter) GetAsset() string   { return "" }
func (a *btcAdapter) GetNetwork() string { return BtcParams.Name }
func (a *btcAdapter) GetOnchainBalance() (uint64, error) {
	a.b.n.w.mu.Lock()
	defer a.b.n.w.mu.Unlock()
	return a.b.n.Cfg.BtcBalance, nil
}

// OwnsScriptLocked is OwnsScript for online monitors (world lock already held).
func (b *BtcWallet) OwnsScriptLocked(s []byte) bool {
	for _, v := range b.Addrs {
		if bytes.Equal(v, s) {
			return true
		}
	}
	return false
}
