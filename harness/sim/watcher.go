package sim

import (
	"errors"
	"sync"
)

// RefWatcher is the reference TxWatcher of the deterministic world: it implements
// the swap.TxWatcher contract directly against the chain ground truth and
// delivers its callbacks through the scheduler queue (never synchronously).
type RefWatcher struct {
	inc   *Incarnation
	chain *Chain
	confs uint32

	mu     sync.Mutex
	confCb func(swapId string, txHex string, err error) error
	csvCb  func(swapId string) error
	conf   map[string]*watchReg
	csv    map[string]*watchReg
	// HeightOverride, if set, is returned by GetBlockHeight (fault/adversarial tips).
	HeightOverride func() (uint32, error)
}

type watchReg struct {
	swapID string
	txID   string
	vout   uint32
	start  uint32
	window uint32
	queued bool
}

func newRefWatcher(inc *Incarnation, c *Chain, confs uint32) *RefWatcher {
	return &RefWatcher{inc: inc, chain: c, confs: confs, conf: map[string]*watchReg{}, csv: map[string]*watchReg{}}
}

func (r *RefWatcher) AddConfirmationCallback(f func(swapId string, txHex string, err error) error) {
	r.mu.Lock()
	r.confCb = f
	r.mu.Unlock()
}
func (r *RefWatcher) AddCsvCallback(f func(swapId string) error) {
	r.mu.Lock()
	r.csvCb = f
	r.mu.Unlock()
}
func (r *RefWatcher) GetBlockHeight() (uint32, error) {
	if r.HeightOverride != nil {
		return r.HeightOverride()
	}
	return r.chain.Height() + r.chain.HeightOffset, nil
}
func (r *RefWatcher) StartWatchingTxs() error { return nil }

func (r *RefWatcher) AddWaitForConfirmationTx(swapID, txID string, vout, startingHeight, paymentWindow uint32, _ []byte) {
	r.mu.Lock()
	r.conf[swapID] = &watchReg{swapID: swapID, txID: txID, vout: vout, start: startingHeight, window: paymentWindow}
	r.mu.Unlock()
	r.check()
}

func (r *RefWatcher) AddWaitForCsvTx(swapID, txID string, vout, startingHeight, csv uint32, _ []byte) {
	r.mu.Lock()
	r.csv[swapID] = &watchReg{swapID: swapID, txID: txID, vout: vout, start: startingHeight, window: csv}
	r.mu.Unlock()
	r.check()
}

var errWindow = errors.New("exceeded csv limit")

// check evaluates all registrations against the ground truth and enqueues callbacks.
func (r *RefWatcher) check() {
	if r.inc.dead.Load() {
		return
	}
	w := r.inc.node.w
	w.mu.Lock()
	defer w.mu.Unlock()
	r.mu.Lock()
	defer r.mu.Unlock()
	tip := r.chain.heightLocked()
	off := r.chain.HeightOffset
	for id, reg := range r.conf {
		if reg.queued {
			continue
		}
		reg := reg
		id := id
		if uint64(tip)+uint64(off) >= uint64(reg.start)+uint64(reg.window) {
			reg.queued = true
			delete(r.conf, id)
			cb := r.confCb
			w.enqueueLocked(&qItem{kind: qConfirm, to: r.inc.node.Name, inc: r.inc.N, note: "conf-fail " + id, fn: func() { cb(id, "", errWindow) }})
			continue
		}
		tx := r.chain.txs[reg.txID]
		if tx == nil || tx.Height == 0 {
			continue
		}
		if tip-tx.Height+1 >= r.confs {
			reg.queued = true
			delete(r.conf, id)
			cb := r.confCb
			hexStr := tx.Hex
			w.enqueueLocked(&qItem{kind: qConfirm, to: r.inc.node.Name, inc: r.inc.N, note: "conf-ok " + id, fn: func() { cb(id, hexStr, nil) }})
		}
	}
	for id, reg := range r.csv {
		if reg.queued {
			continue
		}
		id := id
		tx := r.chain.txs[reg.txID]
		if tx == nil || tx.Height == 0 || int(reg.vout) >= len(tx.Outs) {
			continue
		}
		if _, spent := r.chain.spent[OutRef{reg.txID, reg.vout}]; spent {
			continue
		}
		if tip-tx.Height+1 >= reg.window {
			reg.queued = true
			cb := r.csvCb
			rr := reg
			w.enqueueLocked(&qItem{kind: qCsv, to: r.inc.node.Name, inc: r.inc.N, note: "csv " + id, fn: func() {
				if err := cb(id); err != nil {
					// like the real watchers: keep the registration and retry on a later block
					r.mu.Lock()
					rr.queued = false
					r.mu.Unlock()
					return
				}
				r.mu.Lock()
				delete(r.csv, id)
				r.mu.Unlock()
			}})
		}
	}
}

// notifyBlock lets every live reference watcher of the chain look at the new tip.
func (w *World) notifyBlock(c *Chain) {
	for _, name := range w.nodeOrder {
		n := w.Nodes[name]
		inc := n.Inc()
		if inc == nil || inc.dead.Load() {
			continue
		}
		if c == w.BTC && inc.BtcWat != nil {
			inc.BtcWat.check()
		}
		if c == w.LBTC && inc.LbtcWat != nil {
			inc.LbtcWat.check()
		}
	}
	for _, f := range w.blockSubs {
		f(c)
	}
}
