package sim

// Protocol-level fakes that let the REAL clightning wallet adapter (clightning/clightning_wallet.go) run:
// a lightningd JSON-RPC server on a unix socket (txprepare, txsend, setpsbtversion, newaddr, listfunds) and a
// bitcoind JSON-RPC server over HTTP (sendrawtransaction). Both are thin front ends of the node's simulated
// Bitcoin wallet and of the chain simulator; every incarnation of a node gets its own pair of servers bound to
// that incarnation, so that requests are boundary crossings (crash / fault points) like every other service call.

import (
	"bytes"
	"crypto/rand"
	"encoding/hex"
	"encoding/json"
	"fmt"
	"net"
	"net/http"
	"net/http/httptest"
	"net/url"
	"path/filepath"
	"strconv"
	"strings"
	"sync"

	"github.com/btcsuite/btcd/btcutil"
	"github.com/btcsuite/btcd/btcutil/psbt"
	"github.com/btcsuite/btcd/chaincfg/chainhash"
	"github.com/btcsuite/btcd/txscript"
	"github.com/btcsuite/btcd/wire"
	"github.com/elementsproject/glightning/gbitcoin"
	"github.com/elementsproject/glightning/glightning"
	"github.com/elementsproject/peerswap/clightning"
	"github.com/elementsproject/peerswap/swap"
)

type clnPrepared struct {
	unsigned, signed string
	txid             string
	psbt             string
	amount           uint64
}

type fakeCLN struct {
	inc  *Incarnation
	b    *BtcWallet
	ln   net.Listener
	http *httptest.Server
	gl   *glightning.Lightning
	mu   sync.Mutex
	prep map[string]*clnPrepared
	// connections served (closed by close(): the client's read loop then shuts the client down, once)
	conns []net.Conn
}

// newCLNWallet starts the two fake servers for this incarnation and returns the real CLN client wired to them.
func (b *BtcWallet) newCLNWallet(inc *Incarnation) (swap.Wallet, error) {
	f := &fakeCLN{inc: inc, b: b, prep: map[string]*clnPrepared{}}
	sockName := fmt.Sprintf("lightning-rpc-%d", inc.N)
	ln, err := net.Listen("unix", filepath.Join(b.n.Dir, sockName))
	if err != nil {
		return nil, err
	}
	f.ln = ln
	go f.acceptLoop()
	f.http = httptest.NewServer(http.HandlerFunc(f.bitcoind))
	gl := glightning.NewLightning()
	if err := gl.StartUp(sockName, b.n.Dir); err != nil {
		return nil, fmt.Errorf("fake lightningd: %w", err)
	}
	f.gl = gl
	u, _ := url.Parse(f.http.URL)
	port, _ := strconv.Atoi(u.Port())
	gb := gbitcoin.NewBitcoin("user", "pass", "")
	if err := gb.StartUp("http://"+u.Hostname(), "", uint(port)); err != nil {
		return nil, fmt.Errorf("fake bitcoind: %w", err)
	}
	b.n.w.mu.Lock()
	b.n.w.closers = append(b.n.w.closers, f.close)
	b.n.w.mu.Unlock()
	ver := b.n.Cfg.CLNVersion
	if ver == "" {
		ver = "v24.08"
	}
	return clightning.VerifNewWalletClient(gl, gb, b.onchain, ver), nil
}

func (f *fakeCLN) close() {
	f.ln.Close()
	f.http.Close()
	// glightning's client shuts itself down when its connection ends; an explicit Shutdown() in addition races with
	// that (jrpc2.Client.Shutdown closes a channel twice: "panic: close of closed channel")
	f.mu.Lock()
	cs := f.conns
	f.conns = nil
	f.mu.Unlock()
	for _, c := range cs {
		c.Close()
	}
}

func (f *fakeCLN) acceptLoop() {
	for {
		conn, err := f.ln.Accept()
		if err != nil {
			return
		}
		go f.serve(conn)
	}
}

type rpcReq struct {
	Id     json.RawMessage `json:"id"`
	Method string          `json:"method"`
	Params json.RawMessage `json:"params"`
}

func (f *fakeCLN) serve(conn net.Conn) {
	defer conn.Close()
	f.mu.Lock()
	f.conns = append(f.conns, conn)
	f.mu.Unlock()
	dec := json.NewDecoder(conn)
	for {
		var req rpcReq
		if err := dec.Decode(&req); err != nil {
			return
		}
		res, rerr := f.lightningd(req)
		var out []byte
		if rerr != nil {
			out, _ = json.Marshal(map[string]any{"jsonrpc": "2.0", "id": req.Id, "error": map[string]any{"code": -1, "message": rerr.Error()}})
		} else {
			out, _ = json.Marshal(map[string]any{"jsonrpc": "2.0", "id": req.Id, "result": res})
		}
		if _, err := conn.Write(append(out, '\n', '\n')); err != nil {
			return
		}
	}
}

// buildFunding is what the simulated node wallet does for "fund a transaction paying amount to addr": coin
// selection (number of inputs, native or P2SH-wrapped segwit coins), output order and change by the wallet's layout
// hooks, a PSBT with the spent outputs' values, and the signed form.
func (b *BtcWallet) buildFunding(addr string, amount uint64) (*clnPrepared, *psbt.Packet, error) {
	n := b.n
	dec, err := btcutil.DecodeAddress(addr, BtcParams)
	if err != nil {
		return nil, nil, err
	}
	pk, _ := txscript.PayToAddrScript(dec)
	n.w.mu.Lock()
	bal := n.Cfg.BtcBalance
	n.w.mu.Unlock()
	if amount > bal {
		return nil, nil, fmt.Errorf("Could not afford %dsat using all %d available UTXOs", amount, 1)
	}
	inputs, swapIdx, changeOuts := 1, 0, 1
	if b.FundingLayout != nil {
		inputs, swapIdx, changeOuts = b.FundingLayout()
	}
	nested := b.NestedInputs != nil && b.NestedInputs()
	unsigned := wire.NewMsgTx(2)
	for i := 0; i < inputs; i++ {
		var h chainhash.Hash
		rand.Read(h[:])
		unsigned.AddTxIn(wire.NewTxIn(wire.NewOutPoint(&h, uint32(i)), nil, nil))
	}
	total := changeOuts + 1
	if swapIdx >= total {
		swapIdx = total - 1
	}
	var extraVal int64
	var extraBefore bool
	if b.SameScriptExtra != nil {
		extraVal, extraBefore = b.SameScriptExtra(amount)
	}
	outSum := int64(0)
	add := func(v int64, s []byte) { unsigned.AddTxOut(wire.NewTxOut(v, s)); outSum += v }
	for i := 0; i < total; i++ {
		if i == swapIdx {
			if extraVal > 0 && extraBefore {
				add(extraVal, pk)
			}
			add(int64(amount), pk)
			if extraVal > 0 && !extraBefore {
				add(extraVal, pk)
			}
			continue
		}
		_, cs := b.newAddr()
		v := b.ChangeValue
		if v == 0 {
			v = 10_000 + int64(i)*777
		}
		add(v, cs)
	}
	// wallet inputs: native segwit, or P2SH-wrapped segwit (an old wallet): the latter get a scriptSig when
	// signed, so the txid of the signed transaction differs from the hash of the unsigned one
	packet, err := psbt.NewFromUnsignedTx(unsigned.Copy())
	if err != nil {
		return nil, nil, err
	}
	fee := int64(700 + 150*inputs)
	signed := unsigned.Copy()
	for i := range unsigned.TxIn {
		var kh [20]byte
		rand.Read(kh[:])
		p2wpkh, _ := txscript.NewScriptBuilder().AddOp(txscript.OP_0).AddData(kh[:]).Script()
		utxoScript := p2wpkh
		if nested {
			utxoScript, _ = txscript.NewScriptBuilder().AddOp(txscript.OP_HASH160).AddData(btcutil.Hash160(p2wpkh)).AddOp(txscript.OP_EQUAL).Script()
			packet.Inputs[i].RedeemScript = p2wpkh
			signed.TxIn[i].SignatureScript, _ = txscript.NewScriptBuilder().AddData(p2wpkh).Script()
		}
		val := (outSum + fee) / int64(inputs)
		if i == 0 {
			val += (outSum + fee) % int64(inputs)
		}
		packet.Inputs[i].WitnessUtxo = wire.NewTxOut(val, utxoScript)
		signed.TxIn[i].Witness = wire.TxWitness{bytes.Repeat([]byte{0x30}, 71), bytes.Repeat([]byte{0x02}, 33)}
	}
	b64, err := packet.B64Encode()
	if err != nil {
		return nil, nil, err
	}
	return &clnPrepared{unsigned: serTx(unsigned), signed: serTx(signed), txid: signed.TxHash().String(), psbt: b64, amount: amount}, packet, nil
}

func serTx(tx *wire.MsgTx) string {
	var buf bytes.Buffer
	tx.Serialize(&buf)
	return hex.EncodeToString(buf.Bytes())
}

func (f *fakeCLN) lightningd(req rpcReq) (any, error) {
	b := f.b
	n := b.n
	switch req.Method {
	case "newaddr":
		if _, err := f.inc.enter("btc.cln.newaddr"); err != nil {
			return nil, err
		}
		a, _ := b.newAddr()
		return map[string]string{"bech32": a}, nil
	case "listfunds":
		n.w.mu.Lock()
		bal := n.Cfg.BtcBalance
		n.w.mu.Unlock()
		return map[string]any{"outputs": []map[string]any{{"txid": strings.Repeat("11", 32), "output": 0, "amount_msat": bal * 1000, "status": "confirmed", "address": "bcrt1q"}}, "channels": []any{}}, nil
	case "setpsbtversion":
		var p struct {
			Psbt    string `json:"psbt"`
			Version int    `json:"version"`
		}
		json.Unmarshal(req.Params, &p)
		return map[string]string{"psbt": p.Psbt}, nil
	case "txprepare":
		if _, err := f.inc.enter("btc.cln.txprepare"); err != nil {
			return nil, err
		}
		var p struct {
			Outputs []map[string]string `json:"outputs"`
		}
		if err := json.Unmarshal(req.Params, &p); err != nil || len(p.Outputs) != 1 {
			return nil, fmt.Errorf("txprepare: unsupported parameters %s", req.Params)
		}
		var addr string
		var amount uint64
		for a, v := range p.Outputs[0] {
			addr = a
			amount, _ = strconv.ParseUint(strings.TrimSuffix(v, "sat"), 10, 64)
		}
		pr, _, err := b.buildFunding(addr, amount)
		if err != nil {
			return nil, err
		}
		f.mu.Lock()
		f.prep[pr.txid] = pr
		f.mu.Unlock()
		return map[string]string{"unsigned_tx": pr.unsigned, "txid": pr.txid, "psbt": pr.psbt}, nil
	case "txsend":
		var p struct {
			Txid string `json:"txid"`
		}
		json.Unmarshal(req.Params, &p)
		k, err := f.inc.enter("btc.cln.txsend")
		if err != nil {
			return nil, err
		}
		f.mu.Lock()
		pr := f.prep[p.Txid]
		delete(f.prep, p.Txid)
		f.mu.Unlock()
		if pr == nil {
			return nil, fmt.Errorf("txid %s not prepared", p.Txid)
		}
		ct, err := n.w.BTC.AddWalletTx(pr.signed, n.Name, "open")
		if err != nil {
			return nil, err
		}
		n.w.mu.Lock()
		b.Opened = append(b.Opened, ct.ID)
		n.Cfg.BtcBalance -= pr.amount
		n.w.mu.Unlock()
		f.inc.leave(k, "btc.cln.txsend")
		return map[string]string{"unsigned_tx": pr.unsigned, "tx": pr.signed, "txid": pr.txid, "psbt": pr.psbt}, nil
	}
	return nil, fmt.Errorf("fake lightningd: method %q not implemented", req.Method)
}

// bitcoind answers the JSON-RPC calls of gbitcoin (ping at start-up, sendrawtransaction).
func (f *fakeCLN) bitcoind(w http.ResponseWriter, r *http.Request) {
	var req rpcReq
	if err := json.NewDecoder(r.Body).Decode(&req); err != nil {
		http.Error(w, err.Error(), 400)
		return
	}
	reply := func(res any, rerr error) {
		w.Header().Set("Content-Type", "application/json")
		if rerr != nil {
			w.WriteHeader(500)
			json.NewEncoder(w).Encode(map[string]any{"id": req.Id, "result": nil, "error": map[string]any{"code": -26, "message": rerr.Error()}})
			return
		}
		json.NewEncoder(w).Encode(map[string]any{"id": req.Id, "result": res, "error": nil})
	}
	switch req.Method {
	case "ping", "echo":
		reply(nil, nil)
	case "sendrawtransaction":
		var params []json.RawMessage
		var asObj struct {
			Hex string `json:"hexstring"`
		}
		txHex := ""
		if json.Unmarshal(req.Params, &params) == nil && len(params) > 0 {
			json.Unmarshal(params[0], &txHex)
		} else if json.Unmarshal(req.Params, &asObj) == nil {
			txHex = asObj.Hex
		}
		kind := spendKindOf(txHex)
		op := "btc.bitcoind.sendrawtransaction"
		k, err := f.inc.enter(op)
		if err != nil {
			reply(nil, err)
			return
		}
		ct, err := f.b.n.w.BTC.Broadcast(txHex, f.b.n.Name, kind)
		if err != nil {
			reply(nil, err)
			return
		}
		f.inc.leave(k, op)
		reply(ct.ID, nil)
	default:
		reply(nil, fmt.Errorf("fake bitcoind: method %q not implemented", req.Method))
	}
}

// spendKindOf names the spending path of a swap-output spend from the shape of its witness (what a block explorer
// would see): [sig, script] = csv, [sig, sig, "", script] = coop, [sig, preimage, "", "", script] = preimage.
func spendKindOf(txHex string) string {
	raw, err := hex.DecodeString(txHex)
	if err != nil {
		return "raw"
	}
	tx := wire.NewMsgTx(2)
	if tx.Deserialize(bytes.NewReader(raw)) != nil || len(tx.TxIn) == 0 {
		return "raw"
	}
	switch len(tx.TxIn[0].Witness) {
	case 2:
		return "csv"
	case 4:
		return "coop"
	case 5:
		return "preimage"
	}
	return "raw"
}
