package sim

import (
	"crypto/rand"
	"crypto/sha256"
	"encoding/hex"
	"errors"
	"fmt"
	"strings"
)

// NormScid maps both spellings of a short channel id to the 'x' form.
func NormScid(s string) string { return strings.ReplaceAll(s, ":", "x") }

// Channel is a Lightning channel between two parties (node ids).
type Channel struct {
	Scid string // normalised
	A, B string // node ids
	// balances in msat
	BalA, BalB uint64
}

// Invoice in the simulated Lightning network.
type Invoice struct {
	Payreq   string
	Payee    string // node id
	Msat     uint64
	Preimage string
	Hash     string
	SwapID   string
	Type     int // 1 claim 2 fee
	Expiry   uint64
	Cltv     int64
	Memo     string
	Paid     bool
	// Hold makes the payee keep incoming HTLCs pending (malicious maker).
	Hold bool
}

// Attempt is one outgoing payment attempt in ground truth.
type Attempt struct {
	Payer   string
	Hash    string
	N       int
	State   string // pending | settled | failed
	ByInc   int
	Msat    uint64
	Scid    string
	MaxCLTV uint32
}

// Outcome of a scripted attempt.
type Outcome int

const (
	OutSettle       Outcome = iota // settles, preimage returned
	OutFail                        // fails cleanly, error returned
	OutErrPending                  // error returned, HTLC stays pending (resolved later by ResolvePending)
	OutErrSettled                  // HTLC settles, but an error is returned to the caller
	OutBlockForever                // never returns (until incarnation dies)
)

func (o Outcome) String() string {
	return [...]string{"settle", "fail", "err-pending", "err-settled", "block"}[o]
}

// Personality of the Lightning node with respect to repeated payments.
type Personality int

const (
	// CLNLike: sendpay for a completed hash returns the preimage; for a pending one it errors.
	CLNLike Personality = iota
	// LNDLike: paying a settled invoice errors (already paid); in-flight errors as well.
	LNDLike
)

// Ledger is the simulated Lightning network.
type Ledger struct {
	w        *World
	Channels map[string]*Channel // by normalised scid
	Invoices map[string]*Invoice // by payreq
	byHash   map[string]*Invoice
	Attempts []*Attempt
	// Script returns the outcome for the next attempt; nil = settle.
	Script func(payer string, inv *Invoice, attempt int) Outcome
	// Personality per node id (default CLNLike).
	Pers    map[string]Personality
	watches map[string]map[string]int // node name -> payreq -> inc that watches
	nInv    int
}

func newLedger(w *World) *Ledger {
	return &Ledger{w: w, Channels: map[string]*Channel{}, Invoices: map[string]*Invoice{}, byHash: map[string]*Invoice{},
		Pers: map[string]Personality{}, watches: map[string]map[string]int{}}
}

// OpenChannel creates a channel between node ids a and b.
func (l *Ledger) OpenChannel(scid, a, b string, balA, balB uint64) *Channel {
	l.w.mu.Lock()
	defer l.w.mu.Unlock()
	ch := &Channel{Scid: NormScid(scid), A: a, B: b, BalA: balA, BalB: balB}
	l.Channels[ch.Scid] = ch
	return ch
}

func (l *Ledger) chanLocked(scid string) *Channel { return l.Channels[NormScid(scid)] }

// Spendable returns what node id can send over scid.
func (l *Ledger) spendableLocked(id, scid string) (uint64, error) {
	ch := l.chanLocked(scid)
	if ch == nil {
		return 0, fmt.Errorf("could not find a channel with scid: %s", scid)
	}
	switch id {
	case ch.A:
		return ch.BalA, nil
	case ch.B:
		return ch.BalB, nil
	}
	return 0, fmt.Errorf("could not find a channel with scid: %s", scid)
}

func (l *Ledger) receivableLocked(id, scid string) (uint64, error) {
	ch := l.chanLocked(scid)
	if ch == nil {
		return 0, fmt.Errorf("could not find a channel with scid: %s", scid)
	}
	switch id {
	case ch.A:
		return ch.BalB, nil
	case ch.B:
		return ch.BalA, nil
	}
	return 0, fmt.Errorf("could not find a channel with scid: %s", scid)
}

// Balances returns (balance of id, balance of other side).
func (l *Ledger) Balances(scid, id string) (uint64, uint64) {
	l.w.mu.Lock()
	defer l.w.mu.Unlock()
	ch := l.chanLocked(scid)
	if ch == nil {
		return 0, 0
	}
	if id == ch.A {
		return ch.BalA, ch.BalB
	}
	return ch.BalB, ch.BalA
}

// NewInvoice creates an invoice payable to payee.
func (l *Ledger) NewInvoice(payee string, msat uint64, preimageHex, swapID, memo string, typ int, expiry uint64, cltv int64) *Invoice {
	l.w.mu.Lock()
	defer l.w.mu.Unlock()
	return l.newInvoiceLocked(payee, msat, preimageHex, swapID, memo, typ, expiry, cltv)
}

func (l *Ledger) newInvoiceLocked(payee string, msat uint64, preimageHex, swapID, memo string, typ int, expiry uint64, cltv int64) *Invoice {
	if preimageHex == "" {
		var p [32]byte
		rand.Read(p[:])
		preimageHex = hex.EncodeToString(p[:])
	}
	pb, _ := hex.DecodeString(preimageHex)
	h := sha256.Sum256(pb)
	l.nInv++
	inv := &Invoice{
		Payreq:   fmt.Sprintf("lnsim1%06d%s", l.nInv, hex.EncodeToString(h[:8])),
		Payee:    payee,
		Msat:     msat,
		Preimage: preimageHex,
		Hash:     hex.EncodeToString(h[:]),
		SwapID:   swapID, Type: typ, Expiry: expiry, Cltv: cltv, Memo: memo,
	}
	l.Invoices[inv.Payreq] = inv
	l.byHash[inv.Hash] = inv
	return inv
}

// Invoice returns the invoice for a payreq (nil if unknown).
func (l *Ledger) Invoice(payreq string) *Invoice {
	l.w.mu.Lock()
	defer l.w.mu.Unlock()
	return l.Invoices[payreq]
}

// AttemptsFor returns the attempts of payer for hash.
func (l *Ledger) AttemptsFor(payer, hash string) []*Attempt {
	l.w.mu.Lock()
	defer l.w.mu.Unlock()
	return l.attemptsLocked(payer, hash)
}

func (l *Ledger) attemptsLocked(payer, hash string) []*Attempt {
	var r []*Attempt
	for _, a := range l.Attempts {
		if a.Payer == payer && a.Hash == hash {
			r = append(r, a)
		}
	}
	return r
}

// ErrNoRoute etc. mimic node errors.
var (
	ErrPayFailed      = errors.New("WIRE_TEMPORARY_CHANNEL_FAILURE")
	ErrPayRPC         = errors.New("rpc error: connection lost while waiting for payment")
	ErrAlreadyPaid    = errors.New("invoice is already paid")
	ErrInFlight       = errors.New("payment is in transition")
	ErrInsufficient   = errors.New("insufficient balance in channel")
	ErrUnknownInvoice = errors.New("unknown invoice")
)

// pay executes one payment attempt in ground truth. w.mu must NOT be held.
// Returns the preimage or an error; block=true means the caller must block forever.
func (l *Ledger) pay(payer string, inc int, payreq, scid string, maxCLTV uint32, viaChannel bool) (preimage string, outcome string, err error, block bool) {
	l.w.mu.Lock()
	defer l.w.mu.Unlock()
	inv := l.Invoices[payreq]
	if inv == nil {
		return "", "unknown-invoice", ErrUnknownInvoice, false
	}
	prev := l.attemptsLocked(payer, inv.Hash)
	for _, a := range prev {
		if a.State == "settled" {
			if l.Pers[payer] == CLNLike {
				return inv.Preimage, "already-complete", nil, false
			}
			return "", "already-paid", ErrAlreadyPaid, false
		}
	}
	for _, a := range prev {
		if a.State == "pending" {
			return "", "in-flight", ErrInFlight, false
		}
	}
	var ch *Channel
	if viaChannel {
		ch = l.chanLocked(scid)
		if ch == nil {
			return "", "no-channel", fmt.Errorf("could not find a channel with scid: %s", scid), false
		}
		other := ch.A
		if payer == ch.A {
			other = ch.B
		}
		if other != inv.Payee {
			return "", "wrong-payee", errors.New("invoice destination is not the channel peer"), false
		}
	} else {
		for _, c := range l.Channels {
			if (c.A == payer && c.B == inv.Payee) || (c.B == payer && c.A == inv.Payee) {
				ch = c
				break
			}
		}
		if ch == nil {
			return "", "no-route", errors.New("no route"), false
		}
	}
	bal := &ch.BalA
	obal := &ch.BalB
	if payer == ch.B {
		bal, obal = obal, bal
	}
	if *bal < inv.Msat {
		return "", "insufficient", ErrInsufficient, false
	}
	n := len(prev) + 1
	out := OutSettle
	if l.Script != nil {
		out = l.Script(payer, inv, n)
	}
	if inv.Hold && out == OutSettle {
		out = OutErrPending
	}
	a := &Attempt{Payer: payer, Hash: inv.Hash, N: n, ByInc: inc, Msat: inv.Msat, Scid: ch.Scid, MaxCLTV: maxCLTV}
	l.Attempts = append(l.Attempts, a)
	switch out {
	case OutSettle, OutErrSettled:
		*bal -= inv.Msat
		*obal += inv.Msat
		a.State = "settled"
		l.settledLocked(inv)
		if out == OutErrSettled {
			return "", out.String(), ErrPayRPC, false
		}
		return inv.Preimage, out.String(), nil, false
	case OutFail:
		a.State = "failed"
		return "", out.String(), ErrPayFailed, false
	case OutErrPending:
		*bal -= inv.Msat // funds locked in the HTLC
		a.State = "pending"
		return "", out.String(), ErrPayRPC, false
	case OutBlockForever:
		*bal -= inv.Msat
		a.State = "pending"
		return "", out.String(), nil, true
	}
	return "", "?", errors.New("bad outcome"), false
}

func (l *Ledger) settledLocked(inv *Invoice) {
	first := !inv.Paid
	inv.Paid = true
	if !first {
		return
	}
	name, ok := l.w.byKey[inv.Payee]
	if !ok {
		return
	}
	if _, isPeer := l.w.Peers[name]; isPeer {
		l.w.enqueueLocked(&qItem{kind: qPayNotify, to: name, swapID: inv.SwapID, invType: inv.Type})
		return
	}
	if ws := l.watches[name]; ws != nil {
		if inc, ok := ws[inv.Payreq]; ok {
			l.w.enqueueLocked(&qItem{kind: qPayNotify, to: name, inc: inc, swapID: inv.SwapID, invType: inv.Type})
		}
	}
}

// ResolvePending settles or fails every pending attempt of payer for hash.
func (l *Ledger) ResolvePending(payer, hash string, settle bool) int {
	l.w.mu.Lock()
	defer l.w.mu.Unlock()
	n := 0
	inv := l.byHash[hash]
	for _, a := range l.Attempts {
		if a.Payer != payer || a.Hash != hash || a.State != "pending" {
			continue
		}
		ch := l.Channels[a.Scid]
		bal, obal := &ch.BalA, &ch.BalB
		if payer == ch.B {
			bal, obal = obal, bal
		}
		if settle {
			*obal += a.Msat
			a.State = "settled"
			if inv != nil {
				l.settledLocked(inv)
			}
		} else {
			*bal += a.Msat
			a.State = "failed"
		}
		n++
	}
	return n
}

// PendingOrSettled reports whether payer has an attempt for hash in one of these states.
func (l *Ledger) PendingOrSettled(payer, hash string) (pending, settled bool) {
	l.w.mu.Lock()
	defer l.w.mu.Unlock()
	for _, a := range l.attemptsLocked(payer, hash) {
		switch a.State {
		case "pending":
			pending = true
		case "settled":
			settled = true
		}
	}
	return
}

// watch registers a payment notifier of a node incarnation; fires at once if paid.
func (l *Ledger) watch(node string, inc int, payreq string, swapID string, typ int) {
	l.w.mu.Lock()
	defer l.w.mu.Unlock()
	if l.watches[node] == nil {
		l.watches[node] = map[string]int{}
	}
	l.watches[node][payreq] = inc
	if inv := l.Invoices[payreq]; inv != nil && inv.Paid {
		l.w.enqueueLocked(&qItem{kind: qPayNotify, to: node, inc: inc, swapID: swapID, invType: typ})
	}
}

// PeerPay lets a scripted peer pay an invoice (over any channel it has with the payee).
func (l *Ledger) PeerPay(payerID, payreq string) (string, error) {
	pre, _, err, _ := l.pay(payerID, 0, payreq, "", 0, false)
	return pre, err
}

// ResolveAllPending settles or fails every pending attempt of payer.
func (l *Ledger) ResolveAllPending(payer string, settle bool) int {
	l.w.mu.Lock()
	hashes := map[string]bool{}
	for _, a := range l.Attempts {
		if a.Payer == payer && a.State == "pending" {
			hashes[a.Hash] = true
		}
	}
	l.w.mu.Unlock()
	n := 0
	for h := range hashes {
		n += l.ResolvePending(payer, h, settle)
	}
	return n
}

// InvoicesOfSwap lists invoices created for a swap id (any payee).
func (l *Ledger) InvoicesOfSwap(swapID string, typ int) []*Invoice {
	l.w.mu.Lock()
	defer l.w.mu.Unlock()
	var r []*Invoice
	for _, inv := range l.Invoices {
		if inv.SwapID == swapID && (typ == 0 || inv.Type == typ) {
			r = append(r, inv)
		}
	}
	return r
}

// InvoiceLocked / AttemptsLocked are for online monitors (world lock held).
func (l *Ledger) InvoiceLocked(payreq string) *Invoice         { return l.Invoices[payreq] }
func (l *Ledger) AttemptsLocked(payer, hash string) []*Attempt { return l.attemptsLocked(payer, hash) }
