package sim

import (
	"encoding/hex"
	"encoding/json"
	"sync"

	"github.com/btcsuite/btcd/btcec/v2"
)

// Received is a message that reached a scripted peer.
type Received struct {
	From    string
	Type    int
	Payload []byte
}

// Peer is a scripted counterparty / third party: it speaks the wire protocol
// through the bus but its behaviour is decided by the scenario.
type Peer struct {
	w            *World
	Name         string
	ID           string
	Key          *btcec.PrivateKey
	Inbox        []Received
	PaidInvoices []EvPaid
	// OnMsg, if set, is called for every message delivered to the peer.
	OnMsg func(p *Peer, m Received)
	mu    sync.Mutex // Inbox / PaidInvoices when several pumps deliver concurrently
}

// AddPeer registers a scripted peer.
func (w *World) AddPeer(name string) *Peer {
	k, _ := btcec.NewPrivateKey()
	p := &Peer{w: w, Name: name, Key: k, ID: hex.EncodeToString(k.PubKey().SerializeCompressed())}
	w.Peers[name] = p
	w.byKey[p.ID] = name
	return p
}

func (p *Peer) receive(from string, typ int, payload []byte) {
	m := Received{From: from, Type: typ, Payload: payload}
	p.mu.Lock()
	p.Inbox = append(p.Inbox, m)
	p.mu.Unlock()
	p.w.Emit(p.Name, 0, "peer.recv", EvMsg{Peer: from, Type: typ, Payload: payload})
	if p.OnMsg != nil {
		p.OnMsg(p, m)
	}
}

func (p *Peer) paid(swapID string, typ int) {
	p.mu.Lock()
	p.PaidInvoices = append(p.PaidInvoices, EvPaid{SwapID: swapID, InvType: typ})
	p.mu.Unlock()
}

// Take removes and returns the first inbox message of the given type (nil if none).
func (p *Peer) Take(typ int) *Received {
	p.mu.Lock()
	defer p.mu.Unlock()
	for i, m := range p.Inbox {
		if m.Type == typ {
			p.Inbox = append(p.Inbox[:i:i], p.Inbox[i+1:]...)
			return &m
		}
	}
	return nil
}

// Count returns how many inbox messages have the given type.
func (p *Peer) Count(typ int) int {
	p.mu.Lock()
	defer p.mu.Unlock()
	c := 0
	for _, m := range p.Inbox {
		if m.Type == typ {
			c++
		}
	}
	return c
}

// Send enqueues a wire message from this peer to a node.
func (p *Peer) Send(to string, typ int, msg any) {
	var payload []byte
	switch v := msg.(type) {
	case []byte:
		payload = v
	default:
		payload, _ = json.Marshal(v)
	}
	p.w.mu.Lock()
	p.w.emitLocked(p.Name, 0, "peer.send", EvMsg{Peer: to, Type: typ, Payload: payload})
	p.w.enqueueLocked(&qItem{kind: qMsg, to: to, from: p.ID, msgType: typ, payload: payload})
	p.w.mu.Unlock()
}
