// Package tmpl is a small, independent interpreter for segwit-v0 P2WSH spends of
// the opening script family (pushes, CHECKSIG, IF/NOTIF/ELSE/ENDIF, SIZE, EQUAL(VERIFY),
// VERIFY, SHA256, CHECKSEQUENCEVERIFY). It is written from the Bitcoin script
// rules (BIP141/143/112, NULLFAIL, MINIMALIF, clean stack), not from peerswap or
// btcd code, executes whatever script bytes it is given, and takes the signature
// hash from a pluggable function so that the same rules can be applied to Elements
// transactions. It is validated differentially against btcd's txscript engine on
// every Bitcoin case of the C02 check.
package tmpl

import (
	"bytes"
	"crypto/sha256"
	"errors"
	"fmt"

	"github.com/btcsuite/btcd/btcec/v2"
	"github.com/btcsuite/btcd/btcec/v2/ecdsa"
)

// Ctx is the transaction context of the input being verified.
type Ctx struct {
	TxVersion int32
	Sequence  uint32
	// SigHash returns the digest a signature with hashType commits to, with the
	// whole witness script as script code.
	SigHash func(hashType byte, scriptCode []byte) ([]byte, error)
}

var (
	ErrUnsupported = errors.New("unsupported opcode")
)

const (
	opPushData1 = 0x4c
	opPushData2 = 0x4d
	opPushData4 = 0x4e
	op1Negate   = 0x4f
	op1         = 0x51
	op16        = 0x60
	opIf        = 0x63
	opNotIf     = 0x64
	opElse      = 0x67
	opEndIf     = 0x68
	opVerify    = 0x69
	opDrop      = 0x75
	opDup       = 0x76
	opSize      = 0x82
	opEqual     = 0x87
	opEqualVer  = 0x88
	opSha256    = 0xa8
	opCheckSig  = 0xac
	opCSV       = 0xb2

	seqDisable  = uint32(1) << 31
	seqTypeFlag = uint32(1) << 22
	seqMask     = uint32(0x0000ffff)
)

func castToBool(b []byte) bool {
	for i, c := range b {
		if c != 0 {
			if i == len(b)-1 && c == 0x80 {
				return false
			}
			return true
		}
	}
	return false
}

func scriptNum(b []byte, maxLen int) (int64, error) {
	if len(b) > maxLen {
		return 0, fmt.Errorf("script number overflow (%d bytes)", len(b))
	}
	if len(b) == 0 {
		return 0, nil
	}
	// minimal encoding
	if b[len(b)-1]&0x7f == 0 {
		if len(b) == 1 || b[len(b)-2]&0x80 == 0 {
			return 0, errors.New("non-minimal script number")
		}
	}
	var v int64
	for i, c := range b {
		v |= int64(c) << (8 * uint(i))
	}
	if b[len(b)-1]&0x80 != 0 {
		v &= ^(int64(0x80) << (8 * uint(len(b)-1)))
		v = -v
	}
	return v, nil
}

func numBytes(v int64) []byte {
	if v == 0 {
		return nil
	}
	neg := v < 0
	if neg {
		v = -v
	}
	var r []byte
	for v > 0 {
		r = append(r, byte(v&0xff))
		v >>= 8
	}
	if r[len(r)-1]&0x80 != 0 {
		if neg {
			r = append(r, 0x80)
		} else {
			r = append(r, 0)
		}
	} else if neg {
		r[len(r)-1] |= 0x80
	}
	return r
}

// VerifyP2WSH checks that witness satisfies the 34-byte P2WSH pkScript under ctx.
func VerifyP2WSH(pkScript []byte, witness [][]byte, ctx *Ctx) error {
	if len(pkScript) != 34 || pkScript[0] != 0x00 || pkScript[1] != 0x20 {
		return errors.New("not a v0 P2WSH program")
	}
	if len(witness) == 0 {
		return errors.New("witness program empty")
	}
	ws := witness[len(witness)-1]
	h := sha256.Sum256(ws)
	if !bytes.Equal(h[:], pkScript[2:]) {
		return errors.New("witness program mismatch")
	}
	stack := make([][]byte, 0, len(witness))
	for _, it := range witness[:len(witness)-1] {
		if len(it) > 520 {
			return errors.New("witness element too large")
		}
		stack = append(stack, it)
	}
	return Exec(ws, stack, ctx)
}

// Exec runs the script on the initial stack; nil = success with a clean, true stack.
func Exec(script []byte, stack [][]byte, ctx *Ctx) error {
	if len(script) > 10000 {
		return errors.New("script too large")
	}
	var cond []bool // true = executing branch
	executing := func() bool {
		for _, c := range cond {
			if !c {
				return false
			}
		}
		return true
	}
	pop := func() ([]byte, error) {
		if len(stack) == 0 {
			return nil, errors.New("stack underflow")
		}
		v := stack[len(stack)-1]
		stack = stack[:len(stack)-1]
		return v, nil
	}
	pc := 0
	for pc < len(script) {
		op := script[pc]
		pc++
		// pushes
		if op <= opPushData4 {
			var n int
			switch {
			case op < opPushData1:
				n = int(op)
			case op == opPushData1:
				if pc+1 > len(script) {
					return errors.New("malformed push")
				}
				n = int(script[pc])
				pc++
			case op == opPushData2:
				if pc+2 > len(script) {
					return errors.New("malformed push")
				}
				n = int(script[pc]) | int(script[pc+1])<<8
				pc += 2
			default:
				if pc+4 > len(script) {
					return errors.New("malformed push")
				}
				n = int(script[pc]) | int(script[pc+1])<<8 | int(script[pc+2])<<16 | int(script[pc+3])<<24
				pc += 4
			}
			if n < 0 || pc+n > len(script) {
				return errors.New("malformed push")
			}
			if n > 520 {
				return errors.New("push too large")
			}
			if executing() {
				stack = append(stack, script[pc:pc+n])
			}
			pc += n
			continue
		}
		ex := executing()
		switch {
		case op == opIf || op == opNotIf:
			v := false
			if ex {
				top, err := pop()
				if err != nil {
					return err
				}
				// MINIMALIF (consensus for witness v0 via policy; enforced by the engines we compare with)
				if len(top) > 1 || (len(top) == 1 && top[0] != 1) {
					return errors.New("minimalif")
				}
				v = castToBool(top)
				if op == opNotIf {
					v = !v
				}
			}
			cond = append(cond, v)
		case op == opElse:
			if len(cond) == 0 {
				return errors.New("unbalanced conditional")
			}
			cond[len(cond)-1] = !cond[len(cond)-1]
		case op == opEndIf:
			if len(cond) == 0 {
				return errors.New("unbalanced conditional")
			}
			cond = cond[:len(cond)-1]
		case !ex:
			// skipped
		case op == op1Negate:
			stack = append(stack, numBytes(-1))
		case op >= op1 && op <= op16:
			stack = append(stack, numBytes(int64(op-op1+1)))
		case op == opVerify:
			v, err := pop()
			if err != nil {
				return err
			}
			if !castToBool(v) {
				return errors.New("verify failed")
			}
		case op == opDrop:
			if _, err := pop(); err != nil {
				return err
			}
		case op == opDup:
			if len(stack) == 0 {
				return errors.New("stack underflow")
			}
			stack = append(stack, stack[len(stack)-1])
		case op == opSize:
			if len(stack) == 0 {
				return errors.New("stack underflow")
			}
			stack = append(stack, numBytes(int64(len(stack[len(stack)-1]))))
		case op == opEqual || op == opEqualVer:
			a, err := pop()
			if err != nil {
				return err
			}
			b, err := pop()
			if err != nil {
				return err
			}
			eq := bytes.Equal(a, b)
			if op == opEqualVer {
				if !eq {
					return errors.New("equalverify failed")
				}
			} else if eq {
				stack = append(stack, []byte{1})
			} else {
				stack = append(stack, nil)
			}
		case op == opSha256:
			v, err := pop()
			if err != nil {
				return err
			}
			h := sha256.Sum256(v)
			stack = append(stack, h[:])
		case op == opCheckSig:
			pk, err := pop()
			if err != nil {
				return err
			}
			sig, err := pop()
			if err != nil {
				return err
			}
			ok, err := checkSig(sig, pk, script, ctx)
			if err != nil {
				return err
			}
			if !ok && len(sig) > 0 {
				return errors.New("nullfail")
			}
			if ok {
				stack = append(stack, []byte{1})
			} else {
				stack = append(stack, nil)
			}
		case op == opCSV:
			if len(stack) == 0 {
				return errors.New("stack underflow")
			}
			n, err := scriptNum(stack[len(stack)-1], 5)
			if err != nil {
				return err
			}
			if n < 0 {
				return errors.New("negative locktime")
			}
			want := uint32(n)
			if n > 0xffffffff {
				want = 0xffffffff
			}
			if uint64(n)&uint64(seqDisable) != 0 {
				break // NOP
			}
			if ctx.TxVersion < 2 && ctx.TxVersion >= 0 {
				return errors.New("csv: tx version < 2")
			}
			if uint32(ctx.TxVersion) < 2 {
				return errors.New("csv: tx version < 2")
			}
			if ctx.Sequence&seqDisable != 0 {
				return errors.New("csv: sequence disabled")
			}
			if (want&seqTypeFlag != 0) != (ctx.Sequence&seqTypeFlag != 0) {
				return errors.New("csv: lock type mismatch")
			}
			if want&seqMask > ctx.Sequence&seqMask {
				return errors.New("csv: locktime not reached")
			}
		default:
			return fmt.Errorf("%w 0x%02x", ErrUnsupported, op)
		}
		if len(stack) > 1000 {
			return errors.New("stack overflow")
		}
	}
	if len(cond) != 0 {
		return errors.New("unbalanced conditional")
	}
	if len(stack) != 1 {
		return fmt.Errorf("clean stack: %d items left", len(stack))
	}
	if !castToBool(stack[0]) {
		return errors.New("script evaluated to false")
	}
	return nil
}

func checkSig(sig, pk, script []byte, ctx *Ctx) (bool, error) {
	if len(sig) == 0 {
		return false, nil
	}
	hashType := sig[len(sig)-1]
	der := sig[:len(sig)-1]
	// strict encoding: defined hash type
	base := hashType &^ 0x80
	if base < 1 || base > 3 {
		return false, errors.New("invalid hash type")
	}
	// witness v0 requires compressed keys under the standard flags both engines use
	if len(pk) != 33 || (pk[0] != 2 && pk[0] != 3) {
		return false, errors.New("witness pubkey type")
	}
	parsed, err := ecdsa.ParseDERSignature(der)
	if err != nil {
		return false, fmt.Errorf("bad DER signature: %w", err)
	}
	// low S
	s := parsed.Serialize()
	if !bytes.Equal(s, der) {
		// re-serialisation canonicalises to low S / minimal DER: a difference means high S or non-canonical
		return false, errors.New("non-canonical or high-S signature")
	}
	pub, err := btcec.ParsePubKey(pk)
	if err != nil {
		return false, fmt.Errorf("bad pubkey: %w", err)
	}
	digest, err := ctx.SigHash(hashType, script)
	if err != nil {
		return false, err
	}
	return parsed.Verify(digest, pub), nil
}
