// Package ref holds reference models used as oracles. They are written from
// docs/peer-protocol.md and the property statements, not from the implementation.
package ref

import (
	"crypto/sha256"

	"github.com/btcsuite/btcd/txscript"
)

// OpeningScript is the opening transaction output script as the protocol document
// writes it:
//
//	<B> OP_CHECKSIG OP_NOTIF
//	  <B> OP_CHECKSIG OP_NOTIF
//	    OP_SIZE <20> OP_EQUALVERIFY OP_SHA256 <H> OP_EQUALVERIFY
//	  OP_ENDIF
//	  <A> OP_CHECKSIG
//	OP_ELSE
//	  <N> OP_CHECKSEQUENCEVERIFY
//	OP_ENDIF
//
// A = taker pubkey, B = maker pubkey, H = payment hash, N = csv.
func OpeningScript(takerPub, makerPub, hash []byte, csv uint32) []byte {
	b := txscript.NewScriptBuilder()
	b.AddData(makerPub).AddOp(txscript.OP_CHECKSIG).AddOp(txscript.OP_NOTIF)
	b.AddData(makerPub).AddOp(txscript.OP_CHECKSIG).AddOp(txscript.OP_NOTIF)
	b.AddOp(txscript.OP_SIZE).AddData([]byte{0x20}).AddOp(txscript.OP_EQUALVERIFY).AddOp(txscript.OP_SHA256).AddData(hash).AddOp(txscript.OP_EQUALVERIFY)
	b.AddOp(txscript.OP_ENDIF)
	b.AddData(takerPub).AddOp(txscript.OP_CHECKSIG)
	b.AddOp(txscript.OP_ELSE)
	b.AddInt64(int64(csv)).AddOp(txscript.OP_CHECKSEQUENCEVERIFY)
	b.AddOp(txscript.OP_ENDIF)
	s, err := b.Script()
	if err != nil {
		panic(err)
	}
	return s
}

// P2WSH returns the version-0 witness program paying to script.
func P2WSH(script []byte) []byte {
	h := sha256.Sum256(script)
	return append([]byte{0x00, 0x20}, h[:]...)
}

// CSV returns the relative lock the protocol assigns to a chain / protocol version.
func CSV(chain string, version uint8) uint32 {
	if chain == "btc" {
		return 1008
	}
	if version == 6 {
		return 60
	}
	return 10080
}

// MinConfs is the required depth of the opening transaction.
func MinConfs(chain string) uint32 {
	if chain == "btc" {
		return 3
	}
	return 2
}

// Message type numbers as assigned by docs/peer-protocol.md.
const (
	MsgSwapInRequest      = 42069
	MsgSwapOutRequest     = 42071
	MsgSwapInAgreement    = 42073
	MsgSwapOutAgreement   = 42075
	MsgOpeningTxBroadcast = 42077
	MsgCancel             = 42079
	MsgCoopClose          = 42081
	MsgPoll               = 42083
	MsgRequestPoll        = 42085
)
