module verifharness

go 1.22.6

toolchain go1.23.4

require (
	github.com/anishathalye/porcupine v1.3.0
	github.com/btcsuite/btcd v0.24.3-0.20250318170759-4f4ea81776d6
	github.com/btcsuite/btcd/btcec/v2 v2.3.4
	github.com/btcsuite/btcd/btcutil v1.1.5
	github.com/btcsuite/btcd/btcutil/psbt v1.1.8
	github.com/btcsuite/btcd/chaincfg/chainhash v1.1.0
	github.com/cenkalti/backoff/v4 v4.3.0
	github.com/checksum0/go-electrum v0.0.0-20220912200153-b862ac442cf9
	github.com/elementsproject/glightning v0.0.0-20250728212555-da2a093f26a9
	github.com/elementsproject/peerswap v0.0.0
	github.com/go-errors/errors v1.4.2
	github.com/google/go-cmp v0.7.0
	github.com/grpc-ecosystem/go-grpc-middleware v1.3.0
	github.com/grpc-ecosystem/grpc-gateway/v2 v2.11.3
	github.com/hashicorp/go-retryablehttp v0.7.5
	github.com/jessevdk/go-flags v1.5.0
	github.com/lightningnetwork/lnd v0.18.4-beta.rc1
	github.com/pelletier/go-toml/v2 v2.0.5
	github.com/pkg/errors v0.9.1
	github.com/stretchr/testify v1.9.0
	github.com/thejerf/suture/v4 v4.0.6
	github.com/urfave/cli v1.22.9
	github.com/vulpemventures/go-elements v0.5.1
	github.com/vulpemventures/go-secp256k1-zkp v1.1.6
	github.com/ybbus/jsonrpc v2.1.2+incompatible
	go.etcd.io/bbolt v1.3.11
	go.uber.org/mock v0.4.0
	go.uber.org/zap v1.23.0
	golang.org/x/sys v0.20.0
	google.golang.org/grpc v1.59.0
	google.golang.org/protobuf v1.33.0
	gopkg.in/macaroon.v2 v2.1.0
	gopkg.in/natefinch/lumberjack.v2 v2.2.1
)

require (
	github.com/Azure/go-ansiterm v0.0.0-20230124172434-306776ec8161 // indirect
	github.com/Microsoft/go-winio v0.6.1 // indirect
	github.com/Nvveen/Gotty v0.0.0-20120604004816-cd527374f1e5 // indirect
	github.com/aead/chacha20 v0.0.0-20180709150244-8b13a72661da // indirect
	github.com/aead/siphash v1.0.1 // indirect
	github.com/benbjohnson/clock v1.3.0 // indirect
	github.com/beorn7/perks v1.0.1 // indirect
	github.com/btcsuite/btclog v0.0.0-20170628155309-84c8d2346e9f // indirect
	github.com/btcsuite/btcwallet v0.16.10-0.20240912233857-ffb143c77cc5 // indirect
	github.com/btcsuite/btcwallet/wallet/txauthor v1.3.5 // indirect
	github.com/btcsuite/btcwallet/wallet/txrules v1.2.2 // indirect
	github.com/btcsuite/btcwallet/wallet/txsizes v1.2.5 // indirect
	github.com/btcsuite/btcwallet/walletdb v1.4.4 // indirect
	github.com/btcsuite/btcwallet/wtxmgr v1.5.4 // indirect
	github.com/btcsuite/go-socks v0.0.0-20170105172521-4720035b7bfd // indirect
	github.com/btcsuite/websocket v0.0.0-20150119174127-31079b680792 // indirect
	github.com/btcsuite/winsvc v1.0.0 // indirect
	github.com/cespare/xxhash/v2 v2.2.0 // indirect
	github.com/containerd/continuity v0.3.0 // indirect
	github.com/coreos/go-semver v0.3.0 // indirect
	github.com/coreos/go-systemd/v22 v22.4.0 // indirect
	github.com/cpuguy83/go-md2man/v2 v2.0.0 // indirect
	github.com/davecgh/go-spew v1.1.1 // indirect
	github.com/decred/dcrd/crypto/blake256 v1.0.1 // indirect
	github.com/decred/dcrd/dcrec/secp256k1/v4 v4.3.0 // indirect
	github.com/decred/dcrd/lru v1.1.2 // indirect
	github.com/docker/cli v20.10.17+incompatible // indirect
	github.com/docker/docker v24.0.7+incompatible // indirect
	github.com/docker/go-connections v0.4.0 // indirect
	github.com/docker/go-units v0.5.0 // indirect
	github.com/dustin/go-humanize v1.0.1 // indirect
	github.com/fergusstrange/embedded-postgres v1.25.0 // indirect
	github.com/go-logr/logr v1.2.3 // indirect
	github.com/go-logr/stdr v1.2.2 // indirect
	github.com/go-macaroon-bakery/macaroonpb v1.0.0 // indirect
	github.com/gogo/protobuf v1.3.2 // indirect
	github.com/golang-jwt/jwt/v4 v4.4.2 // indirect
	github.com/golang-migrate/migrate/v4 v4.17.0 // indirect
	github.com/golang/protobuf v1.5.3 // indirect
	github.com/golang/snappy v0.0.4 // indirect
	github.com/google/btree v1.1.2 // indirect
	github.com/google/shlex v0.0.0-20191202100458-e7afc7fbc510 // indirect
	github.com/google/uuid v1.6.0 // indirect
	github.com/gorilla/websocket v1.5.0 // indirect
	github.com/grpc-ecosystem/go-grpc-prometheus v1.2.0 // indirect
	github.com/grpc-ecosystem/grpc-gateway v1.16.0 // indirect
	github.com/hashicorp/errwrap v1.1.0 // indirect
	github.com/hashicorp/go-cleanhttp v0.5.2 // indirect
	github.com/hashicorp/go-multierror v1.1.1 // indirect
	github.com/hashicorp/golang-lru/v2 v2.0.7 // indirect
	github.com/imdario/mergo v0.3.12 // indirect
	github.com/jackc/chunkreader/v2 v2.0.1 // indirect
	github.com/jackc/pgconn v1.14.3 // indirect
	github.com/jackc/pgerrcode v0.0.0-20240316143900-6e2875d9b438 // indirect
	github.com/jackc/pgio v1.0.0 // indirect
	github.com/jackc/pgpassfile v1.0.0 // indirect
	github.com/jackc/pgproto3/v2 v2.3.3 // indirect
	github.com/jackc/pgservicefile v0.0.0-20221227161230-091c0ba34f0a // indirect
	github.com/jackc/pgtype v1.14.0 // indirect
	github.com/jackc/pgx/v4 v4.18.2 // indirect
	github.com/jackc/pgx/v5 v5.3.1 // indirect
	github.com/jonboulle/clockwork v0.3.0 // indirect
	github.com/jrick/logrotate v1.1.2 // indirect
	github.com/json-iterator/go v1.1.12 // indirect
	github.com/kkdai/bstream v1.0.0 // indirect
	github.com/lib/pq v1.10.9 // indirect
	github.com/lightninglabs/gozmq v0.0.0-20191113021534-d20a764486bf // indirect
	github.com/lightninglabs/neutrino v0.16.1-0.20240425105051-602843d34ffd // indirect
	github.com/lightninglabs/neutrino/cache v1.1.2 // indirect
	github.com/lightningnetwork/lightning-onion v1.2.1-0.20240712235311-98bd56499dfb // indirect
	github.com/lightningnetwork/lnd/clock v1.1.1 // indirect
	github.com/lightningnetwork/lnd/fn v1.2.3 // indirect
	github.com/lightningnetwork/lnd/healthcheck v1.2.5 // indirect
	github.com/lightningnetwork/lnd/kvdb v1.4.10 // indirect
	github.com/lightningnetwork/lnd/queue v1.1.1 // indirect
	github.com/lightningnetwork/lnd/sqldb v1.0.4 // indirect
	github.com/lightningnetwork/lnd/ticker v1.1.1 // indirect
	github.com/lightningnetwork/lnd/tlv v1.2.6 // indirect
	github.com/lightningnetwork/lnd/tor v1.1.2 // indirect
	github.com/ltcsuite/ltcd v0.22.1-beta // indirect
	github.com/mattn/go-isatty v0.0.20 // indirect
	github.com/matttproud/golang_protobuf_extensions v1.0.2 // indirect
	github.com/miekg/dns v1.1.50 // indirect
	github.com/mitchellh/mapstructure v1.4.1 // indirect
	github.com/moby/term v0.5.0 // indirect
	github.com/modern-go/concurrent v0.0.0-20180306012644-bacd9c7ef1dd // indirect
	github.com/modern-go/reflect2 v1.0.2 // indirect
	github.com/ncruces/go-strftime v0.1.9 // indirect
	github.com/opencontainers/go-digest v1.0.0 // indirect
	github.com/opencontainers/image-spec v1.0.2 // indirect
	github.com/opencontainers/runc v1.1.12 // indirect
	github.com/ory/dockertest/v3 v3.10.0 // indirect
	github.com/pmezard/go-difflib v1.0.0 // indirect
	github.com/prometheus/client_golang v1.13.0 // indirect
	github.com/prometheus/client_model v0.2.0 // indirect
	github.com/prometheus/common v0.37.0 // indirect
	github.com/prometheus/procfs v0.8.0 // indirect
	github.com/remyoudompheng/bigfft v0.0.0-20230129092748-24d4a6f8daec // indirect
	github.com/rogpeppe/fastuuid v1.2.0 // indirect
	github.com/russross/blackfriday/v2 v2.0.1 // indirect
	github.com/samber/lo v1.47.0 // indirect
	github.com/shurcooL/sanitized_anchor_name v1.0.0 // indirect
	github.com/sirupsen/logrus v1.9.2 // indirect
	github.com/soheilhy/cmux v0.1.5 // indirect
	github.com/spf13/pflag v1.0.5 // indirect
	github.com/stretchr/objx v0.5.2 // indirect
	github.com/syndtr/goleveldb v1.0.1-0.20210819022825-2ae1ddf74ef7 // indirect
	github.com/tmc/grpc-websocket-proxy v0.0.0-20220101234140-673ab2c3ae75 // indirect
	github.com/vulpemventures/fastsha256 v0.0.0-20160815193821-637e65642941 // indirect
	github.com/xeipuuv/gojsonpointer v0.0.0-20180127040702-4e3ac2762d5f // indirect
	github.com/xeipuuv/gojsonreference v0.0.0-20180127040603-bd5ef7bd5415 // indirect
	github.com/xeipuuv/gojsonschema v1.2.0 // indirect
	github.com/xi2/xz v0.0.0-20171230120015-48954b6210f8 // indirect
	github.com/xiang90/probing v0.0.0-20190116061207-43a291ad63a2 // indirect
	go.etcd.io/etcd/api/v3 v3.5.7 // indirect
	go.etcd.io/etcd/client/pkg/v3 v3.5.7 // indirect
	go.etcd.io/etcd/client/v2 v2.305.7 // indirect
	go.etcd.io/etcd/client/v3 v3.5.7 // indirect
	go.etcd.io/etcd/pkg/v3 v3.5.7 // indirect
	go.etcd.io/etcd/raft/v3 v3.5.7 // indirect
	go.etcd.io/etcd/server/v3 v3.5.7 // indirect
	go.opentelemetry.io/contrib/instrumentation/google.golang.org/grpc/otelgrpc v0.36.1 // indirect
	go.opentelemetry.io/otel v1.10.0 // indirect
	go.opentelemetry.io/otel/exporters/otlp/internal/retry v1.10.0 // indirect
	go.opentelemetry.io/otel/exporters/otlp/otlptrace v1.10.0 // indirect
	go.opentelemetry.io/otel/exporters/otlp/otlptrace/otlptracegrpc v1.10.0 // indirect
	go.opentelemetry.io/otel/sdk v1.10.0 // indirect
	go.opentelemetry.io/otel/trace v1.10.0 // indirect
	go.opentelemetry.io/proto/otlp v0.19.0 // indirect
	go.uber.org/atomic v1.10.0 // indirect
	go.uber.org/multierr v1.8.0 // indirect
	golang.org/x/crypto v0.23.0 // indirect
	golang.org/x/exp v0.0.0-20240325151524-a685a6edb6d8 // indirect
	golang.org/x/mod v0.17.0 // indirect
	golang.org/x/net v0.25.0 // indirect
	golang.org/x/sync v0.10.0 // indirect
	golang.org/x/term v0.20.0 // indirect
	golang.org/x/text v0.16.0 // indirect
	golang.org/x/time v0.3.0 // indirect
	golang.org/x/tools v0.21.1-0.20240508182429-e35e4ccd0d2d // indirect
	google.golang.org/genproto v0.0.0-20231016165738-49dd2c1f3d0b // indirect
	google.golang.org/genproto/googleapis/api v0.0.0-20231016165738-49dd2c1f3d0b // indirect
	google.golang.org/genproto/googleapis/rpc v0.0.0-20231030173426-d783a09b4405 // indirect
	gopkg.in/errgo.v1 v1.0.1 // indirect
	gopkg.in/macaroon-bakery.v2 v2.3.0 // indirect
	gopkg.in/yaml.v2 v2.4.0 // indirect
	gopkg.in/yaml.v3 v3.0.1 // indirect
	modernc.org/gc/v3 v3.0.0-20240107210532-573471604cb6 // indirect
	modernc.org/libc v1.49.3 // indirect
	modernc.org/mathutil v1.6.0 // indirect
	modernc.org/memory v1.8.0 // indirect
	modernc.org/sqlite v1.29.10 // indirect
	modernc.org/strutil v1.2.0 // indirect
	modernc.org/token v1.1.0 // indirect
	sigs.k8s.io/yaml v1.3.0 // indirect
)

replace github.com/grpc-ecosystem/go-grpc-middleware => github.com/nepet/go-grpc-middleware v1.3.1-0.20220824133300-340e95267339

replace google.golang.org/protobuf => github.com/lightninglabs/protobuf-go-hex-display v1.30.0-hex-display

replace github.com/elementsproject/peerswap => /repo
