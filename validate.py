#!/usr/bin/env python3
import json, sys, glob, jsonschema
m = json.load(open('/verif/MANIFEST.json')); s = json.load(open('/root/.vp/MANIFEST.schema.json'))
jsonschema.validate(m, s); print('manifest ok', len(m['checks']), 'checks')
es = json.load(open('/root/.vp/EVIDENCE.schema.json'))
ids = [l and json.loads(l)['id'] for l in open('/verif/properties.jsonl') if l.strip()]
claimed = {c['property_id'] for c in m['checks']}; na = {n['property_id'] for n in m.get('not_applicable', [])}
assert claimed | na == set(ids) and not (claimed & na), (sorted(set(ids) - claimed - na), sorted(claimed & na))
bad = 0
for c in m['checks']:
    try:
        e = json.load(open(c['evidence_file'])); jsonschema.validate(e, es)
        assert e['level'] == c['level_claimed']['category'], (c['property_id'], e['level'])
    except Exception as ex:
        bad += 1; print('EVIDENCE PROBLEM', c['property_id'], str(ex)[:200])
print('evidence ok' if not bad else 'evidence problems: %d' % bad)
